#!/usr/bin/env bash
# Fixture corpus for C17 (TLS always serves a loaded certificate that covers the requested name).
#
# Generates self-signed leaf certificates over a small name alphabet with overlapping exact and
# wildcard SANs, CN-only subjects, differing notAfter, RSA-2048 and Ed25519 keys, and writes
# manifest.json.  Everything in the manifest is derived from what `openssl` reports about the
# generated files (never from sozu): fingerprint = SHA-256 of the DER, names = RFC 6125 §6.4.4
# identities (SAN dNSName entries if there is at least one, otherwise the subject CNs).
#
# Run ONCE, offline; the verification check only reads the committed files and never runs openssl.
# Re-running produces new keys, hence new fingerprints (the check reads them from the manifest).
#
# All certificates are valid at the harness's virtual REALTIME epoch 2026-09-25T00:00:00Z
# (notBefore 2026-01-01, notAfter from the table below).
set -euo pipefail
cd "$(dirname "$0")"
export LC_ALL=C

NOT_BEFORE=20260101000000Z
# expiry classes
E1=20261201000000Z
E2=20270315120000Z
E3=20270925000000Z
E4=20280630000000Z
E5=20290101000000Z
E6=20310925000000Z

# id | key | CN ('-' = no CN, subject is O=c17 only) | SAN entries, comma separated, openssl syntax ('-' = no SAN extension) | notAfter | group
# group: base = lowercase well-formed names; case = names that need normalisation (mixed case / trailing dot)
TABLE='
c01|rsa|a.test|DNS:a.test|E2|base
c02|ed|a.test|DNS:a.test|E4|base
c03|ed|a.test|DNS:a.test|E4|base
c04|rsa|a.test|-|E3|base
c05|ed|b.test|-|E1|base
c06|ed|a.test|DNS:a.test,DNS:b.test|E3|base
c07|rsa|-|DNS:*.a.test|E2|base
c08|ed|-|DNS:*.a.test|E5|base
c09|ed|a.test|DNS:*.a.test,DNS:a.test|E3|base
c10|ed|-|DNS:*.test|E6|base
c11|rsa|a.test|DNS:*.test,DNS:a.test|E1|base
c12|ed|x.a.test|DNS:x.a.test|E2|base
c13|ed|x.a.test|DNS:x.a.test,DNS:y.a.test|E4|base
c14|rsa|x.a.test|DNS:x.a.test,DNS:*.a.test|E1|base
c15|ed|www.b.test|DNS:www.b.test|E3|base
c16|ed|b.test|DNS:www.b.test,DNS:b.test|E5|base
c17|rsa|-|DNS:*.b.test|E4|base
c18|ed|-|DNS:*.b.test,DNS:*.a.test|E2|base
c19|ed|b.test|DNS:b.test,DNS:*.b.test,DNS:www.b.test|E6|base
c20|ed|z.x.a.test|DNS:z.x.a.test|E3|base
c21|ed|-|DNS:*.x.a.test|E2|base
c22|rsa|x.a.test|DNS:*.x.a.test,DNS:x.a.test|E5|base
c23|ed|a.test|DNS:a.test,DNS:b.test,DNS:x.a.test,DNS:y.a.test,DNS:www.b.test|E1|base
c24|ed|a.test|DNS:a.test,DNS:b.test,DNS:x.a.test,DNS:y.a.test,DNS:www.b.test|E6|base
c25|ed|x.a.test|-|E6|base
c26|ed|*.a.test|-|E4|base
c27|rsa|b.test|DNS:a.test|E5|base
c28|ed|www.b.test|DNS:b.test|E2|base
c29|ed|a.test|DNS:a.test,DNS:b.test,DNS:a.test|E4|base
c30|ed|y.a.test|DNS:y.a.test|E1|base
c31|ed|y.a.test|DNS:y.a.test,DNS:*.test|E3|base
c32|rsa|-|DNS:*.test,DNS:*.a.test,DNS:*.b.test|E2|base
c33|ed|-|DNS:A.Test|E5|case
c34|ed|-|DNS:*.A.TEST,DNS:B.test|E3|case
c35|ed|-|DNS:a.test.|E4|case
c36|ed|b.test|IP:192.0.2.1|E3|base
c37|ed|a.test|DNS:a.test,IP:192.0.2.7,email:ops@a.test|E6|base
c38|rsa|x.a.test|DNS:x.a.test,DNS:y.a.test,DNS:z.x.a.test|E3|base
c39|ed|b.test|DNS:*.test,DNS:b.test|E5|base
c40|ed|www.b.test|DNS:www.b.test|E3|base
c41|ed|-|-|E3|base
c42|ed|y.a.test|DNS:y.a.test,DNS:*.a.test,DNS:*.test|E5|base
'

rm -f c[0-9][0-9].pem c[0-9][0-9].key manifest.json
entries=()
while IFS='|' read -r id key cn san exp group; do
  [ -z "$id" ] && continue
  not_after="${!exp}"
  case "$key" in
    rsa) openssl genpkey -quiet -algorithm RSA -pkeyopt rsa_keygen_bits:2048 -out "$id.key" ;;
    ed)  openssl genpkey -algorithm ED25519 -out "$id.key" ;;
  esac
  subj="/O=c17"
  [ "$cn" != "-" ] && subj="/O=c17/CN=$cn"
  ext=(-addext "basicConstraints=critical,CA:FALSE" -addext "keyUsage=critical,digitalSignature,keyEncipherment" -addext "extendedKeyUsage=serverAuth")
  [ "$san" != "-" ] && ext+=(-addext "subjectAltName=$san")
  openssl req -x509 -new -key "$id.key" -subj "$subj" -not_before "$NOT_BEFORE" -not_after "$not_after" \
      -set_serial "0x$(echo -n "$id" | od -An -tx1 | tr -d ' \n')" "${ext[@]}" -out "$id.pem"

  # ---- manifest entry, from what openssl says about the produced file
  fp=$(openssl x509 -in "$id.pem" -outform DER | openssl dgst -sha256 -r | cut -d' ' -f1)
  end_iso=$(openssl x509 -in "$id.pem" -noout -enddate -dateopt iso_8601 | cut -d= -f2)
  start_iso=$(openssl x509 -in "$id.pem" -noout -startdate -dateopt iso_8601 | cut -d= -f2)
  end_unix=$(date -u -d "$end_iso" +%s)
  start_unix=$(date -u -d "$start_iso" +%s)
  cns=$(openssl x509 -in "$id.pem" -noout -subject -nameopt multiline | sed -n 's/^ *commonName *= *//p')
  sans=$(openssl x509 -in "$id.pem" -noout -ext subjectAltName 2>/dev/null | tail -n +2 | tr ',' '\n' | sed -n 's/^ *DNS://p' || true)
  to_json_list() { local first=1; printf '['; while IFS= read -r l; do [ -z "$l" ] && continue; [ $first = 1 ] || printf ','; first=0; printf '"%s"' "$l"; done; printf ']'; }
  cn_json=$(printf '%s\n' "$cns" | to_json_list)
  san_json=$(printf '%s\n' "$sans" | to_json_list)
  if [ -n "$sans" ]; then names_json=$san_json; else names_json=$cn_json; fi
  entries+=("  {\"id\":\"$id\",\"file\":\"$id.pem\",\"key_file\":\"$id.key\",\"key_type\":\"$key\",\"group\":\"$group\",\"cn\":$cn_json,\"san_dns\":$san_json,\"names\":$names_json,\"not_before\":\"$start_iso\",\"not_before_unix\":$start_unix,\"not_after\":\"$end_iso\",\"not_after_unix\":$end_unix,\"fingerprint\":\"$fp\"}")
done <<< "$TABLE"

{
  echo '{'
  echo ' "comment": "C17 fixture corpus; generated by generate.sh with openssl; fingerprint = SHA-256 of DER; names = SAN dNSName entries if any, else subject CNs (RFC 6125 6.4.4)",'
  echo ' "valid_at": "2026-09-25T00:00:00Z",'
  echo ' "certs": ['
  n=${#entries[@]}
  for i in "${!entries[@]}"; do
    if [ "$i" -lt $((n-1)) ]; then echo "${entries[$i]},"; else echo "${entries[$i]}"; fi
  done
  echo ' ]'
  echo '}'
} > manifest.json
echo "generated ${#entries[@]} certificates"
