#!/usr/bin/env python3
"""make_mut_prompt.py CXX -> writes /tmp/mut-CXX-prompt.md (brief + the property's text; nothing else from /verif)."""
import json, sys, os
ROOT = os.path.dirname(os.path.dirname(os.path.abspath(__file__)))
pid = sys.argv[1]
wt, out = f"/tmp/mut-{pid}", f"/tmp/mut-{pid}-out"
brief = open(os.path.join(ROOT, "tools/MUTATOR_BRIEF.md")).read().split("\n", 1)[1].replace("{WT}", wt).replace("{OUT}", out)
d = next(json.loads(l) for l in open(os.path.join(ROOT, "properties.jsonl")) if json.loads(l)["id"] == pid)
a = d["anchors"]
prop = f"""
## The property ({pid})

**{d['title']}**

Statement: {d['statement']}

Holds over: {d['quantifier']['text']}

Why the existing tests cannot settle it: {d['why_tests_cant']}

Code it is anchored in: {', '.join(a['files'])}

Mechanisms that make it hold today: {'; '.join(f"{m['name']} ({m['where']})" for m in a.get('mechanism', []))}

Where it can be observed: {'; '.join(a.get('observe_at', []))}
"""
open(f"/tmp/mut-{pid}-prompt.md", "w").write(brief + prop)
print(f"/tmp/mut-{pid}-prompt.md")
