#!/usr/bin/env python3
"""make_mut_prompt4.py CXX [wave] -> writes /tmp/mut<wave>-CXX-prompt.md

Later-wave variant of make_mut_prompt.py: the same brief plus the property's text, plus one paragraph that
lists the one-sentence summaries of the changes earlier sub-agents already delivered for this property (taken
from seeded/<id>/meta.json "summary"/"files_changed", i.e. the sub-agents' own words - nothing about which
checks exist or what they detect), so that a new sub-agent picks other mechanisms."""
import json, sys, os, glob
ROOT = os.path.dirname(os.path.dirname(os.path.abspath(__file__)))
pid = sys.argv[1]
wave = sys.argv[2] if len(sys.argv) > 2 else "4"
wt, out = f"/tmp/mut{wave}-{pid}", f"/tmp/mut{wave}-{pid}-out"
brief = open(os.path.join(ROOT, "tools/MUTATOR_BRIEF.md")).read().split("\n", 1)[1].replace("{WT}", wt).replace("{OUT}", out)
d = next(json.loads(l) for l in open(os.path.join(ROOT, "properties.jsonl")) if json.loads(l)["id"] == pid)
a = d["anchors"]
prop = f"""
## The property ({pid})

**{d['title']}**

Statement: {d['statement']}

Holds over: {d['quantifier']['text']}

Why the existing tests cannot settle it: {d['why_tests_cant']}

Code it is anchored in: {', '.join(a['files'])}

Mechanisms that make it hold today: {'; '.join(f"{m['name']} ({m['where']})" for m in a.get('mechanism', []))}

Where it can be observed: {'; '.join(a.get('observe_at', []))}
"""
taken = []
for m in sorted(glob.glob(os.path.join(ROOT, f"seeded/{pid}-*/meta.json"))):
    j = json.load(open(m))
    taken.append(f"* ({', '.join(j.get('files_changed', []))}) {j.get('summary', '')}")
extra = ""
if taken:
    extra = ("\n## Already delivered by earlier rounds (choose DIFFERENT mechanisms, and preferably different files/clauses)\n\n"
             + "\n".join(taken)
             + "\n\nFavour changes whose trigger is an interleaving, a fault at a particular moment (peer closes / stalls / resets, "
               "partial write, timer firing, command arriving mid-request), a multi-step history, a size boundary, or two sites "
               "that must cooperate - over changes any single ordinary request would expose. Look across ALL anchored files, "
               "including the less obvious ones (the `bin/` main-process paths, timers, pools, retry/health logic, UDP/TCP paths) "
               "when the property names them.\n")
open(f"/tmp/mut{wave}-{pid}-prompt.md", "w").write(brief + prop + extra)
print(f"/tmp/mut{wave}-{pid}-prompt.md")
