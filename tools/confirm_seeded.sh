#!/bin/bash
# usage: tools/confirm_seeded.sh <worktree> <mutation-dir>   e.g. /tmp/mut-C10 /tmp/mut-C10-out/1
# Confirms, in the scratch worktree, that the patch applies, builds, and that the existing suite still passes with it.
# Writes <mutation-dir>/confirm_suite.txt (failed tests + summary). Leaves the worktree pristine.
set -u
WT="$1"; M="$2"
cd "$WT" || exit 2
git checkout -q -- . ; git clean -fdq -- lib command bin e2e 2>/dev/null
git apply "$M/patch.diff" || { echo "patch does not apply" > "$M/confirm_suite.txt"; exit 2; }
CARGO_NET_OFFLINE=true cargo nextest run --workspace --no-fail-fast --test-threads ${THREADS:-4} --offline > "$M/confirm_suite.log" 2>&1
{ grep -E "FAIL \[" "$M/confirm_suite.log" | sort -u; grep -E "Summary" "$M/confirm_suite.log"; } > "$M/confirm_suite.txt"
git checkout -q -- . ; git clean -fdq -- lib command bin e2e 2>/dev/null
rm -f "$M/confirm_suite.log"
cat "$M/confirm_suite.txt"
