#!/bin/bash
# usage: tools/confirm_rerun.sh <worktree> <mutation-dir>: reruns, alone and with the patch applied, every test that failed in
# confirm_suite.txt apart from the failures of the pristine tree in this sandbox; appends the outcome to confirm_suite.txt.
set -u
WT="$1"; M="$2"
KNOWN='fuzz_frame_parser|fuzz_hpack_decoder|fuzz_udp_flow|test_rtt|test_tls_sni_routing|test_h2_multi_cluster_routing'
TESTS=$(grep "FAIL \[" "$M/confirm_suite.txt" | grep -Ev "$KNOWN" | sed 's/.*) *[a-z-]* //' | awk '{print $NF}' | sort -u)
[ -z "$TESTS" ] && { echo "rerun: nothing beyond the pristine failures" >> "$M/confirm_suite.txt"; exit 0; }
cd "$WT" || exit 2
git checkout -q -- . ; git apply "$M/patch.diff" || exit 2
for t in $TESTS; do
  name=${t##*::}
  ok=0; n=0
  for i in 1 2 3; do
    n=$((n+1))
    if CARGO_NET_OFFLINE=true cargo nextest run --workspace --offline --test-threads 1 -E "test(=$t)" > /tmp/rerun.$$.log 2>&1; then ok=$((ok+1)); fi
  done
  echo "rerun alone with the patch: $t passed $ok of $n" >> "$M/confirm_suite.txt"
done
rm -f /tmp/rerun.$$.log
git checkout -q -- .
