#!/bin/bash
# usage: tools/run_seeded.sh <seeded-id> [check ids...]   (default: the property named in meta.json)
# Applies /verif/seeded/<id>/patch.diff to /repo, runs the quick checks, and ALWAYS reverts /repo.
set -u
ROOT="$(cd "$(dirname "$0")/.." && pwd)"
SID="$1"; shift
DIR="$ROOT/seeded/$SID"
[ -f "$DIR/patch.diff" ] || { echo "no $DIR/patch.diff" >&2; exit 2; }
if [ -n "$(git -C /repo status --porcelain)" ]; then echo "/repo is dirty, refusing" >&2; exit 2; fi
CHECKS="$*"
if [ -z "$CHECKS" ]; then CHECKS=$(python3 -c "import json;print(json.load(open('$DIR/meta.json'))['property'])"); fi
git -C /repo apply "$DIR/patch.diff" || { echo "patch does not apply" >&2; exit 2; }
trap 'git -C /repo checkout -- . ; git -C /repo clean -fdq -- lib command bin e2e 2>/dev/null' EXIT
rc=0
# evidence and replays of runs against a deliberately broken tree never land in /verif/evidence or /verif/replays
export VERIF_OUT="/var/tmp/seeded-out/$SID"; mkdir -p "$VERIF_OUT"
for c in $CHECKS; do
  echo "=== seeded $SID vs check $c"
  "$ROOT/check" "$c" --tier quick > "$DIR/result_$c.log" 2>&1; r=$?
  grep -E "^VIOLATION|^  class=|quick:" "$DIR/result_$c.log" | cut -c1-260 | head -12
  echo "exit=$r"
  [ $r -eq 1 ] && rc=1
done
exit $rc
