#!/bin/bash
# usage: tools/mut_batch.sh <harness-name> <patch> <ID> [<ID>...]   -> prints one line per check: caught/missed + first violation lines
# Applies the patch in the scratch worktree of the named mutation harness (tools/mut_harness.sh), never in /repo.
set -u
ROOT="$(cd "$(dirname "$0")/.." && pwd)"
NAME="$1"; PATCH="$2"; shift 2
"$ROOT/tools/mut_harness.sh" "$NAME" sync
"$ROOT/tools/mut_harness.sh" "$NAME" apply "$PATCH" || exit 2
for ID in "$@"; do
  LOG="/var/tmp/mh-$NAME/res-$(basename "$(dirname "$PATCH")")-$ID.log"
  "$ROOT/tools/mut_harness.sh" "$NAME" check "$ID" --tier quick > "$LOG" 2>&1; rc=$?
  echo "=== $PATCH vs $ID: exit=$rc $( [ $rc -eq 1 ] && echo CAUGHT || echo MISSED )"
  grep -E "^VIOLATION|^  class=|quick:" "$LOG" | cut -c1-300 | head -8
done
"$ROOT/tools/mut_harness.sh" "$NAME" reset
