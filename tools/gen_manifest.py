#!/usr/bin/env python3
"""Regenerates /verif/MANIFEST.json from the table below (single source of truth for claimed checks)."""
import json, os
ROOT = os.path.dirname(os.path.dirname(os.path.abspath(__file__)))
ids = [json.loads(l)["id"] for l in open(os.path.join(ROOT, "properties.jsonl"))]

TRUST = "trusted base: Linux AF_UNIX+epoll standing in for TCP (address translation, EPOLLHUP mapped to TCP semantics), the libc interposition layer, the scripted peers and reference oracles in /verif/sim; release semantics (debug assertions off); x86-64 only. A clean batch is evidence over the sampled schedules, not proof."

MS="modelsim tier: the component is driven through its public API in-process under seeded hash order; system tiers named in the evidence not_covered list are not decided by this check."

CHECKS = {
 "C10": dict(engine="netsim", design="5/C10", category="exploration",
   text="Two plan families. codec: listener sets 0..200 of every textual address shape sent with the real send_listeners and read back with the real receive_listeners over a real unix socket pair, each returned fd checked against its address, with an fd-table audit. handover: two real workers (two threads under a baton scheduler that decides who runs) and a scripted master replaying ReturnListenSockets -> receive -> boot successor -> SoftStop/activate at seeded moments relative to client traffic; oracles: every listener returns bound to its address, every connect succeeds and every request in flight completes (C01 oracle), the old worker accepts nothing after acknowledging the stop, acknowledges exactly once and exits.",
   technique="deterministic simulation of two real worker event loops + scripted master with seeded hand-over timing; codec round-trip over generated listener sets"),
 "C17": dict(engine="modelsim", design="5/C17", category="exploration",
   text="Seeded and enumerated add/remove/replace histories (42 committed fixture certificates with overlapping exact/wildcard names, expiries, CN-only, case variants; names overrides; hostile fingerprints and PEM) against the real CertificateResolver under a seeded hash order; after every operation 75 probe spellings go through domain_lookup, names_for_sni, get_certificate and the rustls ResolvesServerCert path (synthesised ClientHello) and are compared with an independent reference model (exact over wildcard, longest-lived, default fallback; removed never served; no gap after replace). Every load x removal order of all 3-subsets of nine overlapping certificates is enumerated.",
   technique="operation-history simulation against an executable reference model, seeded hash order; exhaustive order enumeration for small certificate sets",
   note="modelsim tier: the resolver is driven through its public API in-process (no handshake against a running worker; that tier is listed as not covered in the evidence). Fixture fingerprints/names/expiry come from openssl, never from sozu."),
 "C19": dict(engine="modelsim", design="5/C19", category="exploration",
   text="Seeded histories over the repository's own action grammar (client/backend datagrams with unique payloads, late/stale resolutions, clock advances around idle timeouts, cap changes below the live count, cluster reconfiguration incl. affinity flips and PROXY-v2 modes, drain, abort, mass teardown) against the real sans-io UdpManager with the harness as I/O shell and virtual clock; the full Output vector of every call is compared with an independent reference model of stickiness, isolation, ordering, cap and exactly-once teardown.",
   technique="operation-history simulation with injected virtual clock against an executable reference model (history oracle over the Output stream)",
   note="modelsim tier: the flow core is driven directly; the socket shell lib/src/udp.rs is listed as not covered."),
 "C04": dict(engine="modelsim", design="5/C04", category="exploration",
   text="Seeded add/remove/re-add histories (pre/tree/post; exact, wildcard and regex hosts; PREFIX/REGEX/EQUALS paths; methods; policies) plus 258 systematic life-cycle and ordered-pair plans against the real Router, with an independent flat-list reference model returning the SET of acceptable routes per the documented precedence; after every operation every probe is checked (route acceptable, removed frontend never returned, unrelated change leaves route unchanged, insertion-order independence under PRNG-chosen permutations).",
   technique="operation-history simulation against an executable reference model with seeded hash order and insertion permutations", note=MS),
 "C05": dict(engine="modelsim", design="5/C05", category="exploration",
   text="Seeded command histories over every mutating verb (valid, invalid, partly invalid arguments) build reachable ConfigStates; snapshots go through all four save/replay paths (generated requests, state file via the real parser loop, protobuf initial-state file, UpgradeData JSON) with encoding under one hash seed on one thread and decoding/replay under another seed on another thread; the replayed state must equal the snapshot map by map.",
   technique="history simulation with metamorphic round-trip oracle and hash-seed variation across encode/replay", note=MS),
 "C06": dict(engine="modelsim", design="5/C06", category="exploration",
   text="Pairs of reachable configurations (prefix/continuation, unrelated histories, near pairs differing in one targeted attribute): the diff computed under one hash seed is applied command by command under another to a rebuilt source and must reach the target exactly, in both directions; diff(X,X) must be empty.",
   technique="history simulation with convergence oracle and hash-seed variation", note=MS),
 "C07": dict(engine="modelsim", design="5/C07", category="exploration",
   text="Histories with a high rate of partly invalid commands; the full ConfigState is compared before and after every command: on Err strict equality (no new empty bucket), on Ok a per-verb footprint model (only named objects/fields change, added objects stored as given, removed absent).",
   technique="history simulation with frame-rule reference model", note=MS),
 "C20": dict(engine="modelsim", design="5/C20", category="exploration",
   text="Seeded TOML configurations from the documented grammar (0..600 entries, all protocols and knobs, two layouts, up to three 8-bit id wraps) go through the real loader -> generate_config_messages -> fresh ConfigState; oracles: every message accepted, state equals an independent reading of the same toml::Table with documented defaults, reload idempotent (equal state, empty diffs), and 0..4 single-mutation constraint-violating neighbours per plan are rejected at load time.",
   technique="generated-configuration differential against an independent TOML reading, with seeded hash order (the scatter/back-pressure clause needs the hub tier)", note=MS),
 "C16": dict(engine="netsim", design="5/C16", category="exploration",
   text="Seeded deterministic simulation of the real worker under mixes of session outcomes and connection storms with max_connections 2..64: the hooks count the client sockets sozu is serving at every step (never above max_connections); after all peers left and virtual time passed every timeout, no client/backend socket remains open, QueryMetrics gauges equal their pre-traffic baseline and a fresh probe is served.",
   technique="deterministic simulation with fault injection; step-wise admission invariant from the syscall seam; baseline-vs-quiescence footprint comparison"),
 "C02": dict(engine="netsim", design="5/C02", category="exploration",
   text="Seeded deterministic simulation of the real worker with one injected cause per plan on a victim request (no route / denied / no backend / refused / black-holed connect / close on accept / backend close or stall at a byte offset / garbage / slow answer / client stall / keep-alive close) next to clean traffic; enumeration of close/stall at every response offset for small responses; the victim is judged against the cause->allowed-outcome table (exactly one answer, right status, explicit abort never a complete-looking short body, answer within the configured timeouts in virtual time), the rest by the C01 oracle.",
   technique="deterministic simulation with fault injection at byte offsets and lifecycle points; history oracle per request; virtual-time liveness bound"),
 "C01": dict(engine="netsim", design="5/C01", category="exploration",
   text="Seeded deterministic simulation of the real worker (Server::run) with scripted H1 clients/backends: every body byte is position-keyed and verified at both ends under random fragmentation, pacing, socket-buffer sizes, epoll truncation/permutation, preemption and injected short writes/EAGAIN; liveness via virtual-time bound. Sampling, not enumeration.",
   technique="deterministic simulation (libc-interposed real worker, seeded schedules + fault injection), byte-accounting oracle"),
}
NA_REASON = "check not built yet (work in progress; will be claimed once its engine exists)"

checks = []
for pid in ids:
    if pid not in CHECKS: continue
    c = CHECKS[pid]
    checks.append({
        "property_id": pid,
        "quick_cmd": f"./check {pid} --tier quick",
        "thorough_cmd": f"./check {pid} --tier thorough",
        "evidence_file": f"/verif/evidence/{pid}.json",
        "replay_cmd_template": f"./check {pid} --replay {{path}}",
        "engine": c["engine"],
        "level_claimed": {"category": c["category"], "text": c["text"], "design_ref": c["design"]},
        "level_note": c.get("note", TRUST),
        "technique": c["technique"],
    })
m = {
 "version": 1,
 "setup_cmd": "cd /verif/sim && CARGO_NET_OFFLINE=true cargo build --offline",
 "hooks": {"guard": "verif-hooks (cargo feature on the sozu bin crate; unused: no hook commit exists, the harness interposes libc symbols in its own binary)",
           "enable": "none needed; /verif/sim depends on /repo/{lib,command,bin} by path and rebuilds them from the working tree",
           "baseline_off_cmd": "cd /repo && cargo test --workspace --no-fail-fast --offline",
           "source_commits": [], "add_only": True},
 "engines": [
   {"name": "modelsim", "path": "/verif/sim/src/props", "serves_properties": [p for p in ids if CHECKS.get(p, {}).get("engine") == "modelsim"], "kind_free_text": "seeded operation histories against public stateful components of sozu under the same virtual clock / seeded entropy hooks, each with a small executable reference model"},
   {"name": "netsim", "path": "/verif/sim/src/netsim.rs", "serves_properties": [p for p in ids if CHECKS.get(p, {}).get("engine") == "netsim"], "kind_free_text": "one real sozu worker (Server::run) as a coroutine of a seeded discrete-event simulator behind interposed libc symbols (clock, entropy, epoll_wait, connect/bind/accept, data syscalls); scripted clients, backends and master"},
 ],
 "checks": checks,
 "notes": "See DESIGN.md. known_findings.json lists genuine defects recorded rather than repaired.",
 "not_applicable": [{"property_id": p, "reason": NA_REASON} for p in ids if p not in CHECKS],
}
json.dump(m, open(os.path.join(ROOT, "MANIFEST.json"), "w"), indent=1)
print("claimed:", [c["property_id"] for c in checks])
