#!/usr/bin/env python3
"""Regenerates /verif/MANIFEST.json from the table below (single source of truth for claimed checks)."""
import json, os
ROOT = os.path.dirname(os.path.dirname(os.path.abspath(__file__)))
ids = [json.loads(l)["id"] for l in open(os.path.join(ROOT, "properties.jsonl"))]

TRUST = "trusted base: Linux AF_UNIX+epoll standing in for TCP (address translation, EPOLLHUP mapped to TCP semantics), the libc interposition layer, the scripted peers and reference oracles in /verif/sim; release semantics (debug assertions off); x86-64 only. A clean batch is evidence over the sampled schedules, not proof."

MS="modelsim tier: the component is driven through its public API in-process under seeded hash order; system tiers named in the evidence not_covered list are not decided by this check."

CHECKS = {
 "C08": dict(engine="netsim", design="5/C08", category="exploration",
   text="The real worker receives seeded command histories (every mutating verb valid/invalid/duplicate/unknown-target from the configuration grammar, plus Status, queries, metrics configuration and per-IP limits) from the scripted master, back to back or with barriers, with the command stream fragmented at seeded byte quanta; the same requests are applied to a master-side ConfigState that forwards what it accepted (or everything). Oracles: exactly one final answer per id and no PROCESSING after it, no invented id, no garbage on the channel, no panic; when the worker accepted all it was sent, QueryClustersHashes and QueryClusterById for every cluster equal the master-side state, and every listener address mentioned is probed: sozu accept()s a simulated connection iff the master's view has the listener active.",
   technique="deterministic simulation (real worker event loop, scripted master with seeded fragmentation) against a master-side reference ConfigState; per-id history oracle"),
 "C18": dict(engine="netsim", design="5/C18", category="exploration",
   text="Real worker with 1-3 concurrent TCP sessions, each on its own TCP listener (IPv4/IPv6), cluster and backend, in the four PROXY-protocol modes (none / send / expect / relay); both peers stream position-keyed data (to 300 kB quick, 3 MB thorough, biased to buffer boundaries) under quanta down to one byte, pauses, read holds, small SO_SNDBUF, epoll truncation/permutation, preemption and injected short writes/EAGAIN, with seeded close choreography (close after confirmed delivery, FIN right behind the data, half-close from either or both sides, reset). 26 PROXY-v2 header shapes (families, TLV tails to 300 bytes, malformed, v1 text, truncated+FIN) with seeded fragmentation; every shape x byte position x {expect, relay} is enumerated in the thorough tier. Oracle: two independent ordered byte pipes (byte-exact, EOF only after all bytes, FIN closes only its direction); send mode: exactly one header accepted by an independent strict decoder naming the client's source and the listener; relay: verbatim once; expect: consumed; illegal header: nothing reaches the backend and the session closes; bounded virtual time.",
   technique="deterministic simulation (real worker, scripted TCP peers, independent PROXY-v2 decoder) with fault enumeration over header split positions"),
 "C10": dict(engine="netsim", design="5/C10", category="exploration",
   text="Two plan families. codec: listener sets 0..200 of every textual address shape sent with the real send_listeners and read back with the real receive_listeners over a real unix socket pair, each returned fd checked against its address, with an fd-table audit. handover: two real workers (two threads under a baton scheduler that decides who runs) and a scripted master replaying ReturnListenSockets -> receive -> boot successor -> SoftStop/activate at seeded moments relative to client traffic; oracles: every listener returns bound to its address, every connect succeeds and every request in flight completes (C01 oracle), the old worker accepts nothing after acknowledging the stop, acknowledges exactly once and exits.",
   technique="deterministic simulation of two real worker event loops + scripted master with seeded hand-over timing; codec round-trip over generated listener sets"),
 "C17": dict(engine="modelsim", design="5/C17", category="exploration",
   text="Seeded and enumerated add/remove/replace histories (42 committed fixture certificates with overlapping exact/wildcard names, expiries, CN-only, case variants; names overrides; hostile fingerprints and PEM) against the real CertificateResolver under a seeded hash order; after every operation 75 probe spellings go through domain_lookup, names_for_sni, get_certificate and the rustls ResolvesServerCert path (synthesised ClientHello) and are compared with an independent reference model (exact over wildcard, longest-lived, default fallback; removed never served; no gap after replace). Every load x removal order of all 3-subsets of nine overlapping certificates is enumerated.",
   technique="operation-history simulation against an executable reference model, seeded hash order; exhaustive order enumeration for small certificate sets",
   note="modelsim tier: the resolver is driven through its public API in-process (no handshake against a running worker; that tier is listed as not covered in the evidence). Fixture fingerprints/names/expiry come from openssl, never from sozu."),
 "C19": dict(engine="modelsim", design="5/C19", category="exploration",
   text="Seeded histories over the repository's own action grammar (client/backend datagrams with unique payloads, late/stale resolutions, clock advances around idle timeouts, cap changes below the live count, cluster reconfiguration incl. affinity flips and PROXY-v2 modes, drain, abort, mass teardown) against the real sans-io UdpManager with the harness as I/O shell and virtual clock; the full Output vector of every call is compared with an independent reference model of stickiness, isolation, ordering, cap and exactly-once teardown.",
   technique="operation-history simulation with injected virtual clock against an executable reference model (history oracle over the Output stream)",
   note="modelsim tier: the flow core is driven directly; the socket shell lib/src/udp.rs is listed as not covered."),
 "C04": dict(engine="modelsim", design="5/C04", category="exploration",
   text="Seeded add/remove/re-add histories (pre/tree/post; exact, wildcard and regex hosts; PREFIX/REGEX/EQUALS paths; methods; policies) plus 258 systematic life-cycle and ordered-pair plans against the real Router, with an independent flat-list reference model returning the SET of acceptable routes per the documented precedence; after every operation every probe is checked (route acceptable, removed frontend never returned, unrelated change leaves route unchanged, insertion-order independence under PRNG-chosen permutations).",
   technique="operation-history simulation against an executable reference model with seeded hash order and insertion permutations", note=MS),
 "C05": dict(engine="modelsim", design="5/C05", category="exploration",
   text="Seeded command histories over every mutating verb (valid, invalid, partly invalid arguments) build reachable ConfigStates; snapshots go through all four save/replay paths (generated requests, state file via the real parser loop, protobuf initial-state file, UpgradeData JSON) with encoding under one hash seed on one thread and decoding/replay under another seed on another thread; the replayed state must equal the snapshot map by map.",
   technique="history simulation with metamorphic round-trip oracle and hash-seed variation across encode/replay", note=MS),
 "C06": dict(engine="modelsim", design="5/C06", category="exploration",
   text="Pairs of reachable configurations (prefix/continuation, unrelated histories, near pairs differing in one targeted attribute): the diff computed under one hash seed is applied command by command under another to a rebuilt source and must reach the target exactly, in both directions; diff(X,X) must be empty.",
   technique="history simulation with convergence oracle and hash-seed variation", note=MS),
 "C07": dict(engine="modelsim", design="5/C07", category="exploration",
   text="Histories with a high rate of partly invalid commands; the full ConfigState is compared before and after every command: on Err strict equality (no new empty bucket), on Ok a per-verb footprint model (only named objects/fields change, added objects stored as given, removed absent).",
   technique="history simulation with frame-rule reference model", note=MS),
 "C20": dict(engine="modelsim", design="5/C20", category="exploration",
   text="Seeded TOML configurations from the documented grammar (0..600 entries, all protocols and knobs, two layouts, up to three 8-bit id wraps) go through the real loader -> generate_config_messages -> fresh ConfigState; oracles: every message accepted, state equals an independent reading of the same toml::Table with documented defaults, reload idempotent (equal state, empty diffs), and 0..4 single-mutation constraint-violating neighbours per plan are rejected at load time.",
   technique="generated-configuration differential against an independent TOML reading, with seeded hash order (the scatter/back-pressure clause needs the hub tier)", note=MS),
 "C03": dict(engine="netsim", design="5/C03", category="exploration",
   text="Black-box differential with three readers on the real worker: grammar-generated H1 request streams (valid seeds + 104 mutation operators over Content-Length, Transfer-Encoding, chunk syntax, target/Host, request line, header block, connection tricks, plus the repo's catalogued attack strings) are delivered twice under different seeded segmentations/schedules over kept-alive, reused backend connections; a strict RFC 9112 reference reader of the client's bytes, a no-recovery strict reader of every backend connection's raw bytes and the client-visible statuses must agree (every backend stream strict, backend requests = prefix of what the client sent up to the reject point, no foreign header line, malformed input answered 400, same outcome under both segmentations).",
   technique="deterministic simulation (real worker, scripted peers) with differential strict-reader oracle and metamorphic segmentation check"),
 "C09": dict(engine="hubsim", design="5/C09", category="exploration",
   text="The real master loop CommandHub::run as a coroutine of the simulator with 1-4 scripted workers (ok, failure, processing-then-ok, silent past worker_timeout, channel closed before/after answering, duplicate, late, unknown id, back-pressure) and 1-4 concurrent scripted CLI clients on the real unix command socket (mutating, query, load-state, save-state, stop, status verbs), 217 enumerated plans plus seeded ones; history oracle per client request: exactly one final answer, OK only if every worker alive at dispatch acknowledged in time, answer within worker_timeout in virtual time, right client, dead workers killed and reported, hub never panics and still serves a probe.",
   technique="deterministic simulation of the real master event loop with scripted faulty workers and virtual worker_timeout; history oracle with global sequence numbers"),
 "C11": dict(engine="chansim", design="5/C11", category="fault_enumeration",
   text="Two real nonblocking Channels over real unix socket pairs with a seeded relay moving k bytes per step in both directions, driven through the real owners (WorkerSession::ready, the hub's extract_messages, a transcription of the worker loop) and through raw API call orders; every split position of short sequences, every malformed-frame kind at every position for every owner and EOF at every offset are enumerated; oracles: exactly-once in-order delivery against an independent deframer, byte conservation at the kernel (FIONREAD), capacities never above max_buffer_size, Err never panic for malformed frames, and no wedge (after a malformed frame valid frames are delivered or the owner closes).",
   technique="deterministic simulation of both channel endpoints with a byte-granular relay; exhaustive split/fault-position enumeration for short sequences plus seeded search"),
 "C12": dict(engine="modelsim", design="5/C12", category="exploration",
   text="Seeded histories (add/remove/re-add, health results, connect outcomes, virtual-time advances across back-off windows, connection open/close, six load-balancing policies, weights, backups, sticky ids) against one real BackendMap per plan under the virtual clock and seeded entropy, with an independent per-backend reference model: every selection in the allowed set (eligible primaries, else backups, else documented fail-open), sticky wins iff its backend qualifies, HRW/Maglev key affinity while the eligible set is unchanged, counters back to zero, retirement exactly when drained.",
   technique="operation-history simulation under a virtual clock against an executable reference model", note=MS),
 "C13": dict(engine="netsim", design="5/C13", category="exploration",
   text="Real worker with 2-4 keep-alive clients of different simulated IPv4/IPv6 addresses (direct or behind PROXY-v2), exact-byte header lists (duplicates, case and whitespace variants, spoofed X-Forwarded-*/Forwarded/X-Real-IP/request-id/correlation/sticky cookie, Connection-named fields, chunked trailers) under listener knobs (elide/send X-Real-IP, custom correlation name, sticky name, public address, frontend header edits); an independent model of the documented transformation judges every request each backend received (multiset and order of end-to-end fields, truthful last XFF/Forwarded element and X-Real-IP for *that* connection, one request id, one correlation id equal to the response's, cross-client isolation) and every response the clients received; 360 systematic short-write plans.",
   technique="deterministic simulation (real worker, scripted peers, simulated peer addresses) with an independent header-transformation model"),
 "C14": dict(engine="netsim", design="5/C14", category="exploration",
   text="Real worker with an HTTPS and an HTTP listener; the scripted H2 peers (client over real TLS via rustls, h2c backend) use their own frame codec and HPACK encoder and keep an independent ledger of the windows and limits they granted sozu (SETTINGS counted from the position of sozu's ACK, grants from the byte they hit the wire); seeded peer SETTINGS over the legal ranges, mid-connection changes that shrink windows below in-flight data, WINDOW_UPDATE schedules, HPACK styles, 1-5 concurrent streams; oracles: no ledger violation (stream/connection window, max frame size, concurrent streams, stream ids, HPACK table), every body complete and byte-exact, bounded virtual time.",
   technique="deterministic simulation with byte-accounting HTTP/2 peers (independent codec and flow-control ledger) over real TLS"),
 "C16": dict(engine="netsim", design="5/C16", category="exploration",
   text="Seeded deterministic simulation of the real worker under mixes of session outcomes and connection storms with max_connections 2..64: the hooks count the client sockets sozu is serving at every step (never above max_connections); after all peers left and virtual time passed every timeout, no client/backend socket remains open, QueryMetrics gauges equal their pre-traffic baseline and a fresh probe is served.",
   technique="deterministic simulation with fault injection; step-wise admission invariant from the syscall seam; baseline-vs-quiescence footprint comparison"),
 "C02": dict(engine="netsim", design="5/C02", category="exploration",
   text="Seeded deterministic simulation of the real worker with one injected cause per plan on a victim request (no route / denied / no backend / refused / black-holed connect / close on accept / backend close or stall at a byte offset / garbage / slow answer / client stall / keep-alive close) next to clean traffic; enumeration of close/stall at every response offset for small responses; a quarter of the plans put the victim on one of 2-4 concurrent streams of an HTTP/2 client (real TLS) with a slow reader, where sibling streams must stay byte-exact unless explicitly refused as retryable; the victim is judged against the cause->allowed-outcome table (exactly one answer, right status, explicit abort never a complete-looking short body, answer within the configured timeouts in virtual time), the rest by the C01 oracle.",
   technique="deterministic simulation with fault injection at byte offsets and lifecycle points; history oracle per request; virtual-time liveness bound"),
 "C01": dict(engine="netsim", design="5/C01", category="exploration",
   text="Seeded deterministic simulation of the real worker (Server::run) with scripted H1 clients/backends: every body byte is position-keyed and verified at both ends under random fragmentation, pacing, socket-buffer sizes, epoll truncation/permutation, preemption and injected short writes/EAGAIN; liveness via virtual-time bound. Sampling, not enumeration.",
   technique="deterministic simulation (libc-interposed real worker, seeded schedules + fault injection), byte-accounting oracle"),
}
NA_REASON = "check not built yet (work in progress; will be claimed once its engine exists)"

checks = []
for pid in ids:
    if pid not in CHECKS: continue
    c = CHECKS[pid]
    checks.append({
        "property_id": pid,
        "quick_cmd": f"./check {pid} --tier quick",
        "thorough_cmd": f"./check {pid} --tier thorough",
        "evidence_file": f"/verif/evidence/{pid}.json",
        "replay_cmd_template": f"./check {pid} --replay {{path}}",
        "engine": c["engine"],
        "level_claimed": {"category": c["category"], "text": c["text"], "design_ref": c["design"]},
        "level_note": c.get("note", TRUST),
        "technique": c["technique"],
    })
m = {
 "version": 1,
 "setup_cmd": "cd /verif/sim && CARGO_NET_OFFLINE=true cargo build --offline",
 "hooks": {"guard": "verif-hooks (cargo feature on the sozu bin crate; unused: no hook commit exists, the harness interposes libc symbols in its own binary)",
           "enable": "none needed; /verif/sim depends on /repo/{lib,command,bin} by path and rebuilds them from the working tree",
           "baseline_off_cmd": "cd /repo && cargo test --workspace --no-fail-fast --offline",
           "source_commits": [], "add_only": True},
 "engines": [
   {"name": "hubsim", "path": "/verif/sim/src/hubsim.rs", "serves_properties": [p for p in ids if CHECKS.get(p, {}).get("engine") == "hubsim"], "kind_free_text": "the real master loop sozu::command::server::CommandHub::run as a coroutine of the simulator; scripted workers on the real worker channels, scripted CLI clients on the real unix command socket, kill() interposed"},
   {"name": "chansim", "path": "/verif/sim/src/props/c11.rs", "serves_properties": [p for p in ids if CHECKS.get(p, {}).get("engine") == "chansim"], "kind_free_text": "two real Channel endpoints over real unix socket pairs with a seeded byte-granular relay; real owners (WorkerSession, hub session loop)"},
   {"name": "modelsim", "path": "/verif/sim/src/props", "serves_properties": [p for p in ids if CHECKS.get(p, {}).get("engine") == "modelsim"], "kind_free_text": "seeded operation histories against public stateful components of sozu under the same virtual clock / seeded entropy hooks, each with a small executable reference model"},
   {"name": "netsim", "path": "/verif/sim/src/netsim.rs", "serves_properties": [p for p in ids if CHECKS.get(p, {}).get("engine") == "netsim"], "kind_free_text": "one real sozu worker (Server::run) as a coroutine of a seeded discrete-event simulator behind interposed libc symbols (clock, entropy, epoll_wait, connect/bind/accept, data syscalls); scripted clients, backends and master"},
 ],
 "checks": checks,
 "notes": "See DESIGN.md. known_findings.json lists genuine defects recorded rather than repaired.",
 "not_applicable": [{"property_id": p, "reason": NA_REASON} for p in ids if p not in CHECKS],
}
json.dump(m, open(os.path.join(ROOT, "MANIFEST.json"), "w"), indent=1)
print("claimed:", [c["property_id"] for c in checks])
