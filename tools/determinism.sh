#!/bin/bash
# usage: tools/determinism.sh <ID> <n>   - runs plans 0..n of the quick tier twice: once in one process, once split over
# 7 interleaved processes, and compares (seed, trace_hash, violations) line by line. Exit 0 = identical.
set -u
ROOT="$(cd "$(dirname "$0")/.." && pwd)"; ID="$1"; N="${2:-800}"; BIN="$ROOT/sim/target/debug/simk"; T=$(mktemp -d /var/tmp/det.XXXX)
export VERIF_ROOT="$ROOT"
"$BIN" work "$ID" quick 1 0 "$N" 1 2>/dev/null | python3 -c "
import sys,json
for l in sys.stdin:
    try: d=json.loads(l)
    except: continue
    r=d.get('report')
    if r: print(d['i'], r.get('seed'), r.get('trace_hash'), sorted((v['class'],v['key']) for v in r.get('violations',[])), r.get('harness_error'))
" | sort > "$T/a"
for w in 0 1 2 3 4 5 6; do "$BIN" work "$ID" quick 1 $w "$N" 7 2>/dev/null > "$T/w$w" & done; wait
cat "$T"/w? | python3 -c "
import sys,json
for l in sys.stdin:
    try: d=json.loads(l)
    except: continue
    r=d.get('report')
    if r: print(d['i'], r.get('seed'), r.get('trace_hash'), sorted((v['class'],v['key']) for v in r.get('violations',[])), r.get('harness_error'))
" | sort > "$T/b"
if cmp -s "$T/a" "$T/b"; then echo "$ID: $(wc -l < "$T/a") runs identical across 1 and 7 processes"; rm -rf "$T"; exit 0; else echo "$ID: DIFFERENCE"; diff "$T/a" "$T/b" | head -10; exit 1; fi
