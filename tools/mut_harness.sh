#!/bin/bash
# usage: tools/mut_harness.sh <name> setup            create /var/tmp/mh-<name>/{repo (worktree of /repo HEAD), sim (harness copy pointing at it)}
#        tools/mut_harness.sh <name> apply <patch>    reset the worktree to HEAD and apply a patch (git apply)
#        tools/mut_harness.sh <name> reset            reset the worktree to HEAD
#        tools/mut_harness.sh <name> sync             copy the current /verif/sim sources into the harness copy again
#        tools/mut_harness.sh <name> check <ID> [simk check args]   build the copy and run `simk check <ID>`; outputs under /var/tmp/mh-<name>/out
#        tools/mut_harness.sh <name> rm               remove everything (worktree, build output)
# Runs the checks against a scratch copy of sozu, so /repo itself is never touched (other jobs build from /repo).
set -u
ROOT="$(cd "$(dirname "$0")/.." && pwd)"
NAME="$1"; CMD="$2"; shift 2
BASE="/var/tmp/mh-$NAME"
sync_sim() {
  mkdir -p "$BASE/sim"
  rsync -a --delete --exclude 'target*' "$ROOT/sim/" "$BASE/sim/"
  sed -i "s#/repo/#$BASE/repo/#g" "$BASE/sim/Cargo.toml"
}
case "$CMD" in
  setup)
    mkdir -p "$BASE"
    [ -d "$BASE/repo" ] || git -C /repo worktree add -q --detach "$BASE/repo" HEAD
    sync_sim
    ;;
  sync) sync_sim ;;
  apply)
    git -C "$BASE/repo" checkout -q -- . ; git -C "$BASE/repo" clean -fdq -- lib command bin e2e 2>/dev/null
    git -C "$BASE/repo" checkout -q --detach "$(git -C /repo rev-parse HEAD)"
    git -C "$BASE/repo" apply "$1" || { echo "patch does not apply" >&2; exit 2; }
    ;;
  reset) git -C "$BASE/repo" checkout -q --detach "$(git -C /repo rev-parse HEAD)" 2>/dev/null; git -C "$BASE/repo" checkout -q -- . ; git -C "$BASE/repo" clean -fdq -- lib command bin e2e 2>/dev/null ;;
  check)
    ID="$1"; shift
    cd "$BASE/sim" || exit 2
    CARGO_NET_OFFLINE=true cargo build --offline -j "${JOBS:-12}" 2> "$BASE/build.log" || { tail -30 "$BASE/build.log" >&2; echo "HARNESS-ERROR build failed" >&2; exit 2; }
    mkdir -p "$BASE/out"
    VERIF_ROOT="$ROOT" VERIF_OUT="$BASE/out" "$BASE/sim/target/debug/simk" check "$ID" "$@"
    ;;
  rm)
    git -C /repo worktree remove --force "$BASE/repo" 2>/dev/null
    git -C /repo worktree prune
    rm -rf "$BASE"
    ;;
  *) echo "unknown command $CMD" >&2; exit 2 ;;
esac
