#!/bin/bash
# usage: tools/import_seeded.sh <wave-prefix e.g. mut4> <property> <k> <new-id>
# Copies /tmp/<prefix>-<property>-out/<k>/{patch.diff,meta.json,demo} to /verif/seeded/<new-id>/ and confirms, in the
# sub-agent's scratch worktree /tmp/<prefix>-<property>, that the patch applies and the unedited suite still passes with it
# (confirm_suite.txt: failed tests + summary; reruns of unexpected failures alone).
set -u
ROOT="$(cd "$(dirname "$0")/.." && pwd)"
PFX="$1"; P="$2"; K="$3"; ID="$4"
SRC="/tmp/$PFX-$P-out/$K"; WT="/tmp/$PFX-$P"; DST="$ROOT/seeded/$ID"
[ -f "$SRC/patch.diff" ] || { echo "no $SRC/patch.diff" >&2; exit 2; }
mkdir -p "$DST"
cp "$SRC/patch.diff" "$DST/patch.diff"
[ -f "$SRC/meta.json" ] && cp "$SRC/meta.json" "$DST/meta.json"
rm -rf "$DST/demo"; [ -d "$SRC/demo" ] && cp -r "$SRC/demo" "$DST/demo"
find "$DST/demo" -size +400k -delete 2>/dev/null
git -C /repo apply --check "$DST/patch.diff" || { echo "patch does not apply to /repo HEAD" >&2; }
THREADS="${THREADS:-4}" "$ROOT/tools/confirm_seeded.sh" "$WT" "$DST"
"$ROOT/tools/confirm_rerun.sh" "$WT" "$DST"
echo "imported $ID"
