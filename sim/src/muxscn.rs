//! Mixed-protocol scenario: H1 (plain) and H2-over-TLS clients, H1 and h2c backends, one real worker
//! with an HTTP and an HTTPS listener. Shared by C01 (all four pairs), C14 and C15.
#![allow(dead_code)]

use std::collections::BTreeMap;
use std::net::SocketAddr;

use serde::{Deserialize, Serialize};
use sozu_command_lib::{
    config::ListenerBuilder,
    proto::command::{
        request::RequestType, ActivateListener, AddBackend, AddCertificate, CertificateAndKey, Cluster, ListenerType, LoadBalancingParams, PathRule, Request,
        RequestHttpFrontend, RulePosition,
    },
    scm_socket::Listeners,
    state::ConfigState,
};

use crate::actors::h1::*;
use crate::actors::h2::*;
use crate::actors::master::{MOp, Master};
use crate::netsim::{self, Knobs};
use crate::prng::Prng;
use crate::scenario::{BackendMode, ClientOutcome};
use crate::world::{ConnectMode, SchedCfg, Stats, World};

#[derive(Clone, Debug, Serialize, Deserialize)]
pub enum MuxBackend {
    H1(BackendPlan),
    H2(H2BackendPlan),
}
impl MuxBackend {
    pub fn addr(&self) -> SocketAddr { match self { MuxBackend::H1(b) => b.addr, MuxBackend::H2(b) => b.addr } }
    pub fn is_h2(&self) -> bool { matches!(self, MuxBackend::H2(_)) }
}

#[derive(Clone, Debug, Serialize, Deserialize)]
pub struct MuxCluster {
    pub id: String,
    pub host: String,
    pub backend: MuxBackend,
    pub mode: BackendMode,
}

#[derive(Clone, Debug, Serialize, Deserialize)]
pub struct MuxPlan {
    pub seed: u64,
    pub family: String,
    pub knobs: Knobs,
    pub sched: SchedCfg,
    pub http_front: SocketAddr,
    pub https_front: SocketAddr,
    pub clusters: Vec<MuxCluster>,
    pub h1_clients: Vec<ClientPlan>,
    pub h2_clients: Vec<H2ClientPlan>,
    pub sndbufs: Option<Vec<i32>>,
    pub settle_ns: u64,
    /// send SoftStop this long after the configuration was acknowledged (clients start at "configured")
    #[serde(default)]
    pub soft_stop_at_ns: Option<u64>,
    /// `h2_graceful_shutdown_deadline_seconds` of the HTTPS listener (None = leave unset)
    #[serde(default)]
    pub h2_deadline_secs: Option<u32>,
}

#[derive(Clone, Debug)]
pub enum BackendRecords {
    H1(Vec<BackConnRecord>),
    H2(Vec<H2ConnRecord>),
}

#[derive(Clone, Debug, Default)]
pub struct MuxOutcome {
    pub h1_clients: Vec<ClientOutcome>,
    pub h2_clients: Vec<H2ConnRecord>,
    pub backends: Vec<BackendRecords>,
    pub config_failures: Vec<String>,
    pub panicked: Option<String>,
    pub aborted: Option<String>,
    pub boot_error: Option<String>,
    pub stats: Stats,
    pub trace_hash: u64,
    pub t_end: u64,
    pub log: Vec<String>,
    pub board: BTreeMap<String, i64>,
    pub max_served: usize,
    pub leak_accepted: i64,
    pub leak_connected: i64,
    /// (virtual time, status) of the final answer to SoftStop, if one was sent and answered
    pub softstop_final: Option<(u64, i32)>,
    pub softstop_sent_t: u64,
    pub master_eof: bool,
}

pub fn config_requests(p: &MuxPlan) -> Vec<Request> {
    let cert = std::fs::read_to_string("/repo/lib/assets/certificate.pem").expect("certificate.pem");
    let key = std::fs::read_to_string("/repo/lib/assets/key.pem").expect("key.pem");
    let mut v: Vec<Request> = Vec::new();
    let mut lb = ListenerBuilder::new_http(p.http_front.into());
    lb.with_front_timeout(Some(p.knobs.front_timeout)).with_back_timeout(Some(p.knobs.back_timeout)).with_connect_timeout(Some(p.knobs.connect_timeout)).with_request_timeout(Some(p.knobs.request_timeout));
    v.push(RequestType::AddHttpListener(lb.to_http(None).unwrap()).into());
    let mut lt = ListenerBuilder::new_https(p.https_front.into());
    lt.with_front_timeout(Some(p.knobs.front_timeout)).with_back_timeout(Some(p.knobs.back_timeout)).with_connect_timeout(Some(p.knobs.connect_timeout)).with_request_timeout(Some(p.knobs.request_timeout));
    if p.h2_deadline_secs.is_some() { lt.h2_graceful_shutdown_deadline_seconds = p.h2_deadline_secs; }
    v.push(RequestType::AddHttpsListener(lt.to_tls(None).unwrap()).into());
    // the fixture certificate is CN=lolcatho.st; the names override makes it cover the plan's hosts
    let names: Vec<String> = p.clusters.iter().map(|c| c.host.clone()).chain(std::iter::once("nohost.test".to_string())).collect();
    v.push(RequestType::AddCertificate(AddCertificate { address: p.https_front.into(), certificate: CertificateAndKey { certificate: cert, certificate_chain: vec![], key, versions: vec![], names }, expired_at: None }).into());
    v.push(RequestType::ActivateListener(ActivateListener { address: p.http_front.into(), proxy: ListenerType::Http.into(), from_scm: false }).into());
    v.push(RequestType::ActivateListener(ActivateListener { address: p.https_front.into(), proxy: ListenerType::Https.into(), from_scm: false }).into());
    for c in &p.clusters {
        v.push(RequestType::AddCluster(Cluster { cluster_id: c.id.clone(), http2: Some(c.backend.is_h2()), ..Default::default() }).into());
        let fr = |addr: SocketAddr| RequestHttpFrontend { cluster_id: Some(c.id.clone()), address: addr.into(), hostname: c.host.clone(), path: PathRule::prefix("/".to_string()), position: RulePosition::Tree.into(), ..Default::default() };
        v.push(RequestType::AddHttpFrontend(fr(p.http_front)).into());
        v.push(RequestType::AddHttpsFrontend(fr(p.https_front)).into());
        v.push(RequestType::AddBackend(AddBackend { cluster_id: c.id.clone(), backend_id: format!("{}-0", c.id), address: c.backend.addr().into(), load_balancing_parameters: Some(LoadBalancingParams::default()), sticky_id: None, backup: None }).into());
    }
    v
}

pub fn run_mux(plan: &MuxPlan, log: bool) -> MuxOutcome {
    let plan = plan.clone();
    netsim::on_fresh_thread(move || {
        let mut w = World::new(plan.seed, plan.sched.clone());
        World::install(&mut w);
        w.log_on = log;
        w.sndbuf_choices = plan.sndbufs.clone();
        if plan.soft_stop_at_ns.is_some() { w.post_exit_drain_ns = 30 * crate::world::SEC; }
        let reqs = config_requests(&plan);
        let nclients = (plan.h1_clients.len() + plan.h2_clients.len()) as i64;
        let settle = plan.settle_ns;
        let mut h1_ids = Vec::new();
        let mut h2_ids = Vec::new();
        let mut b_ids: Vec<(bool, usize)> = Vec::new();
        let (end, mid) = netsim::run_worker(&mut w, plan.knobs.server_config(), ConfigState::new(), Listeners::default(), |w, m: &mut Master| {
            m.send_all(reqs);
            m.push(MOp::Barrier);
            m.push(MOp::SetBoard("configured".into(), 1));
            if let Some(t) = plan.soft_stop_at_ns {
                // soft stop while clients are active: the worker answers once its sessions are over and then
                // leaves its loop by itself; the peers then drain what is left in their socket buffers
                m.push(MOp::Sleep(t));
                m.push(MOp::Call(Box::new(|w, _| { let now = w.now as i64; w.board_set("softstop_sent_t", now); vec![] })));
                m.push(MOp::SoftStop);
                m.push(MOp::BarrierFor(600 * crate::world::SEC));
                m.push(MOp::End);
            }
            m.push(MOp::WaitBoard("clients_done".into(), nclients));
            if settle > 0 {
                m.push(MOp::Sleep(settle));
                m.push(MOp::Call(Box::new(|w, _| {
                    let a = w.sozu_fds.values().filter(|k| **k == 'a').count() as i64;
                    let c = w.sozu_fds.values().filter(|k| **k == 'c').count() as i64;
                    w.board_set("leak_accepted", a);
                    w.board_set("leak_connected", c);
                    w.board_set("quiesced", 1);
                    vec![]
                })));
            }
            m.push(MOp::HardStop);
            for c in &plan.clusters {
                let addr = c.backend.addr();
                match &c.mode {
                    BackendMode::Listen { delay_ns } => { w.topo.insert(addr, ConnectMode::Listen { delay_ns: *delay_ns }); }
                    BackendMode::Refuse { delay_ns } => { w.topo.insert(addr, ConnectMode::Refuse { delay_ns: *delay_ns }); }
                    BackendMode::Blackhole => { w.topo.insert(addr, ConnectMode::Blackhole); }
                }
                match &c.backend {
                    MuxBackend::H1(b) => b_ids.push((false, w.add_actor(Box::new(H1Backend::new(b.clone(), Prng::derive(plan.seed, &format!("backend/{}", b.name))))))),
                    MuxBackend::H2(b) => b_ids.push((true, w.add_actor(Box::new(H2Backend::new(b.clone(), Prng::derive(plan.seed, &format!("backend/{}", b.name))))))),
                }
            }
            for c in &plan.h1_clients { h1_ids.push(w.add_actor(Box::new(H1Client::new(c.clone(), Prng::derive(plan.seed, &format!("client/{}", c.name)))))); }
            for c in &plan.h2_clients { h2_ids.push(w.add_actor(Box::new(H2Client::new(c.clone(), Prng::derive(plan.seed, &format!("client/{}", c.name)))))); }
        });
        let mut out = MuxOutcome::default();
        out.panicked = end.panicked;
        out.aborted = end.aborted;
        out.boot_error = end.boot_error;
        {
            let m: &Master = w.actor_ref(mid);
            for (_, r) in &m.data.responses {
                if r.status == sozu_command_lib::proto::command::ResponseStatus::Failure as i32 { out.config_failures.push(format!("{}: {}", r.id, r.message)); }
            }
            if let Some((id, _, _)) = m.data.sent.iter().find(|(_, r, _)| matches!(r.request_type, Some(RequestType::SoftStop(_)))) {
                out.softstop_final = m.data.responses.iter().find(|(_, r)| r.id == *id && r.status != sozu_command_lib::proto::command::ResponseStatus::Processing as i32).map(|(t, r)| (*t, r.status));
            }
            out.master_eof = m.data.eof;
        }
        for id in &h1_ids { let c: &H1Client = w.actor_ref(*id); out.h1_clients.push(ClientOutcome { rec: c.rec.clone(), responses: c.responses().clone(), partial: c.partial().cloned(), interim: c.parser.interim }); }
        for id in &h2_ids { let c: &H2Client = w.actor_ref(*id); out.h2_clients.push(c.record()); }
        for (is_h2, id) in &b_ids {
            if *is_h2 { let b: &H2Backend = w.actor_ref(*id); out.backends.push(BackendRecords::H2(b.all_records())); }
            else { let b: &H1Backend = w.actor_ref(*id); out.backends.push(BackendRecords::H1(b.all_records())); }
        }
        out.stats = w.stats.clone();
        out.trace_hash = w.trace.0;
        out.t_end = w.now;
        out.board = w.board.clone();
        out.max_served = w.max_served;
        out.leak_accepted = w.board_get("leak_accepted");
        out.leak_connected = w.board_get("leak_connected");
        out.softstop_sent_t = w.board_get("softstop_sent_t") as u64;
        out.log = std::mem::take(&mut w.log);
        out
    })
}

// ------------------------------------------------------------------------------------ unified views

/// What a client observed for one of its requests, whatever its protocol.
#[derive(Clone, Debug, Default)]
pub struct ClientObs {
    pub answered: bool,
    pub status: Option<u16>,
    pub sim_id: Option<u64>,
    pub body_len: u64,
    pub body_ok: bool,
    pub first_bad: Option<u64>,
    /// terminator seen: CL met / last chunk / FIN for close-delimited / END_STREAM
    pub complete: bool,
    /// H2: RST_STREAM code received; H1: connection ended mid-message
    pub aborted: Option<String>,
    pub t_sent: u64,
    pub t_end: u64,
    pub body_head: Vec<u8>,
    pub bad_bytes: Vec<u8>,
}

#[derive(Clone, Debug, Default)]
pub struct BackendObs {
    pub seen: u32,
    pub body_len: u64,
    pub body_ok: bool,
    pub complete: bool,
    pub headers: Vec<(String, String)>,
}

pub fn h1_client_obs(oc: &ClientOutcome, ri: usize, id: u64) -> ClientObs {
    let t_sent = oc.rec.sent_done.iter().find(|(i, _)| *i == id).map(|x| x.1).unwrap_or(0);
    let m = oc.responses.get(ri).or(if oc.responses.len() == ri { oc.partial.as_ref() } else { None });
    match m {
        None => ClientObs { t_sent, ..Default::default() },
        Some(m) => ClientObs {
            answered: true, status: Some(m.status()), sim_id: m.sim_id, body_len: m.body_len, body_ok: m.body_ok(), first_bad: m.check.first_bad, complete: m.complete,
            aborted: if m.complete { None } else { Some("connection ended mid-message".into()) }, t_sent, t_end: m.t_end, body_head: m.body_head.clone(), bad_bytes: m.check.bad_bytes.clone(),
        },
    }
}

pub fn h2_client_obs(rec: &H2ConnRecord, id: u64) -> ClientObs {
    match rec.stream_for(id) {
        None => ClientObs::default(),
        Some(s) => ClientObs {
            answered: s.status.is_some(), status: s.status, sim_id: s.sim_id, body_len: s.body_len, body_ok: s.body_ok(), first_bad: s.check.first_bad, complete: s.recv_end,
            aborted: s.recv_rst.map(|c| format!("RST_STREAM({c})")).or(if s.refused_by_goaway { Some("refused by GOAWAY".into()) } else { None }),
            t_sent: s.t_sent_end, t_end: s.t_end, body_head: s.body_head.clone(), bad_bytes: s.check.bad_bytes.clone(),
        },
    }
}

pub fn backend_obs(b: &BackendRecords, id: u64) -> BackendObs {
    let mut o = BackendObs { body_ok: true, ..Default::default() };
    match b {
        BackendRecords::H1(recs) => {
            for r in recs { for q in r.requests.iter().chain(r.partial.iter()) { if q.sim_id == Some(id) { o.seen += 1; o.body_len = q.body_len; o.body_ok = q.body_ok(); o.complete = q.complete; o.headers = q.headers.clone(); } } }
        }
        BackendRecords::H2(recs) => {
            for r in recs { for s in r.streams.values() { if s.sim_id == Some(id) { o.seen += 1; o.body_len = s.body_len; o.body_ok = s.body_ok(); o.complete = s.recv_end; o.headers = s.headers.clone(); } } }
        }
    }
    o
}
