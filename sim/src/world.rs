//! The simulated world: virtual clock, entropy, topology, actors and the scheduler that runs
//! inside sozu's `epoll_wait`.
#![allow(dead_code)]

use std::any::Any;
use std::cell::Cell;
use std::collections::BTreeMap;
use std::net::SocketAddr;

use crate::prng::{Prng, TraceHash};
use crate::sys;

pub const MS: u64 = 1_000_000;
pub const SEC: u64 = 1_000_000_000;
/// REALTIME epoch of every run: 2026-09-25T00:00:00Z
pub const EPOCH_S: u64 = 1_790_294_400;

thread_local! {
    pub static CUR: Cell<*mut World> = const { Cell::new(std::ptr::null_mut()) };
}

pub fn in_sim() -> bool {
    CUR.with(|c| !c.get().is_null())
}
/// Access the world from a hook. Safety: only the simulation thread holds the pointer and
/// hooks are never re-entered (the simulator performs raw syscalls only).
pub fn with_world<T>(f: impl FnOnce(&mut World) -> T) -> Option<T> {
    CUR.with(|c| {
        let p = c.get();
        if p.is_null() { None } else { Some(f(unsafe { &mut *p })) }
    })
}

#[derive(Clone, Debug, PartialEq)]
pub enum Step {
    Progress,
    Blocked,
    /// do not run before this virtual time
    Sleep(u64),
    /// blocked on I/O, but wake at this virtual time at the latest
    Idle(u64),
    Done,
}

pub trait Actor: Any {
    fn step(&mut self, w: &mut World) -> Step;
    fn name(&self) -> String;
    fn as_any(&mut self) -> &mut dyn Any;
    fn as_any_ref(&self) -> &dyn Any;
    /// class used for scheduler weights: 0 client, 1 backend, 2 master
    fn class(&self) -> u8 { 0 }
}

pub const P_STARTING: u8 = 0;
pub const P_RUNNING: u8 = 1;
pub const P_PARKED: u8 = 2;
pub const P_DEAD: u8 = 3;

/// A simulated process: an OS thread running real code, scheduled by the baton.
#[derive(Clone, Debug, Default)]
pub struct ProcSlot {
    pub name: String,
    pub state: u8,
    epfd: i32,
    events: usize,
    maxevents: i32,
    deadline: u64,
    delivered: Option<i32>,
    /// the process was crashed by the simulator (`crash_proc`): its thread never runs sozu code again
    pub crashed: bool,
    /// a spawned process does not start before this virtual time (exec + start-up of a real process take time)
    pub start_at: u64,
}

enum Sched {
    Return(i32),
    Handoff(usize),
    /// the calling process was crashed and nobody else can run: park the thread for good
    Halt,
}

thread_local! {
    pub static PROC_ID: Cell<usize> = const { Cell::new(0) };
}
/// The baton names a (world generation, process) pair: a thread left parked by an earlier world (a crashed simulated
/// process is never woken again) must not mistake a later world's hand-over for its own.
static BATON: (std::sync::Mutex<u64>, std::sync::Condvar) = (std::sync::Mutex::new(0), std::sync::Condvar::new());
static WORLD_GEN: std::sync::atomic::AtomicU64 = std::sync::atomic::AtomicU64::new(1);

fn baton_key(generation: u64, id: usize) -> u64 { (generation << 20) | id as u64 }
fn baton_set(generation: u64, to: usize) {
    let mut g = BATON.0.lock().unwrap();
    *g = baton_key(generation, to);
    BATON.1.notify_all();
}
fn baton_wait(generation: u64, me: usize) {
    let k = baton_key(generation, me);
    let mut g = BATON.0.lock().unwrap();
    while *g != k { g = BATON.1.wait(g).unwrap(); }
}

/// `epoll_wait` of a simulated process: the scheduling point. Works on a raw pointer because the
/// world is shared by all simulated processes; exactly one of them (the baton holder) touches it.
pub fn epoll_wait_entry(wp: *mut World, epfd: i32, events: *mut libc::epoll_event, maxevents: i32, timeout_ms: i32) -> i32 {
    let me = PROC_ID.with(|p| p.get());
    let generation = unsafe { (&*wp).generation };
    unsafe { (&mut *wp).park(me, epfd, events, maxevents, timeout_ms) };
    loop {
        let out = unsafe { (&mut *wp).sched_step(me) };
        match out {
            Sched::Return(n) => return n,
            Sched::Halt => loop { std::thread::park(); },
            Sched::Handoff(q) => {
                let crashed = unsafe { (&*wp).procs[me].crashed };
                baton_set(generation, q);
                // from here on the world belongs to another thread
                if crashed { loop { std::thread::park(); } }
                baton_wait(generation, me);
                if let Some(n) = unsafe { (&mut *wp).take_delivery(me) } {
                    return n;
                }
                // woken without a delivery (the previous holder exited): carry on scheduling
            }
        }
    }
}

/// Run `f` as a new simulated process on its own thread under the world `wp`. The thread starts
/// executing only when the scheduler hands it the baton.
pub fn spawn_proc(wp: *mut World, name: &str, f: impl FnOnce() + Send + 'static) -> std::thread::JoinHandle<()> {
    let id = unsafe { (&mut *wp).add_proc(name, true) };
    let wp_addr = wp as usize;
    let generation = unsafe { (&*wp).generation };
    std::thread::Builder::new().stack_size(16 << 20).name(name.to_string()).spawn(move || {
        baton_wait(generation, id);
        CUR.with(|c| c.set(wp_addr as *mut World));
        PROC_ID.with(|p| p.set(id));
        f();
        proc_exit(wp_addr as *mut World);
        CUR.with(|c| c.set(std::ptr::null_mut()));
    }).expect("spawn simulated process")
}

/// The calling simulated process is done: pass the baton on.
pub fn proc_exit(wp: *mut World) {
    let me = PROC_ID.with(|p| p.get());
    let generation = unsafe { (&*wp).generation };
    if let Some(q) = unsafe { (&mut *wp).retire_proc(me) } {
        unsafe { (&mut *wp).start_if_starting(q) };
        baton_set(generation, q);
    }
}

#[derive(Clone, Debug, Default)]
struct AState {
    runnable: bool,
    wake_at: Option<u64>,
    hard_sleep: bool,
    done: bool,
}

/// How a `connect()` from sozu to a simulated address resolves.
#[derive(Clone, Debug)]
pub enum ConnectMode {
    /// a simulated backend listens there (abstract unix listener exists)
    Listen { delay_ns: u64 },
    /// RST after a delay (0 = synchronous ECONNREFUSED)
    Refuse { delay_ns: u64 },
    /// SYNs vanish
    Blackhole,
    /// immediate ENETUNREACH
    Unreachable,
}

#[derive(Debug)]
enum PendingKind {
    Establish,
    Refuse { held_fd: i32 },
    Blackhole { held_fd: i32 },
}
#[derive(Debug)]
struct Pending {
    kind: PendingKind,
    due: Option<u64>,
    reg: Option<(i32, u32, u64)>, // epfd, events, data
}

#[derive(Clone, Debug, Default, serde::Serialize, serde::Deserialize)]
pub struct Stats {
    pub epoll_waits: u64,
    pub epoll_events: u64,
    pub epoll_truncated: u64,
    pub epoll_permuted: u64,
    pub timeouts_returned: u64,
    pub clock_jumps: u64,
    pub virtual_ns: u64,
    pub actor_steps: u64,
    pub accepts: u64,
    pub connects: u64,
    pub connect_refused: u64,
    pub connect_blackholed: u64,
    pub connect_delayed: u64,
    pub closes: u64,
    pub kills: u64,
    pub short_writes_injected: u64,
    pub eagain_injected: u64,
    pub preemptions: u64,
    pub sozu_writes: u64,
    pub sozu_partial_writes: u64,
    pub sozu_write_eagain: u64,
    pub sozu_reads: u64,
    pub sozu_read_eagain: u64,
    pub sozu_read_full: u64,
    pub faults: BTreeMap<String, u64>,
    #[serde(default)]
    pub spin_breaks: u64,
    #[serde(default)]
    pub hooked_writes_eagain_real: u64,
}
impl Stats {
    pub fn fault(&mut self, k: &str) {
        *self.faults.entry(k.to_string()).or_insert(0) += 1;
    }
    pub fn add(&mut self, o: &Stats) {
        self.epoll_waits += o.epoll_waits;
        self.epoll_events += o.epoll_events;
        self.epoll_truncated += o.epoll_truncated;
        self.epoll_permuted += o.epoll_permuted;
        self.timeouts_returned += o.timeouts_returned;
        self.clock_jumps += o.clock_jumps;
        self.virtual_ns += o.virtual_ns;
        self.actor_steps += o.actor_steps;
        self.accepts += o.accepts;
        self.connects += o.connects;
        self.connect_refused += o.connect_refused;
        self.connect_blackholed += o.connect_blackholed;
        self.connect_delayed += o.connect_delayed;
        self.closes += o.closes;
        self.kills += o.kills;
        self.short_writes_injected += o.short_writes_injected;
        self.eagain_injected += o.eagain_injected;
        self.preemptions += o.preemptions;
        self.sozu_writes += o.sozu_writes;
        self.sozu_partial_writes += o.sozu_partial_writes;
        self.sozu_write_eagain += o.sozu_write_eagain;
        self.sozu_reads += o.sozu_reads;
        self.sozu_read_eagain += o.sozu_read_eagain;
        self.sozu_read_full += o.sozu_read_full;
        self.spin_breaks += o.spin_breaks;
        for (k, v) in &o.faults {
            *self.faults.entry(k.clone()).or_insert(0) += v;
        }
    }
}

#[derive(Clone, Debug, serde::Serialize, serde::Deserialize)]
pub struct SchedCfg {
    /// probability (per mille) that an epoll_wait returns only a prefix of the ready events
    pub ev_truncate_pm: u32,
    /// probability (per mille) that returned events are permuted
    pub ev_permute_pm: u32,
    /// mean number of actor steps between two sozu iterations (geometric)
    pub actor_burst: u32,
    /// per mille: inject a short write on a sozu stream write
    pub short_write_pm: u32,
    /// per mille: inject EAGAIN on a sozu stream write
    pub eagain_pm: u32,
    /// per mille: run actor steps before a sozu data syscall (preemption point)
    pub preempt_pm: u32,
    /// virtual cost of one sozu loop iteration, ns
    pub iter_cost_ns: u64,
    pub max_virtual_ns: u64,
    pub max_iterations: u64,
}
impl Default for SchedCfg {
    fn default() -> Self {
        SchedCfg {
            ev_truncate_pm: 0,
            ev_permute_pm: 0,
            actor_burst: 2,
            short_write_pm: 0,
            eagain_pm: 0,
            preempt_pm: 0,
            iter_cost_ns: 1_000,
            max_virtual_ns: 3600 * SEC,
            max_iterations: 2_000_000,
        }
    }
}

/// One `connect()` sozu made to a simulated TCP address, as the simulated network saw it (C12 traffic tier).
#[derive(Clone, Debug)]
pub struct ConnectRec {
    /// virtual time of the connect() call
    pub t: u64,
    pub fd: i32,
    pub dst: SocketAddr,
    /// 1 established (a listener accepted), 2 refused synchronously, 3 refused after a delay, 4 black-holed, 5 unreachable
    pub answer: u8,
    /// virtual time at which the outcome becomes visible to sozu (establishment / RST); 0 = never (black hole)
    pub done_at: u64,
    /// epoll token sozu first registered the socket with (None: never registered)
    pub token: Option<u64>,
    /// virtual time sozu closed the socket (0 = still open)
    pub t_close: u64,
}

/// One datagram-level event on one of sozu's simulated UDP sockets, as the simulated network sees it
/// (C19 shell tier): the wire tap. `seq` is a run-wide order shared with the scripted UDP peers
/// (`World::next_useq`).
#[derive(Clone, Debug)]
pub struct UdpEv {
    pub seq: u64,
    pub t: u64,
    /// one of the UDP_* constants
    pub kind: u8,
    pub fd: i32,
    /// simulated address the socket is bound to
    pub local: SocketAddr,
    /// SEND: destination; RECV: source; CONNECT: the connected peer
    pub peer: Option<SocketAddr>,
    /// SEND: bytes sozu asked to send; RECV: size of sozu's buffer
    pub len: usize,
    /// raw result: bytes moved, or -errno (what sozu was told)
    pub res: i64,
    /// SEND only: 0 handed to the kernel (or its error), 1 nobody bound at the destination (UDP: the call succeeds,
    /// the datagram is lost), 2 EAGAIN injected by the simulator, 3 ECONNREFUSED reported for an earlier lost datagram,
    /// 4 EAGAIN because the simulated send buffer towards this peer is full (`World::udp_qlimit`)
    pub note: u8,
    /// first bytes of the datagram (`World::udp_head_len`)
    pub head: Vec<u8>,
}
pub const UDP_BIND: u8 = 1;
pub const UDP_CONNECT: u8 = 2;
pub const UDP_CLOSE: u8 = 3;
pub const UDP_SEND: u8 = 4;
pub const UDP_RECV: u8 = 5;

/// set when the real-time watchdog of some world in this process ended its run (read and cleared by framework::run_guarded)
pub static WATCHDOG_FIRED: std::sync::atomic::AtomicBool = std::sync::atomic::AtomicBool::new(false);

pub struct World {
    /// unique per World instance in this OS process (see BATON)
    pub generation: u64,
    /// real time at which this world was created, and the real-time budget of the run (watchdog, see `park`)
    pub t0_real_ns: u64,
    pub wall_budget_ns: u64,
    /// SO_REUSEPORT emulation (cluster tier): a second bind of a stream address succeeds on its own socket with its own
    /// accept queue, and every incoming connection goes to ONE live member of the group, chosen by the run's PRNG (the
    /// kernel hashes the 4-tuple). Off for the single-worker engines, where a duplicate bind is EADDRINUSE.
    pub reuseport: bool,
    /// address -> highest member index handed out (member 0 is the plain listener name, member k is `<name>/r<k>`)
    pub reuse_members: BTreeMap<SocketAddr, u32>,
    net_rng: Prng,
    pub seed: u64,
    pub now: u64,
    pub sched: Prng,
    pub entropy: Prng,
    pub ns: String,
    pub cfg: SchedCfg,
    pub trace: TraceHash,
    pub stats: Stats,
    pub log: Vec<String>,
    pub log_on: bool,
    actors: Vec<Option<Box<dyn Actor>>>,
    astate: Vec<AState>,
    /// simulated address -> behaviour of connect()
    pub topo: BTreeMap<SocketAddr, ConnectMode>,
    pending: BTreeMap<i32, Pending>,
    so_error: BTreeMap<i32, i32>,
    /// write-side buggify: fds that need a forced re-arm at a later step: fd -> (epfd,events,data)
    pub rearm: BTreeMap<i32, u64>,
    pub epoll_regs: BTreeMap<i32, (i32, u32, u64)>,
    next_ephemeral: u32,
    pub kills: Vec<(i32, i32)>,
    pub aborted: Option<String>,
    /// fd the world closes to force sozu out of its loop when the run is aborted
    pub abort_fd: Option<i32>,
    pub iterations: u64,
    /// free-form blackboard for actors/controllers
    pub board: BTreeMap<String, i64>,
    /// fds sozu currently has open as simulated stream sockets: fd -> kind ('a' accepted, 'c' connected, 'l' listener)
    pub sozu_fds: BTreeMap<i32, char>,
    pub hook_depth: u32,
    /// SO_SNDBUF values applied (PRNG pick) to each new sozu-side stream socket
    pub sndbuf_choices: Option<Vec<i32>>,
    /// epoll token -> fd for sozu's simulated stream sockets
    pub token_fd: BTreeMap<(i32, u64), i32>,
    /// fds on which sozu itself shut down its write side
    pub shut_wr: std::collections::BTreeSet<i32>,
    pub hup_masked: u64,
    /// accepted client sockets on which sozu has performed I/O and which it has not closed ("being served")
    pub served: std::collections::BTreeSet<i32>,
    pub max_served: usize,
    /// per simulated client IP: sockets being served
    pub accepted_peer: BTreeMap<i32, SocketAddr>,
    pub max_open_accepted: usize,
    pub procs: Vec<ProcSlot>,
    pending_burst: Option<u32>,
    /// (simulated process, virtual time) of every accept of a simulated connection
    pub accept_log: Vec<(usize, u64)>,
    /// simulated peer address of every accepted connection, in order
    pub accept_peers: Vec<SocketAddr>,
    /// see `drain_after_exit`
    pub post_exit_drain_ns: u64,
    /// consecutive would-block writes by sozu since its last epoll_wait (busy-loop damping)
    eagain_streak: u32,
    pub spin_breaks: u64,
    /// every connect() of sozu to a simulated TCP address, in order
    pub connect_log: Vec<ConnectRec>,
    // ---- simulated UDP (AF_UNIX SOCK_DGRAM stand-ins; C19 shell tier)
    /// wire tap of sozu's UDP sockets
    pub udp_log: Vec<UdpEv>,
    pub udp_seq: u64,
    /// sozu's simulated UDP sockets: fd -> simulated local address
    pub udp_local: BTreeMap<i32, SocketAddr>,
    /// "connected" UDP sockets: fd -> simulated peer (a logical connection kept here: the stand-in stays unconnected,
    /// sends are addressed per datagram and receives are filtered by source, as UDP does)
    pub udp_peer: BTreeMap<i32, SocketAddr>,
    /// a datagram to a port nobody listens on comes back as ECONNREFUSED on the next call on a connected socket
    pub udp_icmp: bool,
    udp_pending_err: BTreeMap<i32, i32>,
    /// per mille: sozu's UDP send reports EAGAIN (local send buffer full), with a forced re-arm later
    pub udp_eagain_pm: u32,
    pub udp_head_len: usize,
    /// datagrams from a third party dropped in front of a connected socket
    pub udp_foreign_dropped: u64,
    /// highest number of sozu UDP sockets open at once
    pub udp_max_open: usize,
    /// Simulated send-buffer accounting towards scripted peers (0 = off): a datagram sozu sent stays charged until the
    /// peer reads it; with this many unread datagrams at a peer's socket sozu's next send there reports EAGAIN, and the
    /// socket is re-armed (a fresh EPOLLOUT edge) when the peer reads. Must stay below net.unix.max_dgram_qlen: the
    /// kernel's own receiver-full EAGAIN frees an skb per failed attempt, which reports EPOLLOUT again at once (a spin
    /// no UDP socket would show).
    pub udp_qlimit: usize,
    udp_qlen: BTreeMap<SocketAddr, usize>,
    udp_waiting: BTreeMap<i32, std::collections::BTreeSet<SocketAddr>>,
    /// scripted peers' datagram sockets: fd -> simulated address
    peer_udp: BTreeMap<i32, SocketAddr>,
}

impl World {
    pub fn new(seed: u64, cfg: SchedCfg) -> Box<World> {
        static RUNCTR: std::sync::atomic::AtomicU64 = std::sync::atomic::AtomicU64::new(0);
        let n = RUNCTR.fetch_add(1, std::sync::atomic::Ordering::SeqCst);
        Box::new(World {
            generation: WORLD_GEN.fetch_add(1, std::sync::atomic::Ordering::SeqCst),
            t0_real_ns: sys::real_clock_ns(),
            wall_budget_ns: std::env::var("SIMK_WALL_BUDGET_S").ok().and_then(|v| v.parse::<u64>().ok()).unwrap_or(60) * SEC,
            reuseport: false,
            reuse_members: BTreeMap::new(),
            net_rng: Prng::derive(seed, "net/reuseport"),
            seed,
            now: 1000 * SEC, // monotonic clock starts at 1000 s so `now - timeout` never underflows
            sched: Prng::derive(seed, "sched"),
            entropy: Prng::derive(seed, "entropy"),
            ns: format!("simk/{}.{}", sys::getpid(), n),
            cfg,
            trace: TraceHash::new(),
            stats: Stats::default(),
            log: Vec::new(),
            log_on: false,
            actors: Vec::new(),
            astate: Vec::new(),
            topo: BTreeMap::new(),
            pending: BTreeMap::new(),
            so_error: BTreeMap::new(),
            rearm: BTreeMap::new(),
            epoll_regs: BTreeMap::new(),
            next_ephemeral: 40000,
            kills: Vec::new(),
            aborted: None,
            abort_fd: None,
            iterations: 0,
            board: BTreeMap::new(),
            sozu_fds: BTreeMap::new(),
            hook_depth: 0,
            sndbuf_choices: None,
            token_fd: BTreeMap::new(),
            shut_wr: Default::default(),
            hup_masked: 0,
            served: Default::default(),
            max_served: 0,
            accepted_peer: BTreeMap::new(),
            max_open_accepted: 0,
            procs: vec![ProcSlot { name: "p0".into(), state: P_RUNNING, ..Default::default() }],
            pending_burst: None,
            accept_log: Vec::new(),
            accept_peers: Vec::new(),
            post_exit_drain_ns: 0,
            eagain_streak: 0,
            spin_breaks: 0,
            connect_log: Vec::new(),
            udp_log: Vec::new(),
            udp_seq: 0,
            udp_local: BTreeMap::new(),
            udp_peer: BTreeMap::new(),
            udp_icmp: false,
            udp_pending_err: BTreeMap::new(),
            udp_eagain_pm: 0,
            udp_head_len: 96,
            udp_foreign_dropped: 0,
            udp_max_open: 0,
            udp_qlimit: 0,
            udp_qlen: BTreeMap::new(),
            udp_waiting: BTreeMap::new(),
            peer_udp: BTreeMap::new(),
        })
    }

    /// Install this world on the current thread (enters simulation mode).
    pub fn install(w: &mut Box<World>) {
        CUR.with(|c| c.set(&mut **w as *mut World));
        PROC_ID.with(|p| p.set(0));
        baton_set(w.generation, 0);
    }
    pub fn uninstall() {
        CUR.with(|c| c.set(std::ptr::null_mut()));
    }

    pub fn tr(&mut self, tag: u64, v: u64) {
        self.trace.mix(tag);
        self.trace.mix(v);
    }
    pub fn logf(&mut self, f: impl FnOnce() -> String) {
        if self.log_on {
            let s = f();
            self.log.push(format!("[{:>12.6}] {}", (self.now as f64) / 1e9, s));
        }
    }

    pub fn add_actor(&mut self, a: Box<dyn Actor>) -> usize {
        self.actors.push(Some(a));
        self.astate.push(AState { runnable: true, wake_at: None, done: false, hard_sleep: false });
        self.actors.len() - 1
    }
    pub fn actor<T: 'static>(&mut self, id: usize) -> &mut T {
        self.actors[id].as_mut().expect("actor is being stepped").as_any().downcast_mut::<T>().expect("actor type")
    }
    pub fn actor_ref<T: 'static>(&self, id: usize) -> &T {
        self.actors[id].as_ref().expect("actor is being stepped").as_any_ref().downcast_ref::<T>().expect("actor type")
    }
    pub fn n_actors(&self) -> usize { self.actors.len() }
    pub fn board_add(&mut self, key: &str, d: i64) {
        *self.board.entry(key.to_string()).or_insert(0) += d;
        for a in self.astate.iter_mut() { if !a.done && !(a.hard_sleep && a.wake_at.is_some()) { a.runnable = true; } }
    }
    pub fn board_set(&mut self, key: &str, v: i64) {
        self.board.insert(key.to_string(), v);
        for a in self.astate.iter_mut() { if !a.done && !(a.hard_sleep && a.wake_at.is_some()) { a.runnable = true; } }
    }
    pub fn board_get(&self, key: &str) -> i64 { self.board.get(key).copied().unwrap_or(0) }
    pub fn all_done(&self) -> bool { self.astate.iter().all(|a| a.done) }
    pub fn actor_done(&self, id: usize) -> bool { self.astate[id].done }
    pub fn wake(&mut self, id: usize) {
        if !self.astate[id].done { self.astate[id].runnable = true; }
    }

    // ---------- addressing ----------
    pub fn listener_name(&self, addr: &SocketAddr) -> Vec<u8> {
        format!("{}/L/{}", self.ns, addr).into_bytes()
    }
    pub fn udp_name(&self, addr: &SocketAddr) -> Vec<u8> {
        format!("{}/U/{}", self.ns, addr).into_bytes()
    }
    pub fn conn_name(&mut self, addr: &SocketAddr) -> Vec<u8> {
        let n = self.next_ephemeral;
        self.next_ephemeral += 1;
        format!("{}/C/{}/{}", self.ns, addr, n).into_bytes()
    }
    pub fn ephemeral(&mut self) -> u16 {
        let n = self.next_ephemeral;
        self.next_ephemeral += 1;
        (n % 25000 + 40000) as u16
    }
    /// Parse the simulated address out of an abstract name produced above.
    pub fn parse_name(name: &[u8]) -> Option<SocketAddr> {
        if !name.starts_with(b"simk/") { return None; }
        let s = std::str::from_utf8(name).ok()?;
        let mut it = s.split('/');
        it.next()?; it.next()?; it.next()?;
        it.next()?.parse().ok()
    }

    // ---------- peer-side helpers (actors) ----------
    /// Client connect to one of sozu's (or anybody's) simulated listeners from source `src`.
    pub fn peer_connect(&mut self, src: &SocketAddr, dst: &SocketAddr, sndbuf: Option<i32>) -> Result<i32, i32> {
        let fd = sys::socket(libc::AF_UNIX, libc::SOCK_STREAM | libc::SOCK_NONBLOCK | libc::SOCK_CLOEXEC, 0)?;
        let name = self.conn_name(src);
        if let Err(e) = sys::bind_abstract(fd, &name) { sys::close(fd); return Err(e); }
        if let Some(sb) = sndbuf { let _ = sys::setsockopt_int(fd, libc::SOL_SOCKET, libc::SO_SNDBUF, sb); }
        let lname = self.listener_name(dst);
        let members = self.reuse_members.get(dst).copied().unwrap_or(0);
        if members == 0 {
            return match sys::connect_abstract(fd, &lname) {
                Ok(()) => Ok(fd),
                Err(e) => { sys::close(fd); Err(e) }
            };
        }
        // a reuseport group: one live member gets the connection
        let n = members as u64 + 1;
        let start = self.net_rng.below(n);
        let mut last = libc::ECONNREFUSED;
        for i in 0..n {
            let k = (start + i) % n;
            let mut name = lname.clone();
            if k > 0 { name.extend_from_slice(format!("/r{k}").as_bytes()); }
            match sys::connect_abstract(fd, &name) {
                Ok(()) => { self.tr(0xB3, k); return Ok(fd); }
                Err(e) => { last = e; if e != libc::ECONNREFUSED { break; } }
            }
        }
        sys::close(fd);
        Err(last)
    }
    /// Create a simulated listener (for backend actors).
    pub fn peer_listen(&mut self, addr: &SocketAddr) -> Result<i32, i32> {
        let fd = sys::socket(libc::AF_UNIX, libc::SOCK_STREAM | libc::SOCK_NONBLOCK | libc::SOCK_CLOEXEC, 0)?;
        let name = self.listener_name(addr);
        if let Err(e) = sys::bind_abstract(fd, &name) { sys::close(fd); return Err(e); }
        sys::listen(fd, 4096)?;
        Ok(fd)
    }

    // ---------- scheduler ----------
    fn pick_runnable(&mut self) -> Option<usize> {
        let mut c: [usize; 64] = [0; 64];
        let mut n = 0;
        for (i, a) in self.astate.iter().enumerate() {
            if a.runnable && !a.done && n < 64 { c[n] = i; n += 1; }
        }
        if n == 0 { None } else { Some(c[self.sched.below(n as u64) as usize]) }
    }

    fn step_actor(&mut self, id: usize) {
        let mut a = match self.actors[id].take() { Some(a) => a, None => return };
        self.stats.actor_steps += 1;
        let r = a.step(self);
        self.trace.mix(0xA0 + id as u64);
        self.trace.mix(match &r { Step::Progress => 1, Step::Blocked => 2, Step::Sleep(t) => 3 ^ (*t << 3), Step::Idle(t) => 5 ^ (*t << 3), Step::Done => 4 });
        let st = &mut self.astate[id];
        match r {
            Step::Progress => { st.runnable = true; st.wake_at = None; st.hard_sleep = false; }
            Step::Blocked => { st.runnable = false; st.wake_at = None; st.hard_sleep = false; }
            Step::Sleep(t) => { st.runnable = false; st.wake_at = Some(t); st.hard_sleep = true; }
            Step::Idle(t) => { st.runnable = false; st.wake_at = Some(t); st.hard_sleep = false; }
            Step::Done => { st.runnable = false; st.done = true; st.wake_at = None; }
        }
        self.actors[id] = Some(a);
    }

    /// After the worker has returned (its sockets are closed): let the peers read what is still in their
    /// socket buffers and observe the close, for at most `max_ns` of virtual time. Opt-in per scenario
    /// (`post_exit_drain_ns`), so that scenarios that end with HardStop keep their traces.
    pub fn drain_after_exit(&mut self, max_ns: u64) {
        let until = self.now + max_ns;
        let mut steps = 0u32;
        // the worker's last writes and its closes happened since the actors last looked
        for a in self.astate.iter_mut() { if !a.done && !(a.hard_sleep && a.wake_at.is_some()) { a.runnable = true; } }
        loop {
            let ran = self.run_actors(64);
            steps += ran;
            if steps > 200_000 { break; }
            if ran > 0 { continue; }
            match self.astate.iter().filter(|a| !a.done).filter_map(|a| a.wake_at).min() {
                Some(t) if t <= until => { if t > self.now { self.now = t; } self.fire_due(); }
                _ => break,
            }
        }
    }

    /// Step one actor right now (set-up time: a backend that must be listening before the first client can
    /// possibly be relayed to it).
    pub fn prime_actor(&mut self, id: usize) { self.step_actor(id); }

    /// Run up to `k` actor steps. Returns number executed.
    pub fn run_actors(&mut self, k: u32) -> u32 {
        let mut done = 0;
        while done < k {
            match self.pick_runnable() {
                Some(id) => { self.step_actor(id); done += 1; }
                None => break,
            }
        }
        done
    }

    fn burst(&mut self) -> u32 {
        // geometric-ish around cfg.actor_burst, at least 0
        let m = self.cfg.actor_burst.max(1) as u64;
        let mut k = 0;
        while self.sched.below(m + 1) != 0 && k < 64 { k += 1; }
        k
    }

    fn next_wake(&self) -> Option<u64> {
        let a = self.astate.iter().filter(|a| !a.done).filter_map(|a| a.wake_at).min();
        let p = self.pending.values().filter_map(|p| p.due).min();
        let r = self.rearm.values().copied().min();
        [a, p, r].into_iter().flatten().min()
    }

    fn fire_due(&mut self) {
        let now = self.now;
        for a in self.astate.iter_mut() {
            if let Some(t) = a.wake_at {
                if t <= now && !a.done { a.runnable = true; a.wake_at = None; a.hard_sleep = false; }
            }
        }
        let due: Vec<i32> = self.pending.iter().filter(|(_, p)| p.due.map_or(false, |d| d <= now)).map(|(fd, _)| *fd).collect();
        for fd in due { self.complete_connect(fd); }
        let due: Vec<i32> = self.rearm.iter().filter(|(_, t)| **t <= now).map(|(fd, _)| *fd).collect();
        for fd in due {
            self.rearm.remove(&fd);
            if let Some((epfd, events, data)) = self.epoll_regs.get(&fd).copied() {
                let mut ev = libc::epoll_event { events, u64: data };
                unsafe { sys::sc!(libc::SYS_epoll_ctl, epfd, libc::EPOLL_CTL_MOD, fd, &mut ev as *mut _) };
                self.tr(0xE3, 0);
            }
        }
    }

    fn complete_connect(&mut self, fd: i32) {
        if let Some(p) = self.pending.remove(&fd) {
            match p.kind {
                PendingKind::Establish => {}
                PendingKind::Refuse { held_fd } => {
                    sys::close(held_fd);
                    self.so_error.insert(fd, libc::ECONNREFUSED);
                }
                PendingKind::Blackhole { held_fd } => { sys::close(held_fd); }
            }
            if let Some((epfd, events, data)) = p.reg {
                let mut ev = libc::epoll_event { events, u64: data };
                unsafe { sys::sc!(libc::SYS_epoll_ctl, epfd, libc::EPOLL_CTL_MOD, fd, &mut ev as *mut _) };
            }
            self.tr(0xC1, 0);
        }
    }

    pub fn abort(&mut self, why: &str) {
        if self.aborted.is_none() {
            self.aborted = Some(why.to_string());
            if let Some(fd) = self.abort_fd.take() {
                let _ = sys::shutdown(fd, libc::SHUT_RDWR);
            }
        }
    }

    /// Register the calling simulated process as parked in `epoll_wait`.
    fn park(&mut self, me: usize, epfd: i32, events: *mut libc::epoll_event, maxevents: i32, timeout_ms: i32) {
        self.iterations += 1;
        self.stats.epoll_waits += 1;
        self.now += self.cfg.iter_cost_ns;
        if self.iterations > self.cfg.max_iterations { self.abort("max_iterations"); }
        // real-time watchdog: a run in which the code under test burns CPU without the virtual clock getting anywhere
        // (sozu polling with a zero timeout and looping to its iteration guard on every pass) would otherwise take
        // minutes; it is ended here and the framework files it as inconclusive (framework::run_guarded)
        if self.iterations % 512 == 0 && self.aborted.is_none() && sys::real_clock_ns().saturating_sub(self.t0_real_ns) > self.wall_budget_ns { WATCHDOG_FIRED.store(true, std::sync::atomic::Ordering::SeqCst); self.abort("wall_clock"); }
        if self.now > self.cfg.max_virtual_ns + 1000 * SEC { self.abort("max_virtual_time"); }
        let deadline = if timeout_ms < 0 { u64::MAX } else { self.now + timeout_ms as u64 * MS };
        while self.procs.len() <= me { self.procs.push(ProcSlot::default()); }
        let p = &mut self.procs[me];
        self.eagain_streak = 0;
        p.state = P_PARKED; p.epfd = epfd; p.events = events as usize; p.maxevents = maxevents; p.deadline = deadline; p.delivered = None;
        // a process just ran: any actor may be able to progress again
        for a in self.astate.iter_mut() { if !a.done && !(a.hard_sleep && a.wake_at.is_some()) { a.runnable = true; } }
        self.fire_due();
        self.pending_burst = Some(self.burst());
    }

    /// Poll one parked process. Returns the number of events written into its buffer.
    fn poll_proc(&mut self, i: usize, allow_truncate: bool) -> i32 {
        let (epfd, events, maxevents) = { let p = &self.procs[i]; (p.epfd, p.events as *mut libc::epoll_event, p.maxevents) };
        let mut maxev = maxevents;
        let truncated = allow_truncate && self.cfg.ev_truncate_pm > 0 && self.sched.below(1000) < self.cfg.ev_truncate_pm as u64;
        if truncated { maxev = 1 + self.sched.below(3) as i32; if maxev > maxevents { maxev = maxevents; } }
        let n = unsafe { sys::sc!(libc::SYS_epoll_wait, epfd, events, maxev, 0) } as i32;
        if n < 0 { return n; }
        let n = if n > 0 { self.tcp_hup_semantics(epfd, events, n) } else { n };
        if n > 0 {
            if truncated && n == maxev { self.stats.epoll_truncated += 1; }
            let evs = unsafe { std::slice::from_raw_parts_mut(events, n as usize) };
            if allow_truncate && n > 1 && self.cfg.ev_permute_pm > 0 && self.sched.below(1000) < self.cfg.ev_permute_pm as u64 {
                self.stats.epoll_permuted += 1;
                for a in (1..evs.len()).rev() {
                    let b = self.sched.below(a as u64 + 1) as usize;
                    evs.swap(a, b);
                }
            }
            self.stats.epoll_events += n as u64;
            if self.log_on { let d: Vec<String> = evs.iter().map(|e| { let (b, t) = (e.events, e.u64); format!("tok{}:{:x}", t, b) }).collect(); let nm = self.procs[i].name.clone(); self.logf(|| format!("epoll_wait[{nm}] -> {}", d.join(" "))); }
            self.trace.mix(0xE0 ^ ((i as u64) << 8));
            for e in evs.iter() { let (ev, d) = (e.events, e.u64); self.trace.mix(((ev as u64) << 32) ^ d); }
        }
        n
    }

    /// One scheduling round by the baton holder `me`: runs actors, polls parked processes, advances
    /// virtual time. Returns what to do next.
    fn sched_step(&mut self, me: usize) -> Sched {
        let mut k = self.pending_burst.take().unwrap_or(1);
        let mut spins = 0u64;
        loop {
            spins += 1;
            self.run_actors(k);
            // a process that has been spawned but has not started yet is always ready to run
            if let Some(q) = (0..self.procs.len()).find(|i| self.procs[*i].state == P_STARTING && self.procs[*i].start_at <= self.now) {
                self.procs[q].state = P_RUNNING;
                self.trace.mix(0x5A ^ ((q as u64) << 8));
                return Sched::Handoff(q);
            }
            // poll parked processes in PRNG order
            let mut order: Vec<usize> = (0..self.procs.len()).filter(|i| self.procs[*i].state == P_PARKED).collect();
            if order.len() > 1 { self.sched.shuffle(&mut order); }
            let me_crashed = self.procs[me].crashed;
            if order.is_empty() { return if me_crashed { Sched::Halt } else { Sched::Return(0) }; }
            for i in order.iter().copied() {
                let n = self.poll_proc(i, true);
                if n < 0 {
                    if i == me { sys::set_errno(-n); self.procs[me].state = P_RUNNING; return Sched::Return(-1); }
                    continue;
                }
                if n > 0 {
                    self.procs[i].state = P_RUNNING;
                    if i == me { return Sched::Return(n); }
                    self.procs[i].delivered = Some(n);
                    return Sched::Handoff(i);
                }
            }
            // nothing ready for any process
            if self.astate.iter().any(|a| a.runnable && !a.done) {
                k = 1 + self.burst();
                if spins > 5_000_000 { self.abort("actor_livelock"); if me_crashed { return Sched::Halt; } self.procs[me].state = P_RUNNING; return Sched::Return(0); }
                continue;
            }
            // quiescent: advance virtual time to the next actor wake-up or process deadline
            let min_deadline = order.iter().map(|i| self.procs[*i].deadline).min().unwrap_or(u64::MAX);
            let min_start = self.procs.iter().filter(|p| p.state == P_STARTING).map(|p| p.start_at).min().unwrap_or(u64::MAX);
            let next = self.next_wake().unwrap_or(u64::MAX).min(min_deadline).min(min_start);
            if next == u64::MAX {
                // everybody sleeps forever and nobody will ever act: end of the world
                self.abort("deadlock");
                if me_crashed { return Sched::Halt; }
                self.procs[me].state = P_RUNNING;
                return Sched::Return(0);
            }
            if next > self.now {
                self.stats.clock_jumps += 1;
                self.now = next;
            }
            self.fire_due();
            if !self.astate.iter().any(|a| a.runnable && !a.done) {
                // deliver a timeout to one process whose deadline has passed (after one last look)
                if let Some(i) = order.iter().copied().find(|i| self.procs[*i].deadline <= self.now) {
                    let n = self.poll_proc(i, false);
                    let n = if n > 0 { n } else { self.stats.timeouts_returned += 1; self.trace.mix(0xE2 ^ ((i as u64) << 8)); 0 };
                    self.procs[i].state = P_RUNNING;
                    if i == me { return Sched::Return(n); }
                    self.procs[i].delivered = Some(n);
                    return Sched::Handoff(i);
                }
            }
            k = 1;
        }
    }

    /// Crash simulated process `i` (it must be parked in `epoll_wait`, which every process other than the one whose
    /// scheduler round is running always is; the running one may crash itself too): every descriptor registered in its
    /// epoll instance is closed (what its peers observe when a process dies), the instance itself is closed, and the
    /// process is never scheduled again. Only state that is durable in the real system survives: descriptors other
    /// processes hold, files, the other processes' memory. Returns the number of descriptors closed.
    pub fn crash_proc(&mut self, i: usize, extra_fds: &[i32]) -> usize {
        if i >= self.procs.len() || self.procs[i].state == P_DEAD || self.procs[i].state == P_STARTING { return 0; }
        let epfd = self.procs[i].epfd;
        let mut fds: Vec<i32> = Vec::new();
        if let Ok(txt) = std::fs::read_to_string(format!("/proc/self/fdinfo/{epfd}")) {
            for l in txt.lines() { if let Some(r) = l.strip_prefix("tfd:") { if let Some(n) = r.split_whitespace().next().and_then(|x| x.parse::<i32>().ok()) { fds.push(n); } } }
        }
        fds.extend_from_slice(extra_fds);
        fds.sort(); fds.dedup();
        for fd in &fds { self.on_close(*fd); sys::close(*fd); }
        sys::close(epfd);
        self.procs[i].state = P_DEAD;
        self.procs[i].crashed = true;
        self.stats.fault("process_crash");
        self.trace.mix(0xDEAD ^ ((i as u64) << 16) ^ ((fds.len() as u64) << 32));
        if self.log_on { let nm = self.procs[i].name.clone(); let n = fds.len(); self.logf(|| format!("CRASH {nm}: {n} descriptors closed")); }
        fds.len()
    }

    /// Declare a new simulated process (a thread that will run real code under this world).
    pub fn add_proc(&mut self, name: &str, starting: bool) -> usize {
        self.procs.push(ProcSlot { name: name.into(), state: if starting { P_STARTING } else { P_RUNNING }, ..Default::default() });
        self.procs.len() - 1
    }

    /// The calling process has left its event loop for good. Returns the process to hand the baton to, if any.
    fn retire_proc(&mut self, me: usize) -> Option<usize> {
        if me < self.procs.len() { self.procs[me].state = P_DEAD; }
        (0..self.procs.len()).find(|i| self.procs[*i].state == P_PARKED || self.procs[*i].state == P_STARTING)
    }
    fn take_delivery(&mut self, me: usize) -> Option<i32> { self.procs[me].delivered.take() }
    fn start_if_starting(&mut self, q: usize) { if self.procs[q].state == P_STARTING { self.procs[q].state = P_RUNNING; } }
    pub fn live_procs(&self) -> usize { self.procs.iter().filter(|p| p.state != P_DEAD).count() }

    /// AF_UNIX reports EPOLLHUP as soon as the peer closes; TCP reports it only once both
    /// directions are shut down or the connection was reset. Translate: on sozu's simulated
    /// stream sockets a HUP without ERR is dropped (IN|RDHUP remain) unless sozu itself already
    /// shut down its write side. Events left empty are removed from the array.
    fn tcp_hup_semantics(&mut self, epfd: i32, events: *mut libc::epoll_event, n: i32) -> i32 {
        let evs = unsafe { std::slice::from_raw_parts_mut(events, n as usize) };
        let mut out = 0usize;
        for i in 0..evs.len() {
            let mut e = evs[i];
            let (bits, data) = (e.events, e.u64);
            if bits & libc::EPOLLHUP as u32 != 0 && bits & libc::EPOLLERR as u32 == 0 {
                if let Some(fd) = self.token_fd.get(&(epfd, data)).copied() {
                    if matches!(self.sozu_fds.get(&fd), Some('a') | Some('c')) && !self.shut_wr.contains(&fd) && !self.pending.contains_key(&fd) {
                        e.events = bits & !(libc::EPOLLHUP as u32);
                        self.hup_masked += 1;
                    }
                }
            }
            if e.events != 0 { evs[out] = e; out += 1; }
        }
        out as i32
    }

    // ---------- hooks' helpers ----------
    pub fn fill_entropy(&mut self, buf: &mut [u8]) {
        self.entropy.fill(buf);
    }

    /// connect() from sozu to a simulated TCP address. Returns the libc-style result (0 or -1 with errno set).
    pub fn on_connect(&mut self, fd: i32, dst: SocketAddr) -> i32 {
        self.stats.connects += 1;
        let mode = self.topo.get(&dst).cloned().unwrap_or(ConnectMode::Refuse { delay_ns: 0 });
        self.logf(|| format!("sozu connect fd={fd} dst={dst} mode={mode:?}"));
        self.tr(0xC0, match &mode { ConnectMode::Listen { .. } => 1, ConnectMode::Refuse { .. } => 2, ConnectMode::Blackhole => 3, ConnectMode::Unreachable => 4 });
        self.connect_log.push(ConnectRec { t: self.now, fd, dst, answer: 0, done_at: 0, token: None, t_close: 0 });
        match mode {
            ConnectMode::Unreachable => { self.connect_note(5, self.now); sys::set_errno(libc::ENETUNREACH); -1 }
            ConnectMode::Listen { delay_ns } => {
                let local: SocketAddr = format!("127.0.0.1:{}", self.ephemeral()).parse().unwrap();
                match self.peer_connect(&local, &dst, None) {
                    Ok(nfd) => {
                        let _ = sys::dup3(nfd, fd, libc::O_CLOEXEC);
                        sys::close(nfd);
                        self.sozu_fds.insert(fd, 'c');
                        self.connect_note(1, self.now + delay_ns);
                        if delay_ns > 0 {
                            self.stats.connect_delayed += 1;
                            self.pending.insert(fd, Pending { kind: PendingKind::Establish, due: Some(self.now + delay_ns), reg: None });
                        }
                        sys::set_errno(libc::EINPROGRESS);
                        -1
                    }
                    Err(_) => self.refuse(fd, 0),
                }
            }
            ConnectMode::Refuse { delay_ns } => self.refuse(fd, delay_ns),
            ConnectMode::Blackhole => {
                self.stats.connect_blackholed += 1;
                self.stats.fault("connect_blackhole");
                self.connect_note(4, 0);
                let (a, b) = sys::socketpair(libc::AF_UNIX, libc::SOCK_STREAM | libc::SOCK_NONBLOCK | libc::SOCK_CLOEXEC).unwrap();
                let _ = sys::dup3(a, fd, libc::O_CLOEXEC);
                sys::close(a);
                self.sozu_fds.insert(fd, 'c');
                self.pending.insert(fd, Pending { kind: PendingKind::Blackhole { held_fd: b }, due: None, reg: None });
                sys::set_errno(libc::EINPROGRESS);
                -1
            }
        }
    }
    fn connect_note(&mut self, answer: u8, done_at: u64) {
        if let Some(r) = self.connect_log.last_mut() { r.answer = answer; r.done_at = done_at; }
    }
    fn refuse(&mut self, fd: i32, delay_ns: u64) -> i32 {
        self.stats.connect_refused += 1;
        self.stats.fault("connect_refused");
        if delay_ns == 0 && self.sched.below(2) == 0 {
            self.connect_note(2, self.now);
            sys::set_errno(libc::ECONNREFUSED);
            return -1;
        }
        self.connect_note(3, self.now + delay_ns.max(1000));
        let (a, b) = sys::socketpair(libc::AF_UNIX, libc::SOCK_STREAM | libc::SOCK_NONBLOCK | libc::SOCK_CLOEXEC).unwrap();
        let _ = sys::dup3(a, fd, libc::O_CLOEXEC);
        sys::close(a);
        self.sozu_fds.insert(fd, 'c');
        self.pending.insert(fd, Pending { kind: PendingKind::Refuse { held_fd: b }, due: Some(self.now + delay_ns.max(1000)), reg: None });
        sys::set_errno(libc::EINPROGRESS);
        -1
    }

    /// epoll_ctl from sozu. Returns Some(result) if handled here.
    pub fn on_epoll_ctl(&mut self, epfd: i32, op: i32, fd: i32, ev: *mut libc::epoll_event) -> Option<i32> {
        if op == libc::EPOLL_CTL_DEL {
            if let Some((ep, _, data)) = self.epoll_regs.get(&fd) { let d = (*ep, *data); if self.token_fd.get(&d) == Some(&fd) { self.token_fd.remove(&d); } }
            self.epoll_regs.remove(&fd);
            if let Some(p) = self.pending.get_mut(&fd) { p.reg = None; }
            return None;
        }
        if ev.is_null() { return None; }
        let (events, data) = unsafe { ((*ev).events, (*ev).u64) };
        if self.sozu_fds.contains_key(&fd) {
            self.epoll_regs.insert(fd, (epfd, events, data));
            self.token_fd.insert((epfd, data), fd);
            if let Some(r) = self.connect_log.iter_mut().rev().find(|r| r.fd == fd) { if r.t_close == 0 && r.token.is_none() { r.token = Some(data); } }
        }
        if let Some(p) = self.pending.get_mut(&fd) {
            p.reg = Some((epfd, events, data));
            let mut e2 = libc::epoll_event { events: libc::EPOLLET as u32, u64: data };
            let r = unsafe { sys::sc!(libc::SYS_epoll_ctl, epfd, op, fd, &mut e2 as *mut _) };
            return Some(unsafe { sys::ret_errno(r) } as i32);
        }
        None
    }

    pub fn on_close(&mut self, fd: i32) {
        self.stats.closes += 1;
        if self.sozu_fds.get(&fd) == Some(&'c') { let now = self.now; if let Some(r) = self.connect_log.iter_mut().rev().find(|r| r.fd == fd) { if r.t_close == 0 { r.t_close = now; } } }
        if let Some(p) = self.pending.remove(&fd) {
            match p.kind {
                PendingKind::Refuse { held_fd } | PendingKind::Blackhole { held_fd } => sys::close(held_fd),
                PendingKind::Establish => {}
            }
        }
        self.so_error.remove(&fd);
        self.rearm.remove(&fd);
        self.shut_wr.remove(&fd);
        self.served.remove(&fd);
        self.accepted_peer.remove(&fd);
        if let Some((ep, _, data)) = self.epoll_regs.get(&fd) { let d = (*ep, *data); if self.token_fd.get(&d) == Some(&fd) { self.token_fd.remove(&d); } }
        self.epoll_regs.remove(&fd);
        if self.sozu_fds.contains_key(&fd) { self.logf(|| format!("sozu close fd={fd}")); }
        if let Some(local) = self.udp_local.remove(&fd) {
            let peer = self.udp_peer.remove(&fd);
            self.udp_pending_err.remove(&fd);
            self.udp_waiting.remove(&fd);
            self.udp_ev(UDP_CLOSE, fd, local, peer, 0, 0, 0, &[]);
        }
        if self.sozu_fds.remove(&fd).is_some() {
            self.tr(0xCC, 0);
        }
    }
    pub fn take_so_error(&mut self, fd: i32) -> Option<i32> {
        self.so_error.remove(&fd)
    }
    pub fn is_pending(&self, fd: i32) -> bool { self.pending.contains_key(&fd) }
}

// ---------- more hook helpers ----------
impl World {
    /// a new stream socket owned by sozu appeared (accepted or connected)
    pub fn on_sozu_socket(&mut self, fd: i32) {
        if let Some(choices) = self.sndbuf_choices.as_ref() {
            if !choices.is_empty() {
                let sb = choices[self.sched.below(choices.len() as u64) as usize];
                if sb > 0 {
                    let _ = sys::setsockopt_int(fd, libc::SOL_SOCKET, libc::SO_SNDBUF, sb);
                }
            }
        }
    }

    pub fn on_bind(&mut self, fd: i32, addr: SocketAddr, ty: i32) -> i32 {
        if ty == libc::SOCK_DGRAM { return self.on_udp_bind(fd, addr); }
        let fl = sys::fcntl(fd, libc::F_GETFL, 0).unwrap_or(0);
        let nb = if fl & libc::O_NONBLOCK as i64 != 0 { libc::SOCK_NONBLOCK } else { 0 };
        let nfd = match sys::socket(libc::AF_UNIX, ty | nb | libc::SOCK_CLOEXEC, 0) {
            Ok(f) => f,
            Err(e) => { sys::set_errno(e); return -1; }
        };
        let name = if ty == libc::SOCK_STREAM { self.listener_name(&addr) } else { self.udp_name(&addr) };
        if let Err(e) = sys::bind_abstract(nfd, &name) {
            let mut bound = false;
            if e == libc::EADDRINUSE && self.reuseport && ty == libc::SOCK_STREAM {
                for k in 1..=16u32 {
                    let mut alt = name.clone();
                    alt.extend_from_slice(format!("/r{k}").as_bytes());
                    if sys::bind_abstract(nfd, &alt).is_ok() {
                        let m = self.reuse_members.entry(addr).or_insert(0);
                        if *m < k { *m = k; }
                        bound = true;
                        self.tr(0xB2, k as u64);
                        break;
                    }
                }
            }
            if !bound {
                sys::close(nfd);
                sys::set_errno(if e == libc::EADDRINUSE { libc::EADDRINUSE } else { e });
                return -1;
            }
        }
        let _ = sys::dup3(nfd, fd, libc::O_CLOEXEC);
        sys::close(nfd);
        self.sozu_fds.insert(fd, if ty == libc::SOCK_STREAM { 'l' } else { 'u' });
        self.tr(0xB1, addr.port() as u64);
        if self.log_on { let m = self.reuse_members.get(&addr).copied().unwrap_or(0); self.logf(|| format!("sozu bind fd={fd} {addr} (reuseport members beyond the first: {m})")); }
        0
    }

    // ---------- simulated UDP: AF_UNIX SOCK_DGRAM stand-ins bound to abstract names that carry the simulated
    // address. AF_UNIX datagrams are reliable and ordered and the sender sees EAGAIN when the receiver's queue is
    // full (net.unix.max_dgram_qlen): loss, duplication and reordering are injected by the scripted peers only.

    pub fn next_useq(&mut self) -> u64 { self.udp_seq += 1; self.udp_seq }

    fn udp_ev(&mut self, kind: u8, fd: i32, local: SocketAddr, peer: Option<SocketAddr>, len: usize, res: i64, note: u8, data: &[u8]) {
        let seq = self.next_useq();
        let head = data[..data.len().min(self.udp_head_len)].to_vec();
        self.trace.mix(0x0D00 | kind as u64 | ((note as u64) << 16));
        self.trace.mix((res as u64) ^ ((len as u64) << 32));
        self.trace.mix(local.port() as u64 ^ peer.map_or(0, |p| (p.port() as u64) << 16));
        if self.log_on {
            let k = match kind { UDP_BIND => "bind", UDP_CONNECT => "connect", UDP_CLOSE => "close", UDP_SEND => "send", _ => "recv" };
            let h: String = head.iter().take(12).map(|b| format!("{b:02x}")).collect();
            self.logf(|| format!("sozu udp {k} fd={fd} local={local} peer={peer:?} len={len} -> {res} note={note} [{h}]"));
        }
        let t = self.now;
        self.udp_log.push(UdpEv { seq, t, kind, fd, local, peer, len, res, note, head });
    }

    pub fn is_udp(&self, fd: i32) -> bool { self.udp_local.contains_key(&fd) }

    /// bind() of a datagram socket. Port 0 gets a fresh simulated port from the run's counter (no PRNG); a wildcard
    /// address with port 0 (the ephemeral bind in front of a UDP connect()) is named after the loopback address,
    /// as `on_connect` names sozu's side of a TCP connection.
    pub fn on_udp_bind(&mut self, fd: i32, addr: SocketAddr) -> i32 {
        let fl = sys::fcntl(fd, libc::F_GETFL, 0).unwrap_or(0);
        let nb = if fl & libc::O_NONBLOCK as i64 != 0 { libc::SOCK_NONBLOCK } else { 0 };
        let nfd = match sys::socket(libc::AF_UNIX, libc::SOCK_DGRAM | nb | libc::SOCK_CLOEXEC, 0) {
            Ok(f) => f,
            Err(e) => { sys::set_errno(e); return -1; }
        };
        let auto = addr.port() == 0;
        let mut a = addr;
        let mut tries = 0;
        loop {
            if auto {
                let ip: std::net::IpAddr = if !addr.ip().is_unspecified() { addr.ip() } else if addr.is_ipv4() { std::net::Ipv4Addr::LOCALHOST.into() } else { std::net::Ipv6Addr::LOCALHOST.into() };
                a = SocketAddr::new(ip, self.ephemeral());
            }
            let name = self.udp_name(&a);
            match sys::bind_abstract(nfd, &name) {
                Ok(()) => break,
                Err(e) if e == libc::EADDRINUSE && auto && tries < 64 => { tries += 1; }
                Err(e) => { sys::close(nfd); sys::set_errno(e); return -1; }
            }
        }
        let _ = sys::dup3(nfd, fd, libc::O_CLOEXEC);
        sys::close(nfd);
        self.sozu_fds.insert(fd, 'u');
        self.udp_local.insert(fd, a);
        if self.udp_local.len() > self.udp_max_open { self.udp_max_open = self.udp_local.len(); }
        self.tr(0xB1, addr.port() as u64);
        self.udp_ev(UDP_BIND, fd, a, None, 0, 0, 0, &[]);
        0
    }

    /// UDP connect(): always succeeds and only fixes the peer (whether or not anybody is bound there). The stand-in
    /// socket stays unconnected: `udp_sendto` addresses every datagram and `udp_recvfrom` drops datagrams of other
    /// sources, so a peer that appears, disappears or re-binds later behaves as a UDP port does.
    pub fn on_udp_connect(&mut self, fd: i32, dst: SocketAddr) -> i32 {
        if !self.udp_local.contains_key(&fd) {
            let unspec: SocketAddr = if dst.is_ipv4() { (std::net::Ipv4Addr::UNSPECIFIED, 0).into() } else { (std::net::Ipv6Addr::UNSPECIFIED, 0).into() };
            let r = self.on_udp_bind(fd, unspec);
            if r != 0 { return r; }
        }
        self.udp_peer.insert(fd, dst);
        let local = self.udp_local[&fd];
        self.udp_ev(UDP_CONNECT, fd, local, Some(dst), 0, 0, 0, &[]);
        0
    }

    fn udp_preempt(&mut self) {
        if self.hook_depth == 0 && self.cfg.preempt_pm > 0 && self.sched.below(1000) < self.cfg.preempt_pm as u64 {
            self.hook_depth += 1;
            self.stats.preemptions += 1;
            let k = 1 + self.sched.below(3) as u32;
            self.run_actors(k);
            self.hook_depth -= 1;
        }
    }

    /// send()/sendto()/sendmsg() by sozu on a simulated UDP socket. Returns the raw result (bytes or -errno).
    /// `dst` None = the connected peer. Nobody bound at the destination: the call succeeds and the datagram is
    /// lost (UDP); with `udp_icmp` the next call on a connected socket reports ECONNREFUSED once.
    pub fn udp_sendto(&mut self, fd: i32, data: &[u8], flags: i32, dst: Option<SocketAddr>) -> i64 {
        let Some(local) = self.udp_local.get(&fd).copied() else { return -(libc::EBADF as i64) };
        self.udp_preempt();
        let connected = dst.is_none();
        let Some(to) = dst.or_else(|| self.udp_peer.get(&fd).copied()) else { return -(libc::EDESTADDRREQ as i64) };
        self.stats.sozu_writes += 1;
        if connected {
            if let Some(e) = self.udp_pending_err.remove(&fd) {
                self.udp_ev(UDP_SEND, fd, local, Some(to), data.len(), -(e as i64), 3, data);
                return -(e as i64);
            }
        }
        if self.udp_eagain_pm > 0 && self.hook_depth == 0 && self.sched.below(1000) < self.udp_eagain_pm as u64 {
            self.stats.eagain_injected += 1;
            self.stats.fault("udp_send_eagain");
            let d = self.sched.below(3) * 50_000;
            self.rearm.insert(fd, self.now + d);
            self.udp_ev(UDP_SEND, fd, local, Some(to), data.len(), -(libc::EAGAIN as i64), 2, data);
            return -(libc::EAGAIN as i64);
        }
        if self.udp_qlimit > 0 && self.udp_qlen.get(&to).copied().unwrap_or(0) >= self.udp_qlimit {
            // the simulated send buffer is full of datagrams this peer has not read yet
            self.stats.sozu_write_eagain += 1;
            self.stats.fault("udp_send_buffer_full");
            self.udp_waiting.entry(fd).or_default().insert(to);
            self.udp_ev(UDP_SEND, fd, local, Some(to), data.len(), -(libc::EAGAIN as i64), 4, data);
            return -(libc::EAGAIN as i64);
        }
        let name = self.udp_name(&to);
        let (sa, sl) = sys::abstract_addr(&name);
        let r = unsafe { sys::sc!(libc::SYS_sendto, fd, data.as_ptr(), data.len(), flags | libc::MSG_NOSIGNAL, &sa as *const _, sl) };
        if r >= 0 {
            *self.udp_qlen.entry(to).or_insert(0) += 1;
            self.udp_ev(UDP_SEND, fd, local, Some(to), data.len(), r, 0, data);
            return r;
        }
        let e = (-r) as i32;
        if e == libc::ECONNREFUSED || e == libc::ENOENT || e == libc::EPERM || e == libc::ENOTCONN {
            self.stats.fault("udp_sent_to_dead_port");
            if self.udp_icmp && connected { self.udp_pending_err.insert(fd, libc::ECONNREFUSED); }
            self.udp_ev(UDP_SEND, fd, local, Some(to), data.len(), data.len() as i64, 1, data);
            return data.len() as i64;
        }
        if e == libc::EAGAIN { self.stats.sozu_write_eagain += 1; }
        self.udp_ev(UDP_SEND, fd, local, Some(to), data.len(), r, 0, data);
        r
    }

    /// recv()/recvfrom()/recvmsg() by sozu on a simulated UDP socket: raw result and the simulated source.
    pub fn udp_recvfrom(&mut self, fd: i32, buf: *mut u8, len: usize, flags: i32) -> (i64, Option<SocketAddr>) {
        let Some(local) = self.udp_local.get(&fd).copied() else { return (-(libc::EBADF as i64), None) };
        self.udp_preempt();
        let want = self.udp_peer.get(&fd).copied();
        self.stats.sozu_reads += 1;
        if want.is_some() {
            if let Some(e) = self.udp_pending_err.remove(&fd) {
                self.udp_ev(UDP_RECV, fd, local, want, len, -(e as i64), 3, &[]);
                return (-(e as i64), None);
            }
        }
        loop {
            let mut sa: libc::sockaddr_un = unsafe { std::mem::zeroed() };
            let mut sl: u32 = std::mem::size_of::<libc::sockaddr_un>() as u32;
            let r = unsafe { sys::sc!(libc::SYS_recvfrom, fd, buf, len, flags, &mut sa as *mut _, &mut sl as *mut u32) };
            if r < 0 {
                if r == -(libc::EAGAIN as i64) { self.stats.sozu_read_eagain += 1; }
                self.udp_ev(UDP_RECV, fd, local, None, len, r, 0, &[]);
                return (r, None);
            }
            let src = World::parse_name(&sys::un_name(&sa, sl));
            if let Some(p) = want {
                if src != Some(p) {
                    // a connected UDP socket only receives from its peer
                    self.udp_foreign_dropped += 1;
                    self.stats.fault("udp_foreign_source_dropped");
                    if flags & libc::MSG_PEEK != 0 { let mut scratch = [0u8; 1]; unsafe { sys::sc!(libc::SYS_recvfrom, fd, scratch.as_mut_ptr(), 1, 0, 0, 0) }; }
                    continue;
                }
            }
            let got = unsafe { std::slice::from_raw_parts(buf as *const u8, (r as usize).min(len)) };
            let got = got.to_vec();
            self.udp_ev(UDP_RECV, fd, local, src, len, r, 0, &got);
            return (r, src);
        }
    }

    // ---------- scripted UDP peers
    /// A datagram socket of a scripted peer at a simulated address.
    pub fn peer_udp_socket(&mut self, addr: &SocketAddr) -> Result<i32, i32> {
        let fd = sys::socket(libc::AF_UNIX, libc::SOCK_DGRAM | libc::SOCK_NONBLOCK | libc::SOCK_CLOEXEC, 0)?;
        let name = self.udp_name(addr);
        if let Err(e) = sys::bind_abstract(fd, &name) { sys::close(fd); return Err(e); }
        self.peer_udp.insert(fd, *addr);
        self.udp_qlen.remove(addr);
        Ok(fd)
    }
    /// A scripted peer closes its socket: what sozu had in flight towards it is gone, senders parked on it wake.
    pub fn peer_udp_close(&mut self, fd: i32) {
        if let Some(a) = self.peer_udp.remove(&fd) {
            self.udp_qlen.remove(&a);
            self.udp_wake_waiters(&a);
        }
        sys::close(fd);
    }
    fn udp_wake_waiters(&mut self, a: &SocketAddr) {
        let now = self.now;
        let fds: Vec<i32> = self.udp_waiting.iter().filter(|(_, s)| s.contains(a)).map(|(fd, _)| *fd).collect();
        for fd in fds {
            if let Some(s) = self.udp_waiting.get_mut(&fd) { s.remove(a); if s.is_empty() { self.udp_waiting.remove(&fd); } }
            self.rearm.entry(fd).or_insert(now);
            self.tr(0x0DAA, a.port() as u64);
        }
    }
    /// Err(ECONNREFUSED): nobody is bound at `dst` (the datagram is lost); Err(EAGAIN): the receiver's queue is full.
    pub fn peer_udp_sendto(&mut self, fd: i32, dst: &SocketAddr, data: &[u8]) -> Result<usize, i32> {
        let name = self.udp_name(dst);
        let (sa, sl) = sys::abstract_addr(&name);
        let r = unsafe { sys::sc!(libc::SYS_sendto, fd, data.as_ptr(), data.len(), libc::MSG_NOSIGNAL, &sa as *const _, sl) };
        if r < 0 { Err((-r) as i32) } else { Ok(r as usize) }
    }
    pub fn peer_udp_recvfrom(&mut self, fd: i32, buf: &mut [u8]) -> Result<(usize, Option<SocketAddr>), i32> {
        let mut sa: libc::sockaddr_un = unsafe { std::mem::zeroed() };
        let mut sl: u32 = std::mem::size_of::<libc::sockaddr_un>() as u32;
        let r = unsafe { sys::sc!(libc::SYS_recvfrom, fd, buf.as_mut_ptr(), buf.len(), 0, &mut sa as *mut _, &mut sl as *mut u32) };
        if r < 0 { return Err((-r) as i32); }
        if let Some(a) = self.peer_udp.get(&fd).copied() {
            let q = self.udp_qlen.entry(a).or_insert(0);
            let was_full = self.udp_qlimit > 0 && *q >= self.udp_qlimit;
            *q = q.saturating_sub(1);
            if was_full { self.udp_wake_waiters(&a); }
        }
        Ok((r as usize, World::parse_name(&sys::un_name(&sa, sl))))
    }

    /// Before a data syscall by sozu on one of its simulated stream sockets.
    /// Returns Some((forced, newlen)): forced<0 => fail with EAGAIN; otherwise truncate to newlen.
    pub fn pre_io(&mut self, fd: i32, is_write: bool, len: usize) -> Option<(isize, usize)> {
        match self.sozu_fds.get(&fd) { Some('a') | Some('c') => {}, _ => return None }
        if self.hook_depth > 0 { return None; }
        if self.is_pending(fd) {
            // connect still in progress: a non-blocking TCP socket reports EAGAIN for send and recv
            self.tr(0xF3, is_write as u64);
            return Some((-1, 0));
        }
        if self.cfg.preempt_pm > 0 && self.sched.below(1000) < self.cfg.preempt_pm as u64 {
            self.hook_depth += 1;
            self.stats.preemptions += 1;
            let k = 1 + self.sched.below(3) as u32;
            self.run_actors(k);
            self.hook_depth -= 1;
        }
        if is_write && len > 0 && !self.is_pending(fd) {
            if self.cfg.eagain_pm > 0 && self.sched.below(1000) < self.cfg.eagain_pm as u64 {
                self.stats.eagain_injected += 1;
                self.stats.fault("write_eagain");
                let d = self.sched.below(3) * 50_000;
                self.rearm.insert(fd, self.now + d);
                self.tr(0xF1, 0);
                return Some((-1, 0));
            }
            if len > 1 && self.cfg.short_write_pm > 0 && self.sched.below(1000) < self.cfg.short_write_pm as u64 {
                self.stats.short_writes_injected += 1;
                self.stats.fault("short_write");
                let nl = 1 + self.sched.below(len as u64 - 1) as usize;
                let d = self.sched.below(3) * 50_000;
                self.rearm.insert(fd, self.now + d);
                self.tr(0xF2, nl as u64);
                return Some((0, nl));
            }
        }
        None
    }

    pub fn post_io(&mut self, fd: i32, is_write: bool, req: usize, r: i64) {
        match self.sozu_fds.get(&fd) { Some('a') | Some('c') => {}, _ => return }
        self.logf(|| format!("sozu {} fd={fd} req={req} -> {r}", if is_write { "write" } else { "read" }));
        if self.sozu_fds.get(&fd) == Some(&'a') && self.served.insert(fd) {
            if self.served.len() > self.max_served { self.max_served = self.served.len(); }
        }
        if is_write {
            self.stats.sozu_writes += 1;
            if r >= 0 && (r as usize) < req { self.stats.sozu_partial_writes += 1; }
            if r == -(libc::EAGAIN as i64) {
                self.stats.sozu_write_eagain += 1;
                // sozu retries a blocked write in a tight loop (up to its MAX_LOOP_ITERATIONS budget) when
                // rustls still holds ciphertext. A peer running concurrently would drain meanwhile: after 16
                // consecutive would-block writes let the peers run, which is a legal schedule and keeps
                // such runs from costing minutes of wall time.
                self.eagain_streak += 1;
                if self.eagain_streak >= 16 && self.hook_depth == 0 {
                    self.eagain_streak = 0;
                    self.spin_breaks += 1;
                    self.stats.spin_breaks += 1;
                    self.hook_depth += 1;
                    for a in self.astate.iter_mut() { if !a.done && !(a.hard_sleep && a.wake_at.is_some()) { a.runnable = true; } }
                    // virtual time passes while sozu spins: a pausing peer resumes
                    if let Some(t) = self.next_wake() {
                        if t > self.now && t < self.now + 50 * MS { self.now = t; self.stats.clock_jumps += 1; }
                        self.fire_due();
                    }
                    self.run_actors(8);
                    self.hook_depth -= 1;
                }
            } else {
                self.eagain_streak = 0;
            }
            self.tr(0xD0, r as u64);
        } else {
            self.stats.sozu_reads += 1;
            if r == -(libc::EAGAIN as i64) { self.stats.sozu_read_eagain += 1; }
            if r > 0 && r as usize == req { self.stats.sozu_read_full += 1; }
            self.tr(0xD1, r as u64);
        }
    }
}
