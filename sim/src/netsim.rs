//! netsim: one real sozu worker (`Server::try_new_from_config(..).run()`) driven as a coroutine
//! of the simulator on a fresh thread.
#![allow(dead_code)]

use std::os::fd::IntoRawFd;
use std::panic::{catch_unwind, AssertUnwindSafe};

use mio::net::UnixStream;
use sozu_command_lib::{
    channel::Channel,
    config::{ConfigBuilder, FileConfig},
    proto::command::{ServerConfig, WorkerRequest, WorkerResponse},
    scm_socket::{Listeners, ScmSocket},
    state::ConfigState,
};
use sozu_lib::server::Server;

use crate::actors::master::Master;
use crate::actors::Quantum;
use crate::prng::Prng;
use crate::world::{SchedCfg, World};

#[derive(Clone, Debug, serde::Serialize, serde::Deserialize)]
pub struct Knobs {
    pub buffer_size: u64,
    pub min_buffers: u64,
    pub max_buffers: u64,
    pub max_connections: usize,
    pub front_timeout: u32,
    pub back_timeout: u32,
    pub connect_timeout: u32,
    pub request_timeout: u32,
    pub zombie_check_interval: u32,
    pub accept_queue_timeout: u32,
    pub command_buffer_size: u64,
    pub max_command_buffer_size: u64,
}
impl Default for Knobs {
    fn default() -> Self {
        Knobs {
            buffer_size: 16393,
            min_buffers: 1,
            max_buffers: 1000,
            max_connections: 500,
            front_timeout: 60,
            back_timeout: 30,
            connect_timeout: 3,
            request_timeout: 10,
            zombie_check_interval: 1800,
            accept_queue_timeout: 60,
            command_buffer_size: 16384,
            max_command_buffer_size: 163840,
        }
    }
}
impl Knobs {
    pub fn server_config(&self) -> ServerConfig {
        let fc = FileConfig {
            buffer_size: Some(self.buffer_size),
            min_buffers: Some(self.min_buffers),
            max_buffers: Some(self.max_buffers),
            max_connections: Some(self.max_connections),
            front_timeout: Some(self.front_timeout),
            back_timeout: Some(self.back_timeout),
            connect_timeout: Some(self.connect_timeout),
            request_timeout: Some(self.request_timeout),
            zombie_check_interval: Some(self.zombie_check_interval),
            accept_queue_timeout: Some(self.accept_queue_timeout),
            command_buffer_size: Some(self.command_buffer_size),
            max_command_buffer_size: Some(self.max_command_buffer_size),
            ..FileConfig::default()
        };
        let config = ConfigBuilder::new(fc, "").into_config().expect("config");
        ServerConfig::from(&config)
    }
}

pub struct WorkerHandles {
    pub master_fd: i32,
    pub scm_main: ScmSocket,
    pub channel: Option<Channel<WorkerResponse, WorkerRequest>>,
    pub scm_worker: Option<ScmSocket>,
}

/// Create the channel + scm pair a master would hand to a worker.
pub fn make_worker_endpoints(cfg: &ServerConfig) -> WorkerHandles {
    let (cmd_main, cmd_worker) = UnixStream::pair().expect("pair");
    let (scm_main, scm_worker) = UnixStream::pair().expect("pair");
    let channel: Channel<WorkerResponse, WorkerRequest> =
        Channel::new(cmd_worker, cfg.command_buffer_size, cfg.max_command_buffer_size);
    let master_fd = cmd_main.into_raw_fd();
    let scm_main = ScmSocket::new(scm_main.into_raw_fd()).expect("scm");
    let scm_worker = ScmSocket::new(scm_worker.into_raw_fd()).expect("scm");
    WorkerHandles { master_fd, scm_main, channel: Some(channel), scm_worker: Some(scm_worker) }
}

pub struct RunEnd {
    pub panicked: Option<String>,
    pub aborted: Option<String>,
    pub boot_error: Option<String>,
}

/// Runs one worker to completion on the *current* thread under `world`.
/// `setup` adds actors (it gets the master actor to fill its script).
pub fn run_worker(
    world: &mut Box<World>,
    server_config: ServerConfig,
    initial: ConfigState,
    listeners: Listeners,
    setup: impl FnOnce(&mut World, &mut Master),
) -> (RunEnd, usize) {
    World::install(world);
    let mut h = make_worker_endpoints(&server_config);
    h.scm_main.send_listeners(&listeners).expect("send listeners");
    let mrng = Prng::derive(world.seed, "master");
    let mut master = Master::new(h.master_fd, mrng, Quantum::All);
    setup(world, &mut master);
    world.abort_fd = Some(h.master_fd);
    let master_id = world.add_actor(Box::new(master));
    let initial_state = initial.produce_initial_state();
    let mut end = RunEnd { panicked: None, aborted: None, boot_error: None };
    let channel = h.channel.take().unwrap();
    let scm_worker = h.scm_worker.take().unwrap();
    let scm_main_fd = h.scm_main.raw_fd();
    let scm_worker_fd = scm_worker.raw_fd();
    if let Ok(level) = std::env::var("SIMK_SOZU_LOG") {
        let _ = sozu_command_lib::logging::setup_default_logging(false, &level, "SIM");
    }
    let r = catch_unwind(AssertUnwindSafe(|| {
        match Server::try_new_from_config(channel, scm_worker, server_config, initial_state, false) {
            Ok(mut server) => {
                server.run();
                drop(server);
                None
            }
            Err(e) => Some(format!("{e}")),
        }
    }));
    match r {
        Ok(None) => {}
        Ok(Some(e)) => end.boot_error = Some(e),
        Err(p) => {
            let msg = if let Some(s) = p.downcast_ref::<&str>() { s.to_string() } else if let Some(s) = p.downcast_ref::<String>() { s.clone() } else { "panic".into() };
            end.panicked = Some(msg);
        }
    }
    end.aborted = world.aborted.clone();
    if world.post_exit_drain_ns > 0 && end.panicked.is_none() { let ns = world.post_exit_drain_ns; world.drain_after_exit(ns); }
    world.stats.virtual_ns = world.now - 1000 * crate::world::SEC;
    World::uninstall();
    crate::sys::close(scm_main_fd);
    // ScmSocket has no Drop: the worker-side descriptor outlives the Server
    crate::sys::close(scm_worker_fd);
    (end, master_id)
}

/// Run `f` on a fresh thread (fresh thread-locals for sozu: TIMER, QUEUE, METRICS, hash keys).
pub fn on_fresh_thread<T: Send + 'static>(f: impl FnOnce() -> T + Send + 'static) -> T {
    std::thread::Builder::new()
        .stack_size(16 << 20)
        .spawn(f)
        .expect("spawn")
        .join()
        .expect("simulation thread panicked outside catch_unwind")
}

pub fn default_sched(rng: &mut Prng, faulty: bool) -> SchedCfg {
    let mut c = SchedCfg::default();
    c.actor_burst = *rng.pick(&[1u32, 2, 4, 8]);
    c.ev_truncate_pm = *rng.pick(&[0u32, 0, 100, 400]);
    c.ev_permute_pm = *rng.pick(&[0u32, 0, 200, 800]);
    c.preempt_pm = *rng.pick(&[0u32, 0, 50, 300]);
    if faulty {
        c.short_write_pm = *rng.pick(&[0u32, 20, 100, 300]);
        c.eagain_pm = *rng.pick(&[0u32, 10, 50, 150]);
    }
    c
}

/// number of open descriptors of this process (leak audit between runs)
pub fn open_fds() -> Vec<i32> {
    let mut v: Vec<i32> = std::fs::read_dir("/proc/self/fd").map(|d| d.filter_map(|e| e.ok()?.file_name().to_str()?.parse().ok()).collect()).unwrap_or_default();
    // the directory handle used for the listing shows up in it: keep only descriptors that still exist
    v.retain(|fd| crate::sys::fcntl(*fd, libc::F_GETFD, 0).is_ok());
    v.sort();
    v
}
