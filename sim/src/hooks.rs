//! libc symbols interposed by the harness executable. A symbol defined in the executable wins
//! over libc.so for std, mio, socket2, nix, rand, getrandom and sozu itself; nothing in /repo
//! changes. Every hook is a raw pass-through unless the calling thread is a simulation thread.
#![allow(clippy::missing_safety_doc)]

use std::net::{IpAddr, Ipv4Addr, Ipv6Addr, SocketAddr};

use libc::{c_int, c_long, c_void, size_t, sockaddr, socklen_t, ssize_t};

use crate::sys::{self, ret_errno, sc};
use crate::world::{with_world, World, EPOCH_S};

// ------------------------------------------------------------------ sockaddr helpers

unsafe fn read_sockaddr(addr: *const sockaddr, len: socklen_t) -> Option<SocketAddr> {
    if addr.is_null() || (len as usize) < 2 {
        return None;
    }
    unsafe {
        match (*addr).sa_family as c_int {
            libc::AF_INET if len as usize >= std::mem::size_of::<libc::sockaddr_in>() => {
                let a = &*(addr as *const libc::sockaddr_in);
                let ip = Ipv4Addr::from(u32::from_be(a.sin_addr.s_addr));
                Some(SocketAddr::new(IpAddr::V4(ip), u16::from_be(a.sin_port)))
            }
            libc::AF_INET6 if len as usize >= std::mem::size_of::<libc::sockaddr_in6>() => {
                let a = &*(addr as *const libc::sockaddr_in6);
                let ip = Ipv6Addr::from(a.sin6_addr.s6_addr);
                Some(SocketAddr::new(IpAddr::V6(ip), u16::from_be(a.sin6_port)))
            }
            _ => None,
        }
    }
}

unsafe fn write_sockaddr(sa: &SocketAddr, addr: *mut sockaddr, len: *mut socklen_t) {
    if addr.is_null() || len.is_null() {
        return;
    }
    unsafe {
        let cap = *len as usize;
        match sa {
            SocketAddr::V4(v4) => {
                let mut a: libc::sockaddr_in = std::mem::zeroed();
                a.sin_family = libc::AF_INET as u16;
                a.sin_port = v4.port().to_be();
                a.sin_addr.s_addr = u32::from(*v4.ip()).to_be();
                let n = std::mem::size_of::<libc::sockaddr_in>();
                std::ptr::copy_nonoverlapping(&a as *const _ as *const u8, addr as *mut u8, n.min(cap));
                *len = n as socklen_t;
            }
            SocketAddr::V6(v6) => {
                let mut a: libc::sockaddr_in6 = std::mem::zeroed();
                a.sin6_family = libc::AF_INET6 as u16;
                a.sin6_port = v6.port().to_be();
                a.sin6_addr.s6_addr = v6.ip().octets();
                let n = std::mem::size_of::<libc::sockaddr_in6>();
                std::ptr::copy_nonoverlapping(&a as *const _ as *const u8, addr as *mut u8, n.min(cap));
                *len = n as socklen_t;
            }
        }
    }
}

fn sock_type(fd: c_int) -> c_int {
    let mut ty: c_int = 0;
    let mut l: socklen_t = 4;
    let r = unsafe { sc!(libc::SYS_getsockopt, fd, libc::SOL_SOCKET, libc::SO_TYPE, &mut ty as *mut c_int, &mut l as *mut socklen_t) };
    if r < 0 { -1 } else { ty }
}

// ------------------------------------------------------------------ time & entropy

#[unsafe(no_mangle)]
pub unsafe extern "C" fn clock_gettime(clk: libc::clockid_t, ts: *mut libc::timespec) -> c_int {
    let v = with_world(|w| w.now);
    match v {
        Some(now) if !ts.is_null() => {
            let (s, ns) = match clk {
                libc::CLOCK_REALTIME | libc::CLOCK_REALTIME_COARSE | libc::CLOCK_TAI => {
                    (EPOCH_S + now / 1_000_000_000, now % 1_000_000_000)
                }
                _ => (now / 1_000_000_000, now % 1_000_000_000),
            };
            unsafe {
                (*ts).tv_sec = s as i64;
                (*ts).tv_nsec = ns as i64;
            }
            0
        }
        _ => unsafe { ret_errno(sc!(libc::SYS_clock_gettime, clk, ts)) as c_int },
    }
}

#[unsafe(no_mangle)]
pub unsafe extern "C" fn getrandom(buf: *mut c_void, len: size_t, flags: libc::c_uint) -> ssize_t {
    let done = with_world(|w| {
        let s = unsafe { std::slice::from_raw_parts_mut(buf as *mut u8, len) };
        w.fill_entropy(s);
    });
    match done {
        Some(()) => len as ssize_t,
        None => unsafe { ret_errno(sc!(libc::SYS_getrandom, buf, len, flags)) as ssize_t },
    }
}

/// `syscall(2)` wrapper: variadic in C; on x86-64 SysV the variadic arguments arrive in the same
/// registers as fixed ones, so a fixed 7-argument definition is ABI compatible.
#[unsafe(no_mangle)]
pub unsafe extern "C" fn syscall(n: c_long, a1: c_long, a2: c_long, a3: c_long, a4: c_long, a5: c_long, a6: c_long) -> c_long {
    if n == libc::SYS_getrandom {
        let done = with_world(|w| {
            let s = unsafe { std::slice::from_raw_parts_mut(a1 as *mut u8, a2 as usize) };
            w.fill_entropy(s);
        });
        if done.is_some() {
            return a2;
        }
    }
    unsafe { ret_errno(sys::syscall6(n, a1, a2, a3, a4, a5, a6)) }
}

// ------------------------------------------------------------------ epoll

#[unsafe(no_mangle)]
pub unsafe extern "C" fn epoll_wait(epfd: c_int, events: *mut libc::epoll_event, maxevents: c_int, timeout: c_int) -> c_int {
    let wp = crate::world::CUR.with(|c| c.get());
    if !wp.is_null() {
        return crate::world::epoll_wait_entry(wp, epfd, events, maxevents, timeout);
    }
    unsafe { ret_errno(sc!(libc::SYS_epoll_wait, epfd, events, maxevents, timeout)) as c_int }
}

#[unsafe(no_mangle)]
pub unsafe extern "C" fn epoll_pwait(epfd: c_int, events: *mut libc::epoll_event, maxevents: c_int, timeout: c_int, sigmask: *const libc::sigset_t) -> c_int {
    let wp = crate::world::CUR.with(|c| c.get());
    if !wp.is_null() {
        return crate::world::epoll_wait_entry(wp, epfd, events, maxevents, timeout);
    }
    unsafe { ret_errno(sc!(libc::SYS_epoll_pwait, epfd, events, maxevents, timeout, sigmask, 8)) as c_int }
}

#[unsafe(no_mangle)]
pub unsafe extern "C" fn epoll_ctl(epfd: c_int, op: c_int, fd: c_int, ev: *mut libc::epoll_event) -> c_int {
    if let Some(Some(r)) = with_world(|w| w.on_epoll_ctl(epfd, op, fd, ev)) {
        return r;
    }
    unsafe { ret_errno(sc!(libc::SYS_epoll_ctl, epfd, op, fd, ev)) as c_int }
}

// ------------------------------------------------------------------ sockets

unsafe fn do_accept(fd: c_int, addr: *mut sockaddr, len: *mut socklen_t, flags: c_int) -> c_int {
    let simulated = crate::world::in_sim()
        && sys::getsockname_un(fd).ok().map_or(false, |n| n.starts_with(b"simk/"));
    if !simulated {
        return unsafe { ret_errno(sc!(libc::SYS_accept4, fd, addr, len, flags)) as c_int };
    }
    match sys::accept_unix(fd, flags) {
        Ok((nfd, name)) => {
            let peer = World::parse_name(&name).unwrap_or_else(|| "0.0.0.0:0".parse().unwrap());
            unsafe { write_sockaddr(&peer, addr, len) };
            with_world(|w| {
                w.stats.accepts += 1;
                w.sozu_fds.insert(nfd, 'a');
                w.accepted_peer.insert(nfd, peer);
                let pr = crate::world::PROC_ID.with(|p| p.get());
                let now = w.now;
                w.accept_log.push((pr, now));
                w.accept_peers.push(peer);
                if w.accepted_peer.len() > w.max_open_accepted { w.max_open_accepted = w.accepted_peer.len(); }
                w.tr(0xAC, peer.port() as u64);
                w.on_sozu_socket(nfd);
            });
            nfd
        }
        Err(e) => {
            sys::set_errno(e);
            -1
        }
    }
}

#[unsafe(no_mangle)]
pub unsafe extern "C" fn accept4(fd: c_int, addr: *mut sockaddr, len: *mut socklen_t, flags: c_int) -> c_int {
    unsafe { do_accept(fd, addr, len, flags) }
}
#[unsafe(no_mangle)]
pub unsafe extern "C" fn accept(fd: c_int, addr: *mut sockaddr, len: *mut socklen_t) -> c_int {
    unsafe { do_accept(fd, addr, len, 0) }
}

unsafe fn name_query(nr: c_long, fd: c_int, addr: *mut sockaddr, len: *mut socklen_t) -> c_int {
    if crate::world::in_sim() {
        if nr == libc::SYS_getpeername {
            // a "connected" simulated UDP socket: the peer is kept by the world (the stand-in stays unconnected)
            if let Some(Some(p)) = with_world(|w| w.udp_peer.get(&fd).copied()) {
                unsafe { write_sockaddr(&p, addr, len) };
                return 0;
            }
        }
        let name = if nr == libc::SYS_getpeername { sys::getpeername_un(fd) } else { sys::getsockname_un(fd) };
        match name {
            Ok(n) if n.starts_with(b"simk/") => {
                if let Some(sa) = World::parse_name(&n) {
                    unsafe { write_sockaddr(&sa, addr, len) };
                    return 0;
                }
            }
            Ok(_) => {}
            Err(e) if e == libc::ENOTCONN || e == libc::EBADF || e == libc::ENOTSOCK => {
                sys::set_errno(e);
                return -1;
            }
            Err(_) => {}
        }
    }
    unsafe { ret_errno(sys::syscall6(nr, fd as i64, addr as i64, len as i64, 0, 0, 0)) as c_int }
}

#[unsafe(no_mangle)]
pub unsafe extern "C" fn getpeername(fd: c_int, addr: *mut sockaddr, len: *mut socklen_t) -> c_int {
    unsafe { name_query(libc::SYS_getpeername, fd, addr, len) }
}
#[unsafe(no_mangle)]
pub unsafe extern "C" fn getsockname(fd: c_int, addr: *mut sockaddr, len: *mut socklen_t) -> c_int {
    unsafe { name_query(libc::SYS_getsockname, fd, addr, len) }
}

#[unsafe(no_mangle)]
pub unsafe extern "C" fn connect(fd: c_int, addr: *const sockaddr, len: socklen_t) -> c_int {
    if crate::world::in_sim() {
        if let Some(dst) = unsafe { read_sockaddr(addr, len) } {
            match sock_type(fd) {
                libc::SOCK_STREAM => {
                    return with_world(|w| w.on_connect(fd, dst)).unwrap();
                }
                libc::SOCK_DGRAM => {
                    return with_world(|w| w.on_udp_connect(fd, dst)).unwrap();
                }
                _ => {}
            }
        }
    }
    unsafe { ret_errno(sc!(libc::SYS_connect, fd, addr, len)) as c_int }
}

#[unsafe(no_mangle)]
pub unsafe extern "C" fn bind(fd: c_int, addr: *const sockaddr, len: socklen_t) -> c_int {
    if crate::world::in_sim() {
        if let Some(a) = unsafe { read_sockaddr(addr, len) } {
            let ty = sock_type(fd);
            if ty == libc::SOCK_STREAM || ty == libc::SOCK_DGRAM {
                let r = with_world(|w| w.on_bind(fd, a, ty)).unwrap();
                return r;
            }
        }
    }
    unsafe { ret_errno(sc!(libc::SYS_bind, fd, addr, len)) as c_int }
}

#[unsafe(no_mangle)]
pub unsafe extern "C" fn setsockopt(fd: c_int, level: c_int, name: c_int, val: *const c_void, len: socklen_t) -> c_int {
    let r = unsafe { sc!(libc::SYS_setsockopt, fd, level, name, val, len) };
    if r < 0 && crate::world::in_sim() {
        // TCP/IP-level options and SO_REUSEPORT & co. do not exist on the AF_UNIX stand-ins
        if level == libc::IPPROTO_TCP || level == libc::IPPROTO_IP || level == libc::IPPROTO_IPV6 || level == libc::SOL_SOCKET {
            return 0;
        }
    }
    unsafe { ret_errno(r) as c_int }
}

#[unsafe(no_mangle)]
pub unsafe extern "C" fn getsockopt(fd: c_int, level: c_int, name: c_int, val: *mut c_void, len: *mut socklen_t) -> c_int {
    if level == libc::SOL_SOCKET && name == libc::SO_ERROR {
        if let Some(Some(e)) = with_world(|w| w.take_so_error(fd)) {
            unsafe {
                *(val as *mut c_int) = e;
                if !len.is_null() { *len = 4; }
            }
            return 0;
        }
    }
    unsafe { ret_errno(sc!(libc::SYS_getsockopt, fd, level, name, val, len)) as c_int }
}

#[unsafe(no_mangle)]
pub unsafe extern "C" fn close(fd: c_int) -> c_int {
    with_world(|w| w.on_close(fd));
    unsafe { ret_errno(sc!(libc::SYS_close, fd)) as c_int }
}

#[unsafe(no_mangle)]
pub unsafe extern "C" fn shutdown(fd: c_int, how: c_int) -> c_int {
    if how == libc::SHUT_WR || how == libc::SHUT_RDWR {
        with_world(|w| { if w.sozu_fds.contains_key(&fd) { w.shut_wr.insert(fd); } });
    }
    unsafe { ret_errno(sc!(libc::SYS_shutdown, fd, how)) as c_int }
}

#[unsafe(no_mangle)]
pub unsafe extern "C" fn kill(pid: libc::pid_t, sig: c_int) -> c_int {
    if with_world(|w| { w.stats.kills += 1; w.kills.push((pid, sig)); w.tr(0x4B, pid as u64); }).is_some() {
        return 0;
    }
    unsafe { ret_errno(sc!(libc::SYS_kill, pid, sig)) as c_int }
}

// ------------------------------------------------------------------ data path (stats, preemption, buggify)

#[derive(Clone, Copy)]
enum Dir { R, W }

/// Returns Some(forced result) if the simulator decides the call's outcome, None to perform it.
fn pre_io(fd: c_int, dir: Dir, len: usize) -> Option<(ssize_t, usize)> {
    with_world(|w| w.pre_io(fd, matches!(dir, Dir::W), len)).flatten()
}
fn post_io(fd: c_int, dir: Dir, req: usize, r: i64) {
    with_world(|w| w.post_io(fd, matches!(dir, Dir::W), req, r));
}

#[unsafe(no_mangle)]
pub unsafe extern "C" fn send(fd: c_int, buf: *const c_void, len: size_t, flags: c_int) -> ssize_t {
    if udp_fd(fd) { return unsafe { udp_send(fd, buf, len, flags, std::ptr::null(), 0) }; }
    let mut l = len;
    if let Some((forced, nl)) = pre_io(fd, Dir::W, len) {
        if forced < 0 { sys::set_errno(libc::EAGAIN); return -1; }
        l = nl;
    }
    let r = unsafe { sc!(libc::SYS_sendto, fd, buf, l, flags, 0, 0) };
    post_io(fd, Dir::W, len, r);
    unsafe { ret_errno(r) as ssize_t }
}
#[unsafe(no_mangle)]
pub unsafe extern "C" fn write(fd: c_int, buf: *const c_void, len: size_t) -> ssize_t {
    let mut l = len;
    if let Some((forced, nl)) = pre_io(fd, Dir::W, len) {
        if forced < 0 { sys::set_errno(libc::EAGAIN); return -1; }
        l = nl;
    }
    let r = unsafe { sc!(libc::SYS_write, fd, buf, l) };
    post_io(fd, Dir::W, len, r);
    unsafe { ret_errno(r) as ssize_t }
}
#[unsafe(no_mangle)]
pub unsafe extern "C" fn writev(fd: c_int, iov: *const libc::iovec, cnt: c_int) -> ssize_t {
    let total: usize = if crate::world::in_sim() && !iov.is_null() && cnt > 0 {
        unsafe { std::slice::from_raw_parts(iov, cnt as usize) }.iter().map(|v| v.iov_len).sum()
    } else { 0 };
    if let Some((forced, nl)) = pre_io(fd, Dir::W, total) {
        if forced < 0 { sys::set_errno(libc::EAGAIN); return -1; }
        if nl < total {
            // short vectored write: truncate the iovec list to nl bytes
            let src = unsafe { std::slice::from_raw_parts(iov, cnt as usize) };
            let mut v: Vec<libc::iovec> = Vec::with_capacity(src.len());
            let mut left = nl;
            for e in src {
                if left == 0 { break; }
                let take = e.iov_len.min(left);
                v.push(libc::iovec { iov_base: e.iov_base, iov_len: take });
                left -= take;
            }
            let r = unsafe { sc!(libc::SYS_writev, fd, v.as_ptr(), v.len()) };
            post_io(fd, Dir::W, total, r);
            return unsafe { ret_errno(r) as ssize_t };
        }
    }
    let r = unsafe { sc!(libc::SYS_writev, fd, iov, cnt) };
    post_io(fd, Dir::W, total, r);
    unsafe { ret_errno(r) as ssize_t }
}
#[unsafe(no_mangle)]
pub unsafe extern "C" fn recv(fd: c_int, buf: *mut c_void, len: size_t, flags: c_int) -> ssize_t {
    crate::clustersim::coop_block(fd);
    if udp_fd(fd) { return unsafe { udp_recv(fd, buf, len, flags, std::ptr::null_mut(), std::ptr::null_mut()) }; }
    if let Some((forced, _)) = pre_io(fd, Dir::R, len) { if forced < 0 { sys::set_errno(libc::EAGAIN); return -1; } }
    let r = unsafe { sc!(libc::SYS_recvfrom, fd, buf, len, flags, 0, 0) };
    post_io(fd, Dir::R, len, r);
    unsafe { ret_errno(r) as ssize_t }
}
#[unsafe(no_mangle)]
pub unsafe extern "C" fn read(fd: c_int, buf: *mut c_void, len: size_t) -> ssize_t {
    crate::clustersim::coop_block(fd);
    if let Some((forced, _)) = pre_io(fd, Dir::R, len) { if forced < 0 { sys::set_errno(libc::EAGAIN); return -1; } }
    let r = unsafe { sc!(libc::SYS_read, fd, buf, len) };
    post_io(fd, Dir::R, len, r);
    unsafe { ret_errno(r) as ssize_t }
}
/// `recvmsg` (SCM_RIGHTS transfers of listeners): only the cooperative-blocking point of the cluster tier.
#[unsafe(no_mangle)]
pub unsafe extern "C" fn recvmsg(fd: c_int, msg: *mut libc::msghdr, flags: c_int) -> ssize_t {
    crate::clustersim::coop_block(fd);
    if !msg.is_null() && udp_fd(fd) { return unsafe { udp_recvmsg(fd, msg, flags) }; }
    let r = unsafe { sc!(libc::SYS_recvmsg, fd, msg, flags) };
    unsafe { ret_errno(r) as ssize_t }
}
#[unsafe(no_mangle)]
pub unsafe extern "C" fn readv(fd: c_int, iov: *const libc::iovec, cnt: c_int) -> ssize_t {
    let total: usize = if crate::world::in_sim() && !iov.is_null() && cnt > 0 {
        unsafe { std::slice::from_raw_parts(iov, cnt as usize) }.iter().map(|v| v.iov_len).sum()
    } else { 0 };
    if let Some((forced, _)) = pre_io(fd, Dir::R, total) { if forced < 0 { sys::set_errno(libc::EAGAIN); return -1; } }
    let r = unsafe { sc!(libc::SYS_readv, fd, iov, cnt) };
    post_io(fd, Dir::R, total, r);
    unsafe { ret_errno(r) as ssize_t }
}

// ------------------------------------------------------------------ simulated UDP (datagram seam, C19 shell tier)
//
// sozu's UDP sockets are AF_UNIX SOCK_DGRAM stand-ins bound to abstract names that carry the simulated address
// (World::on_udp_bind / on_udp_connect). The data calls translate addresses both ways: a destination sockaddr_in/in6
// becomes the destination's abstract name, the sender's abstract name comes back as the simulated source address.
// Everything below is a raw pass-through unless the descriptor is one of the world's simulated UDP sockets.

fn udp_fd(fd: c_int) -> bool {
    with_world(|w| w.is_udp(fd)).unwrap_or(false)
}

unsafe fn udp_send(fd: c_int, buf: *const c_void, len: size_t, flags: c_int, addr: *const sockaddr, alen: socklen_t) -> ssize_t {
    let dst = unsafe { read_sockaddr(addr, alen) };
    if !addr.is_null() && dst.is_none() {
        sys::set_errno(libc::EAFNOSUPPORT);
        return -1;
    }
    let data: &[u8] = if len == 0 || buf.is_null() { &[] } else { unsafe { std::slice::from_raw_parts(buf as *const u8, len) } };
    let r = with_world(|w| w.udp_sendto(fd, data, flags, dst)).unwrap();
    unsafe { ret_errno(r) as ssize_t }
}

unsafe fn udp_recv(fd: c_int, buf: *mut c_void, len: size_t, flags: c_int, addr: *mut sockaddr, alen: *mut socklen_t) -> ssize_t {
    let (r, src) = with_world(|w| w.udp_recvfrom(fd, buf as *mut u8, len, flags)).unwrap();
    if r >= 0 && !addr.is_null() && !alen.is_null() {
        let sa: SocketAddr = src.unwrap_or_else(|| "0.0.0.0:0".parse().unwrap());
        unsafe { write_sockaddr(&sa, addr, alen) };
    }
    unsafe { ret_errno(r) as ssize_t }
}

#[unsafe(no_mangle)]
pub unsafe extern "C" fn sendto(fd: c_int, buf: *const c_void, len: size_t, flags: c_int, addr: *const sockaddr, alen: socklen_t) -> ssize_t {
    if udp_fd(fd) { return unsafe { udp_send(fd, buf, len, flags, addr, alen) }; }
    unsafe { ret_errno(sc!(libc::SYS_sendto, fd, buf, len, flags, addr, alen)) as ssize_t }
}

#[unsafe(no_mangle)]
pub unsafe extern "C" fn recvfrom(fd: c_int, buf: *mut c_void, len: size_t, flags: c_int, addr: *mut sockaddr, alen: *mut socklen_t) -> ssize_t {
    if udp_fd(fd) { return unsafe { udp_recv(fd, buf, len, flags, addr, alen) }; }
    unsafe { ret_errno(sc!(libc::SYS_recvfrom, fd, buf, len, flags, addr, alen)) as ssize_t }
}

#[unsafe(no_mangle)]
pub unsafe extern "C" fn sendmsg(fd: c_int, msg: *const libc::msghdr, flags: c_int) -> ssize_t {
    if !msg.is_null() && udp_fd(fd) {
        // one datagram: gather the vector, translate msg_name (control data is not meaningful on the stand-in)
        let m = unsafe { &*msg };
        let mut data: Vec<u8> = Vec::new();
        if !m.msg_iov.is_null() {
            for v in unsafe { std::slice::from_raw_parts(m.msg_iov, m.msg_iovlen as usize) } {
                if v.iov_len > 0 && !v.iov_base.is_null() { data.extend_from_slice(unsafe { std::slice::from_raw_parts(v.iov_base as *const u8, v.iov_len) }); }
            }
        }
        return unsafe { udp_send(fd, data.as_ptr() as *const c_void, data.len(), flags, m.msg_name as *const sockaddr, m.msg_namelen) };
    }
    unsafe { ret_errno(sc!(libc::SYS_sendmsg, fd, msg, flags)) as ssize_t }
}

unsafe fn udp_recvmsg(fd: c_int, msg: *mut libc::msghdr, flags: c_int) -> ssize_t {
    let m = unsafe { &mut *msg };
    let iov: &[libc::iovec] = if m.msg_iov.is_null() { &[] } else { unsafe { std::slice::from_raw_parts(m.msg_iov, m.msg_iovlen as usize) } };
    let total: usize = iov.iter().map(|v| v.iov_len).sum();
    let mut tmp = vec![0u8; total.max(1)];
    let mut alen: socklen_t = m.msg_namelen;
    let r = unsafe { udp_recv(fd, tmp.as_mut_ptr() as *mut c_void, total, flags, m.msg_name as *mut sockaddr, &mut alen as *mut socklen_t) };
    if r >= 0 {
        let mut left = (r as usize).min(total);
        let mut off = 0usize;
        for v in iov {
            if left == 0 { break; }
            let take = v.iov_len.min(left);
            unsafe { std::ptr::copy_nonoverlapping(tmp.as_ptr().add(off), v.iov_base as *mut u8, take) };
            off += take;
            left -= take;
        }
        if !m.msg_name.is_null() { m.msg_namelen = alen; }
        m.msg_controllen = 0;
        m.msg_flags = 0;
    }
    r
}
