//! clustersim (tier C): the real master loop (`CommandHub::run`) AND real workers in one simulation.
//!
//! The hub runs on the calling thread (simulated process 0). Workers are created the way the real
//! main process creates them: `hub.server.launch_new_worker(..)` -> `fork_main_into_worker` runs its
//! *parent branch unmodified* (state file, channel pair, SCM pair, ServerConfig over the blocking
//! channel, listeners over SCM_RIGHTS, INITIAL-STATUS request). The `fork` symbol is interposed:
//! it returns a fake child pid to the parent and asks the simulator to spawn a thread that stands
//! in for the exec'd child. That thread receives duplicates of exactly the three descriptors the
//! real child inherits (found without any hook in sozu: the last two `socketpair()` calls of the
//! parent give the channel and SCM ends, the only new regular file without FD_CLOEXEC is the state
//! file) and runs the real `sozu::begin_worker_process` (re-exported by the `verif-hooks` feature of
//! the bin crate - the only hook in /repo). Blocking reads of the bootstrap (`read_message` on the
//! blocking channel, `receive_listeners`) are made cooperative: a read that would block parks the
//! simulated process on a private epoll instance through the ordinary scheduler.
//!
//! All cluster state lives in this module (not in `World`) so that engines which never switch the
//! cluster mode on are untouched.
#![allow(dead_code)]

use std::collections::BTreeSet;
use std::panic::{catch_unwind, AssertUnwindSafe};
use std::sync::atomic::{AtomicBool, Ordering};
use std::sync::{Arc, Mutex};

use libc::c_int;
use mio::net::UnixListener;
use sozu::command::server::{CommandHub, ServerState};
use sozu_command_lib::config::{Config, ConfigBuilder, FileConfig};

use crate::netsim::Knobs;
use crate::sys::{self, ret_errno, sc};
use crate::world::{in_sim, spawn_proc, with_world, World, CUR, SEC};

static ON: AtomicBool = AtomicBool::new(false);
static CLUSTER: Mutex<Option<Cluster>> = Mutex::new(None);

#[derive(Clone, Debug, Default)]
pub struct WorkerExit {
    /// simulated process index in the world (hub = 0)
    pub proc_id: usize,
    pub worker_index: u32,
    pub pid: i32,
    pub t_start: u64,
    pub t_exit: Option<u64>,
    pub error: Option<String>,
    pub panicked: Option<String>,
    /// crashed by the simulator at this virtual time (`crash_worker`)
    pub crashed_at: Option<u64>,
    /// the child's copies of the command channel and SCM socket descriptors
    pub chan_fd: i32,
    pub scm_fd: i32,
}

struct Cluster {
    wp: usize,
    pairs: Vec<(i32, i32)>,
    seen_regular: BTreeSet<i32>,
    forked: u32,
    handles: Vec<std::thread::JoinHandle<()>>,
    exits: Arc<Mutex<Vec<WorkerExit>>>,
    cbs: u64,
    mcbs: u64,
    log_level: Option<String>,
    /// virtual start-up delay of the k-th forked worker (exec, allocator and TLS start-up of a real process)
    boot_delays: Vec<u64>,
}

pub const FAKE_PID_BASE: i32 = 4_200_000;

fn regular_no_cloexec() -> BTreeSet<i32> {
    let mut out = BTreeSet::new();
    for fd in crate::netsim::open_fds() {
        if fd <= 2 { continue; }
        let fl = match sys::fcntl(fd, libc::F_GETFD, 0) { Ok(v) => v, Err(_) => continue };
        if fl & libc::FD_CLOEXEC as i64 != 0 { continue; }
        let mut st: libc::stat = unsafe { std::mem::zeroed() };
        let r = unsafe { sc!(libc::SYS_fstat, fd, &mut st as *mut libc::stat) };
        if r == 0 && (st.st_mode & libc::S_IFMT) == libc::S_IFREG { out.insert(fd); }
    }
    out
}

fn dup_cloexec(fd: i32) -> Option<i32> { sys::fcntl(fd, libc::F_DUPFD_CLOEXEC, 3).ok().map(|v| v as i32) }

/// Called by the `fork` hook on a simulation thread while the cluster mode is on.
fn on_fork() -> Option<libc::pid_t> {
    let mut g = CLUSTER.lock().unwrap();
    let c = g.as_mut()?;
    let n = c.pairs.len();
    if n < 2 { return None; }
    let (chan, scm) = (c.pairs[n - 2].1, c.pairs[n - 1].1);
    let now_reg = regular_no_cloexec();
    let state = now_reg.iter().rev().find(|fd| !c.seen_regular.contains(fd)).copied()?;
    let (chan, scm, state) = (dup_cloexec(chan)?, dup_cloexec(scm)?, dup_cloexec(state)?);
    // the child's copies of the channel and SCM ends keep the file status flags of the originals
    // (shared open file description), exactly as across a real fork
    let idx = c.forked;
    c.forked += 1;
    let pid = FAKE_PID_BASE + idx as i32;
    let (cbs, mcbs) = (c.cbs, c.mcbs);
    let exits = c.exits.clone();
    let wp = c.wp as *mut World;
    let log_level = c.log_level.clone();
    let t_start = unsafe { (*wp).now };
    let slot = { let mut e = exits.lock().unwrap(); e.push(WorkerExit { proc_id: 0, worker_index: idx, pid, t_start, chan_fd: chan, scm_fd: scm, ..Default::default() }); e.len() - 1 };
    let exits2 = exits.clone();
    let handle = spawn_proc(wp, &format!("worker{idx}"), move || {
        let r = catch_unwind(AssertUnwindSafe(|| {
            let r = sozu::begin_worker_process(chan, scm, state, idx as i32, cbs, mcbs);
            r.err().map(|e| e.to_string())
        }));
        let _ = &log_level;
        let now = with_world(|w| w.now).unwrap_or(0);
        let mut e = exits2.lock().unwrap();
        e[slot].t_exit = Some(now);
        match r {
            Ok(err) => e[slot].error = err,
            Err(p) => e[slot].panicked = Some(if let Some(s) = p.downcast_ref::<&str>() { s.to_string() } else if let Some(s) = p.downcast_ref::<String>() { s.clone() } else { "panic".into() }),
        }
        // ScmSocket has no Drop: the worker-side descriptor outlives the Server
        sys::close(scm);
    });
    let proc_id = unsafe { (*wp).procs.len() - 1 };
    let delay = c.boot_delays.get(idx as usize).copied().unwrap_or(0);
    { let w: &mut World = unsafe { &mut *wp }; w.procs[proc_id].start_at = w.now + delay; }
    exits.lock().unwrap()[slot].proc_id = proc_id;
    unsafe { (*wp).tr(0xF0, idx as u64); }
    c.handles.push(handle);
    Some(pid)
}

/// Crash worker number `worker_index` (in fork order) now: see `World::crash_proc`. Called from an actor.
pub fn crash_worker(w: &mut World, worker_index: u32) -> bool {
    let g = CLUSTER.lock().unwrap();
    let Some(c) = g.as_ref() else { return false };
    let mut e = c.exits.lock().unwrap();
    let Some(x) = e.iter_mut().find(|x| x.worker_index == worker_index) else { return false };
    if x.t_exit.is_some() || x.crashed_at.is_some() { return false; }
    let (pid, extra) = (x.proc_id, [x.chan_fd, x.scm_fd]);
    if w.procs.get(pid).map(|p| p.state) != Some(crate::world::P_PARKED) { return false; }
    w.crash_proc(pid, &extra);
    x.crashed_at = Some(w.now);
    true
}

// ------------------------------------------------------------------ interposed symbols

#[unsafe(no_mangle)]
pub unsafe extern "C" fn socketpair(domain: c_int, ty: c_int, proto: c_int, sv: *mut c_int) -> c_int {
    let r = unsafe { sc!(libc::SYS_socketpair, domain, ty, proto, sv) };
    if r == 0 && ON.load(Ordering::Relaxed) && in_sim() && !sv.is_null() {
        let (a, b) = unsafe { (*sv, *sv.add(1)) };
        if let Ok(mut g) = CLUSTER.try_lock() { if let Some(c) = g.as_mut() { c.pairs.push((a, b)); } }
    }
    unsafe { ret_errno(r) as c_int }
}

#[unsafe(no_mangle)]
pub unsafe extern "C" fn fork() -> libc::pid_t {
    if ON.load(Ordering::Relaxed) && in_sim() {
        if let Some(pid) = on_fork() { return pid; }
        sys::set_errno(libc::EAGAIN);
        return -1;
    }
    // not a simulated process: the real thing (std::process::Command may come here)
    type ForkFn = unsafe extern "C" fn() -> libc::pid_t;
    let p = unsafe { libc::dlsym(libc::RTLD_NEXT, c"fork".as_ptr()) };
    if p.is_null() { sys::set_errno(libc::ENOSYS); return -1; }
    let f: ForkFn = unsafe { std::mem::transmute(p) };
    unsafe { f() }
}

/// Cooperative blocking: called by the read-side hooks before the real call. If `fd` is a blocking
/// socket with nothing to read, the simulated process parks on a private epoll instance until the
/// scheduler reports the descriptor readable (or hung up).
pub fn coop_block(fd: c_int) {
    if !ON.load(Ordering::Relaxed) || !in_sim() { return; }
    let fl = match sys::fcntl(fd, libc::F_GETFL, 0) { Ok(v) => v, Err(_) => return };
    if fl & libc::O_NONBLOCK as i64 != 0 { return; }
    let mut st: libc::stat = unsafe { std::mem::zeroed() };
    let r = unsafe { sc!(libc::SYS_fstat, fd, &mut st as *mut libc::stat) };
    if r != 0 || (st.st_mode & libc::S_IFMT) != libc::S_IFSOCK { return; }
    let mut pfd = libc::pollfd { fd, events: libc::POLLIN, revents: 0 };
    let zero = libc::timespec { tv_sec: 0, tv_nsec: 0 };
    let pr = unsafe { sc!(libc::SYS_ppoll, &mut pfd as *mut libc::pollfd, 1, &zero as *const libc::timespec, 0, 0) };
    if pr != 0 { return; }
    let ep = unsafe { sc!(libc::SYS_epoll_create1, libc::EPOLL_CLOEXEC) } as i32;
    if ep < 0 { return; }
    let mut ev = libc::epoll_event { events: (libc::EPOLLIN | libc::EPOLLRDHUP) as u32, u64: 0xC00F };
    unsafe { sc!(libc::SYS_epoll_ctl, ep, libc::EPOLL_CTL_ADD, fd, &mut ev as *mut libc::epoll_event) };
    let wp = CUR.with(|c| c.get());
    let mut out = [libc::epoll_event { events: 0, u64: 0 }; 1];
    with_world(|w| w.tr(0xF1, 0));
    loop {
        let n = crate::world::epoll_wait_entry(wp, ep, out.as_mut_ptr(), 1, -1);
        if n != 0 { break; }
        if with_world(|w| w.aborted.is_some()).unwrap_or(true) {
            // the run is being torn down: make the pending read return instead of blocking for real
            let _ = sys::shutdown(fd, libc::SHUT_RD);
            break;
        }
    }
    sys::close(ep);
}

// ------------------------------------------------------------------ engine

#[derive(Clone, Debug, serde::Serialize, serde::Deserialize)]
pub struct ClusterKnobs {
    pub worker: Knobs,
    pub worker_timeout: u32,
    pub workers: u16,
    /// `worker_automatic_restart` of the main process
    #[serde(default)]
    pub automatic_restart: bool,
    /// virtual start-up delay of the k-th forked worker, ns (missing = 0)
    #[serde(default)]
    pub boot_delays: Vec<u64>,
}
impl Default for ClusterKnobs {
    fn default() -> Self { ClusterKnobs { worker: Knobs::default(), worker_timeout: 10, workers: 1, automatic_restart: false, boot_delays: vec![] } }
}

pub fn cluster_config(k: &ClusterKnobs) -> Config {
    let w = &k.worker;
    let fc = FileConfig {
        command_socket: Some("/nonexistent/clustersim/sozu.sock".into()),
        command_buffer_size: Some(w.command_buffer_size),
        max_command_buffer_size: Some(w.max_command_buffer_size),
        worker_count: Some(k.workers),
        worker_automatic_restart: Some(k.automatic_restart),
        worker_timeout: Some(k.worker_timeout),
        buffer_size: Some(w.buffer_size),
        min_buffers: Some(w.min_buffers),
        max_buffers: Some(w.max_buffers),
        max_connections: Some(w.max_connections),
        front_timeout: Some(w.front_timeout),
        back_timeout: Some(w.back_timeout),
        connect_timeout: Some(w.connect_timeout),
        request_timeout: Some(w.request_timeout),
        zombie_check_interval: Some(w.zombie_check_interval),
        accept_queue_timeout: Some(w.accept_queue_timeout),
        log_level: Some(std::env::var("SIMK_SOZU_LOG").unwrap_or_else(|_| "off".into())),
        log_target: Some("stdout".into()),
        ..FileConfig::default()
    };
    ConfigBuilder::new(fc, "/nonexistent/clustersim/config.toml").into_config().expect("cluster config")
}

/// Handle with which the controller can push a wedged hub out of `run()` (emergency only).
#[derive(Clone, Copy)]
pub struct ForceStop(*mut ServerState);
impl ForceStop {
    pub fn fire(&self) { unsafe { std::ptr::write_volatile(self.0, ServerState::Stopping) }; }
}

pub struct ClusterEnv {
    /// abstract name of the hub's command socket
    pub sock_name: Vec<u8>,
    pub force: ForceStop,
    pub exits: Arc<Mutex<Vec<WorkerExit>>>,
}

#[derive(Clone, Debug, Default)]
pub struct ClusterEnd {
    pub hub_panicked: Option<String>,
    pub hub_returned: bool,
    pub boot_error: Option<String>,
    pub aborted: Option<String>,
    pub t_hub_return: u64,
    pub kills: Vec<(i32, i32)>,
    pub workers: Vec<WorkerExit>,
}

static CTR: std::sync::atomic::AtomicU64 = std::sync::atomic::AtomicU64::new(0);

/// Watchdog of every cluster run: once the scripted CLI has finished (board "end"), the main process must leave `run()`
/// within two virtual minutes; it is then pushed (run_state = Stopping), and if it is still inside `run()` a minute
/// later the run is reported as `no_exit` and the process image is replaced (framework::fatal_violation).
struct HubWatchdog { force: ForceStop, deadline: u64, pushed: bool }
impl crate::world::Actor for HubWatchdog {
    fn name(&self) -> String { "hub-watchdog".into() }
    fn as_any(&mut self) -> &mut dyn std::any::Any { self }
    fn as_any_ref(&self) -> &dyn std::any::Any { self }
    fn class(&self) -> u8 { 2 }
    fn step(&mut self, w: &mut World) -> crate::world::Step {
        use crate::world::Step;
        if w.board_get("hub_returned") > 0 { return Step::Done; }
        if w.board_get("end") == 0 { return Step::Blocked; }
        if self.deadline == 0 { self.deadline = w.now + 120 * SEC; }
        if w.now < self.deadline { return Step::Idle(self.deadline); }
        if !self.pushed { self.pushed = true; self.force.fire(); self.deadline = w.now + 60 * SEC; return Step::Idle(self.deadline); }
        eprintln!("clustersim: the main process does not leave run() even when forced");
        crate::framework::fatal_violation(w.seed, "cluster_main_wedged", "the main process ignores its own Stopping state", crate::framework::Violation::new("no_exit", "main_process_never_leaves_run", "the main process was told to stop (run_state = Stopping) and was still inside run() a virtual minute later".to_string()));
    }
}

/// Runs one cluster (hub + workers) to completion. The hub runs on the *current* thread, which must be
/// a fresh thread with `world` not yet installed. `setup` adds the actors.
pub fn run_cluster(world: &mut Box<World>, knobs: &ClusterKnobs, setup: impl FnOnce(&mut World, &ClusterEnv)) -> ClusterEnd {
    World::install(world);
    world.procs[0].name = "hub".into();
    world.reuseport = true;
    let mut end = ClusterEnd::default();
    let n = CTR.fetch_add(1, Ordering::SeqCst);
    let sock_name = format!("clustersim/{}.{}", sys::getpid(), n).into_bytes();
    let listener = {
        use std::os::linux::net::SocketAddrExt;
        let addr = std::os::unix::net::SocketAddr::from_abstract_name(&sock_name).expect("abstract name");
        UnixListener::bind_addr(&addr)
    };
    let listener = match listener { Ok(l) => l, Err(e) => { end.boot_error = Some(format!("bind: {e}")); World::uninstall(); return end; } };
    let config = cluster_config(knobs);
    let exits = Arc::new(Mutex::new(Vec::new()));
    {
        let wp: *mut World = &mut **world;
        *CLUSTER.lock().unwrap() = Some(Cluster {
            wp: wp as usize, pairs: Vec::new(), seen_regular: regular_no_cloexec(), forked: 0, handles: Vec::new(), exits: exits.clone(),
            cbs: knobs.worker.command_buffer_size, mcbs: knobs.worker.max_command_buffer_size, log_level: None, boot_delays: knobs.boot_delays.clone(),
        });
        ON.store(true, Ordering::SeqCst);
    }
    // this thread's logger: off (see hubsim)
    if let Ok(level) = std::env::var("SIMK_SOZU_LOG") {
        let _ = sozu_command_lib::logging::setup_default_logging(false, &level, "HUB");
    } else {
        let (directives, _) = sozu_command_lib::logging::parse_logging_spec("off");
        sozu_command_lib::logging::LOGGER.with(|l| l.borrow_mut().set_directives(directives));
    }
    let mut hub = match CommandHub::new(listener, config, "/nonexistent/clustersim/sozu".to_string()) {
        Ok(h) => Some(h),
        Err(e) => { end.boot_error = Some(format!("{e}")); None }
    };
    if let Some(h) = hub.as_mut() {
        // as bin/src/command/mod.rs::begin_main_process: workers first, configuration afterwards
        for _ in 0..knobs.workers {
            if let Err(e) = h.server.launch_new_worker(None) { end.boot_error = Some(format!("launch_new_worker: {e}")); break; }
        }
    }
    if let Some(h) = hub.as_mut() {
        let env = ClusterEnv { sock_name, force: ForceStop(&mut h.server.run_state as *mut ServerState), exits: exits.clone() };
        setup(world, &env);
        world.add_actor(Box::new(HubWatchdog { force: env.force, deadline: 0, pushed: false }));
    }
    if end.boot_error.is_none() {
        let h = hub.as_mut().unwrap();
        match catch_unwind(AssertUnwindSafe(|| { h.run(); })) {
            Ok(()) => end.hub_returned = true,
            Err(p) => end.hub_panicked = Some(if let Some(s) = p.downcast_ref::<&str>() { s.to_string() } else if let Some(s) = p.downcast_ref::<String>() { s.clone() } else { "panic".into() }),
        }
    }
    end.t_hub_return = world.now;
    world.tr(0x4E, end.hub_returned as u64);
    world.board_set("hub_returned", 1);
    // the hub is gone: its listener, epoll instance and every worker channel close (workers see EOF)
    let scm_fds: Vec<i32> = hub.as_ref().map(|h| h.server.workers.values().map(|w| w.scm_socket.raw_fd()).collect()).unwrap_or_default();
    if catch_unwind(AssertUnwindSafe(move || drop(hub))).is_err() && end.hub_panicked.is_none() { end.hub_panicked = Some("panic while dropping the hub".into()); }
    for fd in scm_fds { sys::close(fd); }
    // hand the baton on until every worker has left its loop
    let wp: *mut World = &mut **world;
    crate::world::proc_exit(wp);
    let handles = { let mut g = CLUSTER.lock().unwrap(); g.as_mut().map(|c| std::mem::take(&mut c.handles)).unwrap_or_default() };
    // a crashed worker's thread is parked for good (its stack and heap are the dead process's memory): never joined
    let crashed: Vec<bool> = { let e = exits.lock().unwrap(); (0..handles.len()).map(|i| e.iter().any(|x| x.worker_index == i as u32 && x.crashed_at.is_some())).collect() };
    for (i, h) in handles.into_iter().enumerate() { if !crashed[i] { let _ = h.join(); } }
    World::install(world);
    ON.store(false, Ordering::SeqCst);
    *CLUSTER.lock().unwrap() = None;
    end.workers = exits.lock().unwrap().clone();
    end.aborted = world.aborted.clone();
    end.kills = world.kills.clone();
    world.stats.virtual_ns = world.now.saturating_sub(1000 * SEC);
    World::uninstall();
    end
}
