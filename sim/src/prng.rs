//! Deterministic PRNG (splitmix64 / xoshiro256**). Every simulator decision derives from one seed.

#[derive(Clone, Debug)]
pub struct Prng {
    s: [u64; 4],
}

fn splitmix(x: &mut u64) -> u64 {
    *x = x.wrapping_add(0x9E3779B97F4A7C15);
    let mut z = *x;
    z = (z ^ (z >> 30)).wrapping_mul(0xBF58476D1CE4E5B9);
    z = (z ^ (z >> 27)).wrapping_mul(0x94D049BB133111EB);
    z ^ (z >> 31)
}

impl Prng {
    pub fn new(seed: u64) -> Self {
        let mut x = seed ^ 0x5151_5151_dead_beef;
        Prng { s: [splitmix(&mut x), splitmix(&mut x), splitmix(&mut x), splitmix(&mut x)] }
    }
    /// Independent sub-stream named by a label (so adding a stream does not perturb others).
    pub fn derive(seed: u64, label: &str) -> Self {
        let mut h = 0xcbf29ce484222325u64;
        for b in label.bytes() {
            h ^= b as u64;
            h = h.wrapping_mul(0x100000001b3);
        }
        Prng::new(seed ^ h.rotate_left(17))
    }
    pub fn fork(&mut self, label: &str) -> Self {
        let s = self.next_u64();
        Prng::derive(s, label)
    }
    pub fn next_u64(&mut self) -> u64 {
        let r = self.s[1].wrapping_mul(5).rotate_left(7).wrapping_mul(9);
        let t = self.s[1] << 17;
        self.s[2] ^= self.s[0];
        self.s[3] ^= self.s[1];
        self.s[1] ^= self.s[2];
        self.s[0] ^= self.s[3];
        self.s[2] ^= t;
        self.s[3] = self.s[3].rotate_left(45);
        r
    }
    /// uniform in [0, n)
    pub fn below(&mut self, n: u64) -> u64 {
        if n == 0 { 0 } else { self.next_u64() % n }
    }
    pub fn range(&mut self, lo: u64, hi_incl: u64) -> u64 {
        if hi_incl <= lo { lo } else { lo + self.below(hi_incl - lo + 1) }
    }
    pub fn chance(&mut self, num: u64, den: u64) -> bool {
        self.below(den) < num
    }
    pub fn pick<'a, T>(&mut self, v: &'a [T]) -> &'a T {
        &v[self.below(v.len() as u64) as usize]
    }
    pub fn fill(&mut self, buf: &mut [u8]) {
        for ch in buf.chunks_mut(8) {
            let v = self.next_u64().to_le_bytes();
            ch.copy_from_slice(&v[..ch.len()]);
        }
    }
    pub fn shuffle<T>(&mut self, v: &mut [T]) {
        for i in (1..v.len()).rev() {
            let j = self.below(i as u64 + 1) as usize;
            v.swap(i, j);
        }
    }
}

/// 64-bit rolling hash of the decision/syscall trace: the run's fingerprint.
#[derive(Clone, Debug)]
pub struct TraceHash(pub u64, pub u64);
impl TraceHash {
    pub fn new() -> Self { TraceHash(0xcbf29ce484222325, 0) }
    #[inline]
    pub fn mix(&mut self, v: u64) {
        self.0 = (self.0 ^ v).wrapping_mul(0x100000001b3).rotate_left(23) ^ (v >> 7);
        self.1 += 1;
    }
    pub fn mix_bytes(&mut self, b: &[u8]) {
        for c in b { self.mix(*c as u64); }
    }
}
