//! Batch driver shared by all properties: seeded plan generation, parallel execution in child
//! processes, determinism re-checks, confirmation + minimisation of violations, replay files,
//! known-finding matching and evidence output.
#![allow(dead_code)]

use std::collections::{BTreeMap, BTreeSet};
use std::io::{BufRead, Write};
use std::process::{Command, Stdio};
use std::time::{Duration, Instant};

use serde::{Deserialize, Serialize};
use serde_json::{json, Value};

use crate::world::Stats;

#[derive(Clone, Copy, Debug, PartialEq, Serialize, Deserialize)]
pub enum Tier {
    Quick,
    Thorough,
}
impl Tier {
    pub fn name(&self) -> &'static str {
        match self { Tier::Quick => "quick", Tier::Thorough => "thorough" }
    }
}

#[derive(Clone, Debug, Serialize, Deserialize, PartialEq)]
pub struct Violation {
    /// oracle class, e.g. "body_mismatch"
    pub class: String,
    /// normalised key identifying *what* fails (used to match known findings)
    pub key: String,
    pub detail: String,
}
impl Violation {
    pub fn new(class: &str, key: impl Into<String>, detail: impl Into<String>) -> Violation {
        Violation { class: class.into(), key: key.into(), detail: detail.into() }
    }
}

#[derive(Clone, Debug, Default, Serialize, Deserialize)]
pub struct RunReport {
    pub seed: u64,
    pub family: String,
    pub violations: Vec<Violation>,
    pub trace_hash: u64,
    /// did this run do real work by the property's rule (e.g. >=1 request completed end-to-end)
    pub nontrivial: bool,
    pub stats: Stats,
    /// reach probes and counters specific to the property
    pub probes: BTreeMap<String, u64>,
    /// harness problem (not a property verdict): exit 2
    pub harness_error: Option<String>,
    /// short human-readable form of the plan (for evidence samples)
    pub summary: String,
}

pub struct Descr {
    pub level: &'static str,
    pub rule: &'static str,
    pub assumptions: Vec<&'static str>,
    pub real: Vec<&'static str>,
    pub stub: Vec<&'static str>,
    pub not_covered: Vec<&'static str>,
}

pub trait Property: Sync {
    fn id(&self) -> &'static str;
    /// number of runs for a tier
    fn runs(&self, tier: Tier) -> u64;
    fn gen_plan(&self, seed: u64, tier: Tier) -> Value;
    fn run_plan(&self, plan: &Value) -> RunReport;
    /// simpler variants of a failing plan (delta-debugging candidates), most aggressive first
    fn shrink(&self, _plan: &Value) -> Vec<Value> { Vec::new() }
    fn descr(&self) -> Descr;
    /// run a plan verbosely (for triage)
    fn debug_plan(&self, _plan: &Value) -> String { String::new() }
    /// systematic (non-random) plans run in addition to the seeded ones ("fault enumeration")
    fn enumerated(&self, _tier: Tier) -> Vec<Value> { Vec::new() }
}

#[derive(Clone, Debug, Deserialize, Serialize)]
pub struct KnownFinding {
    pub property: String,
    pub class: String,
    pub key: String,
    pub description: String,
}

pub fn load_known() -> Vec<KnownFinding> {
    let p = verif_root().join("known_findings.json");
    let Ok(s) = std::fs::read_to_string(&p) else { return Vec::new() };
    let v: Value = serde_json::from_str(&s).unwrap_or(json!({}));
    v.get("findings").and_then(|f| serde_json::from_value(f.clone()).ok()).unwrap_or_default()
}

/// where replays/ and evidence/ are written: VERIF_OUT (used when the checks run against a deliberately
/// broken tree, see tools/run_seeded.sh) or the verification root
pub fn out_root() -> std::path::PathBuf {
    if let Ok(p) = std::env::var("VERIF_OUT") { return p.into(); }
    verif_root()
}

pub fn verif_root() -> std::path::PathBuf {
    if let Ok(p) = std::env::var("VERIF_ROOT") { return p.into(); }
    // binary lives in <root>/sim/target/debug/simk
    let exe = std::env::current_exe().unwrap();
    exe.ancestors().nth(4).map(|p| p.to_path_buf()).unwrap_or_else(|| "/verif".into())
}

fn mix_seed(base: u64, i: u64) -> u64 {
    let mut x = base.wrapping_mul(0x9E3779B97F4A7C15) ^ i.wrapping_mul(0xD1342543DE82EF95);
    x ^= x >> 31;
    x = x.wrapping_mul(0xBF58476D1CE4E5B9);
    x ^ (x >> 29)
}

// ------------------------------------------------------------------------------------ worker side

/// `simk work <ID> <tier> <base_seed> <from> <to> [step]`: run plans from, from+step, ... below `to`
/// and print one JSON line each.
/// What the process is doing, for `fatal_violation`.
#[derive(Clone)]
pub enum FatalCtx {
    /// inside `simk work`: plan index, the arguments needed to carry on with the next plan in a fresh process image
    Work { id: String, tier: String, base: u64, i: u64, to: u64, step: u64, plan: Value },
    /// inside `simk runplan` / `replay` / `show` / `debug`: print the report and leave
    Single,
}
pub static FATAL_CTX: std::sync::Mutex<Option<FatalCtx>> = std::sync::Mutex::new(None);

/// A run cannot be brought to an end (real code is stuck in a loop that no longer reaches a point where the simulator
/// could stop it): report `v` as the outcome of the current plan and get rid of the process. In a `work` batch the
/// process image is replaced (exec) by a fresh one that carries on with the next plan on the same stdout, so the batch
/// loses nothing but the stuck run.
pub fn fatal_violation(seed: u64, family: &str, summary: &str, v: Violation) -> ! {
    use std::io::Write;
    let rep = RunReport { seed, family: family.to_string(), summary: summary.to_string(), violations: vec![v], nontrivial: true, ..Default::default() };
    let ctx = FATAL_CTX.lock().map(|g| g.clone()).unwrap_or(None);
    let stdout = std::io::stdout();
    match ctx {
        Some(FatalCtx::Work { id, tier, base, i, to, step, plan }) => {
            let line = json!({"i": i, "wall_ms": 0, "report": rep, "plan": plan});
            { let mut l = stdout.lock(); let _ = writeln!(l, "{}", line); let _ = l.flush(); }
            let next = i + step.max(1);
            if next >= to { std::process::exit(0); }
            use std::os::unix::process::CommandExt;
            let exe = std::env::current_exe().expect("current_exe");
            let e = Command::new(exe).args(["work", &id, &tier, &base.to_string(), &next.to_string(), &to.to_string(), &step.to_string()]).exec();
            eprintln!("fatal_violation: exec failed: {e}");
            std::process::abort();
        }
        _ => {
            { let mut l = stdout.lock(); let _ = writeln!(l, "{}", serde_json::to_string(&rep).unwrap()); let _ = l.flush(); }
            std::process::exit(0);
        }
    }
}

pub fn work(prop: &dyn Property, tier: Tier, base: u64, from: u64, to: u64, step: u64) {
    let stdout = std::io::stdout();
    let enumerated = prop.enumerated(tier);
    let n_enum = enumerated.len() as u64;
    let mut i = from;
    while i < to {
        let t_run = Instant::now();
        let plan = if i < n_enum { enumerated[i as usize].clone() } else { prop.gen_plan(mix_seed(base, i - n_enum), tier) };
        // descriptors a run leaves behind (a worker that panicked or was aborted never closes its sockets) would
        // exhaust the process after some ten thousand runs: close whatever is new after each plan
        let fds_before = crate::netsim::open_fds();
        if let Ok(mut g) = FATAL_CTX.lock() { *g = Some(FatalCtx::Work { id: prop.id().to_string(), tier: tier.name().to_string(), base, i, to, step, plan: plan.clone() }); }
        let mut rep = run_guarded(prop, &plan);
        // determinism re-check on a sample: same plan twice in this process must hash identically
        let recheck = i % 16 == 0;
        if recheck && rep.harness_error.is_none() {
            let rep2 = run_guarded(prop, &plan);
            let inconclusive = rep.probes.contains_key("inconclusive_realtime_watchdog") || rep2.probes.contains_key("inconclusive_realtime_watchdog");
            if !inconclusive && (rep2.trace_hash != rep.trace_hash || rep2.violations != rep.violations) {
                rep.harness_error = Some(format!("nondeterministic: hash {:x} vs {:x}", rep.trace_hash, rep2.trace_hash));
            }
            rep.probes.insert("determinism_rechecks".into(), 1);
        }
        let mut leaked = 0u64;
        for fd in crate::netsim::open_fds() { if fds_before.binary_search(&fd).is_err() { crate::sys::close(fd); leaked += 1; } }
        if leaked > 0 { rep.probes.insert("harness_fds_reclaimed".into(), leaked); }
        let line = json!({"i": i, "wall_ms": t_run.elapsed().as_millis() as u64, "report": rep, "plan": if rep.violations.is_empty() && rep.harness_error.is_none() { Value::Null } else { plan }});
        let mut l = stdout.lock();
        let _ = writeln!(l, "{}", line);
        let _ = l.flush();
        drop(l);
        i += step.max(1);
    }
}

/// Run one plan; a run that the real-time watchdog had to end (see `World::park`) is *inconclusive*: where it stood at
/// that instant is a function of the machine's speed, not of the plan, so no verdict is drawn from it. It is counted
/// (probe `inconclusive_realtime_watchdog`) and does not count as a nontrivial run.
pub fn run_guarded(prop: &dyn Property, plan: &Value) -> RunReport {
    crate::world::WATCHDOG_FIRED.store(false, std::sync::atomic::Ordering::SeqCst);
    let mut rep = prop.run_plan(plan);
    if crate::world::WATCHDOG_FIRED.swap(false, std::sync::atomic::Ordering::SeqCst) {
        rep.violations.clear();
        rep.nontrivial = false;
        rep.trace_hash = 0;
        rep.probes.insert("inconclusive_realtime_watchdog".into(), 1);
        rep.summary = format!("[inconclusive: ended by the real-time watchdog] {}", rep.summary);
    }
    rep
}

/// `simk runplan <ID> <file>`: run one plan from a file, print its report as JSON.
pub fn run_plan_file(prop: &dyn Property, path: &str) -> RunReport {
    let s = std::fs::read_to_string(path).expect("read plan");
    let v: Value = serde_json::from_str(&s).expect("plan json");
    let plan = v.get("plan").cloned().unwrap_or(v);
    if let Ok(mut g) = FATAL_CTX.lock() { *g = Some(FatalCtx::Single); }
    run_guarded(prop, &plan)
}

// ------------------------------------------------------------------------------------ parent side

fn run_child_plan(id: &str, plan: &Value, timeout: Duration) -> Result<RunReport, String> {
    let dir = verif_root().join("sim/target/tmp");
    let _ = std::fs::create_dir_all(&dir);
    let path = dir.join(format!("simk-plan-{}-{}.json", std::process::id(), mix_seed(plan.to_string().len() as u64, Instant::now().elapsed().as_nanos() as u64) ^ rand_u64()));
    std::fs::write(&path, serde_json::to_vec(&json!({"plan": plan})).unwrap()).map_err(|e| e.to_string())?;
    let exe = std::env::current_exe().unwrap();
    let mut child = Command::new(exe).arg("runplan").arg(id).arg(&path).stdout(Stdio::piped()).stderr(Stdio::null()).spawn().map_err(|e| e.to_string())?;
    let t0 = Instant::now();
    loop {
        match child.try_wait() {
            Ok(Some(_)) => break,
            Ok(None) => {
                if t0.elapsed() > timeout {
                    let _ = child.kill();
                    let _ = child.wait();
                    let _ = std::fs::remove_file(&path);
                    return Err("timeout".into());
                }
                std::thread::sleep(Duration::from_millis(5));
            }
            Err(e) => return Err(e.to_string()),
        }
    }
    let out = child.wait_with_output().map_err(|e| e.to_string())?;
    let _ = std::fs::remove_file(&path);
    if !out.status.success() {
        return Err(format!("child exit {:?}", out.status));
    }
    let s = String::from_utf8_lossy(&out.stdout);
    let line = s.lines().rev().find(|l| l.starts_with('{')).ok_or("no report")?;
    serde_json::from_str(line).map_err(|e| e.to_string())
}

fn rand_u64() -> u64 {
    static C: std::sync::atomic::AtomicU64 = std::sync::atomic::AtomicU64::new(1);
    C.fetch_add(0x9E3779B97F4A7C15, std::sync::atomic::Ordering::Relaxed)
}

fn same_violation(rep: &Result<RunReport, String>, class: &str, key: &str) -> bool {
    match rep {
        Ok(r) => r.violations.iter().any(|v| v.class == class && v.key == key),
        // a crash / hang of the child counts as the same violation only for crash-class violations
        Err(_) => class == "crash" || class == "hang",
    }
}

fn minimise(prop: &dyn Property, plan: Value, class: &str, key: &str, budget: Duration) -> (Value, u32) {
    let t0 = Instant::now();
    let mut cur = plan;
    let mut steps = 0;
    'outer: loop {
        if t0.elapsed() > budget { break; }
        let cands = prop.shrink(&cur);
        for c in cands {
            if t0.elapsed() > budget { break 'outer; }
            if c == cur { continue; }
            let r = run_child_plan(prop.id(), &c, Duration::from_secs(60));
            if same_violation(&r, class, key) {
                cur = c;
                steps += 1;
                continue 'outer;
            }
        }
        break;
    }
    (cur, steps)
}

pub struct CheckOutcome {
    pub exit: i32,
}

/// `simk check <ID> [--tier T]`
pub fn check(prop: &dyn Property, tier: Tier, base_seed: u64, jobs: usize, runs_override: Option<u64>) -> CheckOutcome {
    let t0 = Instant::now();
    let id = prop.id();
    let n_enum = prop.enumerated(tier).len() as u64;
    let total = runs_override.unwrap_or(prop.runs(tier)) + n_enum;
    let jobs = jobs.max(1).min(total.max(1) as usize);
    let exe = std::env::current_exe().unwrap();
    // child j runs plans j, j+jobs, j+2*jobs, ...: every child gets the same mix of cheap and expensive plans
    let mut children = Vec::new();
    for j in 0..jobs as u64 {
        let from = j;
        let to = total;
        if from >= to { continue; }
        let errdir = verif_root().join("sim/target/tmp");
        let _ = std::fs::create_dir_all(&errdir);
        let errpath = errdir.join(format!("worker-{}-{}.err", std::process::id(), j));
        let errfile = std::fs::File::create(&errpath).expect("worker stderr file");
        let child = Command::new(&exe)
            .args(["work", id, tier.name(), &base_seed.to_string(), &from.to_string(), &to.to_string(), &jobs.to_string()])
            .stdout(Stdio::piped())
            .stderr(Stdio::from(errfile))
            .spawn()
            .expect("spawn worker");
        children.push((from, to, child, errpath));
    }
    let mut evaluations = 0u64;
    let mut hashes: BTreeSet<u64> = BTreeSet::new();
    let mut nontrivial_hashes: BTreeSet<u64> = BTreeSet::new();
    let mut stats = Stats::default();
    let mut probes: BTreeMap<String, u64> = BTreeMap::new();
    let mut families: BTreeMap<String, u64> = BTreeMap::new();
    let mut samples: Vec<Value> = Vec::new();
    let mut found: Vec<(Violation, Value, u64)> = Vec::new();
    let mut harness_errors: Vec<String> = Vec::new();
    let mut total_violating_runs = 0u64;
    let mut slowest: (u64, u64, String) = (0, 0, String::new());
    let mut slow_runs = 0u64;
    // read all children concurrently (threads), collect lines
    let jobs_u = jobs as u64;
    let (tx, rx) = std::sync::mpsc::channel::<(u64, Option<String>, Option<String>)>();
    let mut handles = Vec::new();
    for (from, to, mut child, errpath) in children {
        let tx = tx.clone();
        handles.push(std::thread::spawn(move || {
            let out = child.stdout.take().unwrap();
            let reader = std::io::BufReader::new(out);
            let mut seen = 0u64;
            for line in reader.lines() {
                match line {
                    Ok(l) => { seen += 1; let _ = tx.send((from, Some(l), None)); }
                    Err(_) => break,
                }
            }
            let status = child.wait();
            let err = std::fs::read_to_string(&errpath).unwrap_or_default();
            let _ = std::fs::remove_file(&errpath);
            let ok = status.as_ref().map(|s| s.success()).unwrap_or(false);
            let expected = (to - from + (jobs_u - 1)) / jobs_u;
            if !ok || seen < expected {
                let tail: String = err.lines().rev().take(12).collect::<Vec<_>>().into_iter().rev().collect::<Vec<_>>().join(" | ");
                let _ = tx.send((from, None, Some(format!("worker [{from},{to}) produced {seen} reports, status {:?}: {}", status, tail))));
            }
        }));
    }
    drop(tx);
    let mut crashed: Vec<String> = Vec::new();
    for (_from, line, err) in rx {
        if let Some(e) = err { crashed.push(e); continue; }
        let Some(line) = line else { continue };
        let Ok(v) = serde_json::from_str::<Value>(&line) else { continue };
        let Ok(rep) = serde_json::from_value::<RunReport>(v["report"].clone()) else { continue };
        evaluations += 1;
        let wall_ms = v["wall_ms"].as_u64().unwrap_or(0);
        if wall_ms > slowest.0 { slowest = (wall_ms, rep.seed, rep.family.clone()); }
        if wall_ms > 5000 { slow_runs += 1; }
        hashes.insert(rep.trace_hash);
        if rep.nontrivial { nontrivial_hashes.insert(rep.trace_hash); }
        stats.add(&rep.stats);
        for (k, n) in &rep.probes { *probes.entry(k.clone()).or_insert(0) += n; }
        *families.entry(rep.family.clone()).or_insert(0) += 1;
        if samples.len() < 6 && rep.nontrivial && !samples.iter().any(|s| s["family"] == json!(rep.family)) {
            samples.push(json!({"seed": rep.seed, "family": rep.family, "plan": rep.summary, "trace_hash": format!("{:016x}", rep.trace_hash)}));
        }
        if let Some(e) = &rep.harness_error { harness_errors.push(format!("seed {}: {}", rep.seed, e)); }
        if !rep.violations.is_empty() {
            total_violating_runs += 1;
            for viol in &rep.violations {
                if !found.iter().any(|(f, _, _)| f.class == viol.class && f.key == viol.key) {
                    found.push((viol.clone(), v["plan"].clone(), rep.seed));
                }
            }
        }
    }
    for h in handles { let _ = h.join(); }
    if samples.is_empty() { samples.push(json!({"note": "no nontrivial run"})); }

    // ---- triage violations
    let known = load_known();
    let mut exit = 0;
    let mut new_violations = 0;
    let mut lines: Vec<String> = Vec::new();
    let replays = out_root().join("replays");
    let _ = std::fs::create_dir_all(&replays);
    for (viol, plan, seed) in &found {
        if let Some(k) = known.iter().find(|k| k.property == id && k.class == viol.class && k.key == viol.key) {
            lines.push(format!("KNOWN-FINDING: property={} class={} key={} {}", id, viol.class, viol.key, k.description));
            continue;
        }
        // confirm in a fresh process
        let conf = run_child_plan(id, plan, Duration::from_secs(120));
        if !same_violation(&conf, &viol.class, &viol.key) {
            harness_errors.push(format!("violation {}:{} (seed {}) did not reproduce in a fresh process: {:?}", viol.class, viol.key, seed, conf.as_ref().map(|r| r.violations.clone())));
            continue;
        }
        let budget = Duration::from_secs(if new_violations == 0 { 60 } else { 15 });
        let (min_plan, steps) = minimise(prop, plan.clone(), &viol.class, &viol.key, budget);
        let fin = run_child_plan(id, &min_plan, Duration::from_secs(120));
        let (hash, detail) = match &fin {
            Ok(r) => (r.trace_hash, r.violations.iter().find(|x| x.class == viol.class && x.key == viol.key).map(|x| x.detail.clone()).unwrap_or_default()),
            Err(e) => (0, e.clone()),
        };
        // class + key hash + seed: two violations of one class found by the same seed keep separate files
        let mut kh = crate::prng::TraceHash::new();
        for b in viol.key.bytes() { kh.mix(b as u64); }
        let path = replays.join(format!("{}-{}-{:08x}-{}.json", id, viol.class.replace('/', "_"), kh.0 as u32, seed));
        let file = json!({"property": id, "seed": seed, "plan": min_plan, "expect": {"class": viol.class, "key": viol.key, "trace_hash": format!("{:016x}", hash)}, "detail": detail, "shrink_steps": steps});
        let _ = std::fs::write(&path, serde_json::to_vec_pretty(&file).unwrap());
        lines.push(format!("VIOLATION property={} replay={}", id, path.display()));
        lines.push(format!("  class={} key={} seed={} detail={}", viol.class, viol.key, seed, detail.chars().take(400).collect::<String>()));
        new_violations += 1;
        exit = 1;
    }
    for c in &crashed {
        // a worker process died: the plan that killed it is unknown here; report as harness error
        harness_errors.push(c.clone());
    }
    if !harness_errors.is_empty() && exit == 0 { exit = 2; }
    let wall = t0.elapsed().as_secs_f64();

    // ---- evidence
    let d = prop.descr();
    let ev = json!({
        "property_id": id,
        "tier": tier.name(),
        "seed": base_seed,
        "level": d.level,
        "wall_s": wall,
        "violations": new_violations,
        "assumptions": d.assumptions,
        "coverage": {
            "evaluations": evaluations,
            "distinct_nontrivial": nontrivial_hashes.len(),
            "distinct_trace_hashes": hashes.len(),
            "rule": d.rule,
            "samples": samples,
            "enumerated_plans": n_enum,
            "families": families,
            "runs_per_hour": if wall > 0.0 { (evaluations as f64 / wall * 3600.0) as u64 } else { 0 },
            "simulated_seconds": stats.virtual_ns as f64 / 1e9,
            "faults_fired": stats.faults,
            "scheduler": {
                "epoll_waits": stats.epoll_waits, "epoll_events": stats.epoll_events, "epoll_truncated": stats.epoll_truncated,
                "epoll_permuted": stats.epoll_permuted, "timeouts_returned": stats.timeouts_returned, "clock_jumps": stats.clock_jumps,
                "actor_steps": stats.actor_steps, "preemptions": stats.preemptions,
                "short_writes_injected": stats.short_writes_injected, "eagain_injected": stats.eagain_injected,
                "sozu_partial_writes": stats.sozu_partial_writes, "sozu_write_eagain": stats.sozu_write_eagain,
                "sozu_reads_filling_buffer": stats.sozu_read_full, "accepts": stats.accepts, "connects": stats.connects,
                "connect_refused": stats.connect_refused, "connect_blackholed": stats.connect_blackholed, "connect_delayed": stats.connect_delayed,
                "kills": stats.kills
            },
            "probes": probes,
            "violating_runs": total_violating_runs,
            "slowest_run": {"wall_ms": slowest.0, "seed": slowest.1, "family": slowest.2},
            "runs_over_5s_wall": slow_runs,
            "known_findings_hit": lines.iter().filter(|l| l.starts_with("KNOWN-FINDING")).count(),
            "real_components": d.real,
            "stub_components": d.stub,
            "not_covered": d.not_covered,
            "harness_errors": harness_errors,
        }
    });
    let evdir = out_root().join("evidence");
    let _ = std::fs::create_dir_all(&evdir);
    let _ = std::fs::write(evdir.join(format!("{id}.json")), serde_json::to_vec_pretty(&ev).unwrap());

    for l in &lines { println!("{l}"); }
    for e in harness_errors.iter().take(10) { eprintln!("HARNESS-ERROR property={id} {e}"); }
    println!("{} {}: {} runs ({} distinct nontrivial), {} violating, {:.1}s, exit {}", id, tier.name(), evaluations, nontrivial_hashes.len(), total_violating_runs, wall, exit);
    CheckOutcome { exit }
}

/// `simk shrink <ID> <plan file> <class> <key> <out>`: minimise a failing plan by hand.
pub fn shrink_file(prop: &dyn Property, path: &str, class: &str, key: &str, out: &str) {
    let s = std::fs::read_to_string(path).expect("read plan");
    let v: Value = serde_json::from_str(&s).expect("plan json");
    let plan = v.get("plan").cloned().unwrap_or(v);
    let (min_plan, steps) = minimise(prop, plan, class, key, Duration::from_secs(180));
    let rep = run_guarded(prop, &min_plan);
    let file = json!({"property": prop.id(), "seed": rep.seed, "plan": min_plan, "expect": {"class": class, "key": key, "trace_hash": format!("{:016x}", rep.trace_hash)}, "detail": rep.violations.iter().find(|x| x.class == class && x.key == key).map(|x| x.detail.clone()), "shrink_steps": steps});
    std::fs::write(out, serde_json::to_vec_pretty(&file).unwrap()).expect("write");
    println!("shrunk in {steps} steps -> {out}");
}

/// `simk replay <file>`: re-run a replay file; exit 1 + VIOLATION if it reproduces (class, key and trace hash).
pub fn replay(prop: &dyn Property, path: &str) -> i32 {
    let s = std::fs::read_to_string(path).expect("read replay");
    let v: Value = serde_json::from_str(&s).expect("json");
    let rep = run_guarded(prop, &v["plan"]);
    let class = v["expect"]["class"].as_str().unwrap_or("");
    let key = v["expect"]["key"].as_str().unwrap_or("");
    let hash = v["expect"]["trace_hash"].as_str().unwrap_or("");
    let got = format!("{:016x}", rep.trace_hash);
    println!("{}", serde_json::to_string(&rep).unwrap());
    if let Some(e) = rep.harness_error { eprintln!("HARNESS-ERROR {e}"); return 2; }
    if rep.violations.iter().any(|x| x.class == class && x.key == key) {
        if !hash.is_empty() && hash != "0000000000000000" && hash != got {
            eprintln!("HARNESS-ERROR replay reproduced the violation but trace hash differs: {got} vs {hash}");
            println!("VIOLATION property={} replay={}", prop.id(), path);
            return 1;
        }
        println!("VIOLATION property={} replay={}", prop.id(), path);
        1
    } else {
        println!("replay did not reproduce {class}:{key}; got {:?}", rep.violations);
        0
    }
}
