//! Raw TCP peers (client and backend) and an independent PROXY protocol v2 codec (C18).
//!
//! Both peers run the same `Peer` engine: send a position-keyed byte stream (optionally preceded
//! by literal bytes written in plan-chosen fragments: the PROXY header) while concurrently reading
//! and verifying the other side's stream, then end the connection the way the plan says.
#![allow(dead_code)]

use std::any::Any;
use std::collections::VecDeque;
use std::net::{IpAddr, Ipv4Addr, Ipv6Addr, SocketAddr};

use serde::{Deserialize, Serialize};

use super::{gen_byte, rd, wr, BodyCheck, Io, Pace};
use crate::prng::Prng;
use crate::sys;
use crate::world::{Actor, Step, World};

// =========================================================================== PROXY protocol v2

pub const PP2_SIG: [u8; 12] = [0x0D, 0x0A, 0x0D, 0x0A, 0x00, 0x0D, 0x0A, 0x51, 0x55, 0x49, 0x54, 0x0A];

/// Address block of a v2 header as the harness writes it (spec §2.2).
#[derive(Clone, Debug, Serialize, Deserialize, PartialEq)]
pub enum PpAddr {
    /// AF_UNSPEC: `filler` opaque bytes the receiver must skip
    Unspec { filler: usize },
    /// AF_INET / AF_INET6 (both addresses must be of the same family)
    Inet { src: SocketAddr, dst: SocketAddr },
    /// AF_UNIX: two 108-byte paths (shorter values are zero padded)
    Unix { src: Vec<u8>, dst: Vec<u8> },
}

#[derive(Clone, Debug, Serialize, Deserialize, PartialEq)]
pub struct PpSpec {
    /// 0 = LOCAL, 1 = PROXY (other values: malformed on purpose)
    pub command: u8,
    /// 2 (other values: malformed on purpose)
    pub version: u8,
    /// transport nibble: 0 UNSPEC, 1 STREAM, 2 DGRAM
    pub transport: u8,
    pub addr: PpAddr,
    /// (type, value) TLVs appended after the address block
    pub tlvs: Vec<(u8, Vec<u8>)>,
}

impl PpSpec {
    pub fn family(&self) -> u8 {
        match &self.addr {
            PpAddr::Unspec { .. } => 0,
            PpAddr::Inet { src: SocketAddr::V4(_), .. } => 1,
            PpAddr::Inet { .. } => 2,
            PpAddr::Unix { .. } => 3,
        }
    }
    pub fn encode(&self) -> Vec<u8> {
        let mut block: Vec<u8> = Vec::new();
        match &self.addr {
            PpAddr::Unspec { filler } => {
                for i in 0..*filler { block.push(0xA0 ^ (i as u8)); }
            }
            PpAddr::Inet { src: SocketAddr::V4(s), dst: SocketAddr::V4(d) } => {
                block.extend_from_slice(&s.ip().octets());
                block.extend_from_slice(&d.ip().octets());
                block.extend_from_slice(&s.port().to_be_bytes());
                block.extend_from_slice(&d.port().to_be_bytes());
            }
            PpAddr::Inet { src, dst } => {
                let to6 = |a: &SocketAddr| match a.ip() { IpAddr::V6(i) => i, IpAddr::V4(i) => i.to_ipv6_mapped() };
                block.extend_from_slice(&to6(src).octets());
                block.extend_from_slice(&to6(dst).octets());
                block.extend_from_slice(&src.port().to_be_bytes());
                block.extend_from_slice(&dst.port().to_be_bytes());
            }
            PpAddr::Unix { src, dst } => {
                for p in [src, dst] {
                    let mut b = [0u8; 108];
                    let n = p.len().min(108);
                    b[..n].copy_from_slice(&p[..n]);
                    block.extend_from_slice(&b);
                }
            }
        }
        // TLVs only make sense after a complete address block; for UNSPEC they are part of the skipped bytes
        for (t, v) in &self.tlvs {
            block.push(*t);
            block.extend_from_slice(&(v.len() as u16).to_be_bytes());
            block.extend_from_slice(v);
        }
        let mut out = Vec::with_capacity(16 + block.len());
        out.extend_from_slice(&PP2_SIG);
        out.push((self.version << 4) | (self.command & 0x0F));
        out.push((self.family() << 4) | (self.transport & 0x0F));
        out.extend_from_slice(&(block.len() as u16).to_be_bytes());
        out.extend_from_slice(&block);
        out
    }
}

#[derive(Clone, Debug, Serialize, Deserialize, PartialEq)]
pub struct PpDecoded {
    pub command: u8,
    pub family: u8,
    pub transport: u8,
    pub src: Option<SocketAddr>,
    pub dst: Option<SocketAddr>,
    pub unix: Option<(Vec<u8>, Vec<u8>)>,
    pub tlvs: Vec<(u8, Vec<u8>)>,
    /// 16 + declared length
    pub total_len: usize,
}

#[derive(Clone, Debug, PartialEq)]
pub enum PpErr {
    /// not enough bytes yet; at least this many are needed in total
    Short(usize),
    BadSignature(usize),
    BadVersion(u8),
    BadCommand(u8),
    BadFamily(u8),
    BadTransport(u8),
    /// declared length smaller than the address block of the family
    LenTooSmall { family: u8, len: usize },
    BadTlv(usize),
}

/// Strict decoder written from the specification (haproxy proxy-protocol.txt §2.2), not from sozu.
pub fn decode_v2(buf: &[u8]) -> Result<PpDecoded, PpErr> {
    for (i, b) in PP2_SIG.iter().enumerate() {
        match buf.get(i) {
            None => return Err(PpErr::Short(16)),
            Some(x) if x != b => return Err(PpErr::BadSignature(i)),
            _ => {}
        }
    }
    if buf.len() < 16 {
        // still validate the bytes we have
        if let Some(vc) = buf.get(12) {
            if vc >> 4 != 2 { return Err(PpErr::BadVersion(vc >> 4)); }
            if vc & 0x0F > 1 { return Err(PpErr::BadCommand(vc & 0x0F)); }
        }
        if let Some(fp) = buf.get(13) {
            if fp >> 4 > 3 { return Err(PpErr::BadFamily(fp >> 4)); }
            if fp & 0x0F > 2 { return Err(PpErr::BadTransport(fp & 0x0F)); }
        }
        return Err(PpErr::Short(16));
    }
    let vc = buf[12];
    if vc >> 4 != 2 { return Err(PpErr::BadVersion(vc >> 4)); }
    let command = vc & 0x0F;
    if command > 1 { return Err(PpErr::BadCommand(command)); }
    let fp = buf[13];
    let (family, transport) = (fp >> 4, fp & 0x0F);
    if family > 3 { return Err(PpErr::BadFamily(family)); }
    if transport > 2 { return Err(PpErr::BadTransport(transport)); }
    let len = u16::from_be_bytes([buf[14], buf[15]]) as usize;
    let need = match family { 0 => 0, 1 => 12, 2 => 36, _ => 216 };
    if len < need { return Err(PpErr::LenTooSmall { family, len }); }
    if buf.len() < 16 + len { return Err(PpErr::Short(16 + len)); }
    let b = &buf[16..16 + len];
    let mut d = PpDecoded { command, family, transport, src: None, dst: None, unix: None, tlvs: vec![], total_len: 16 + len };
    match family {
        1 => {
            let s = Ipv4Addr::new(b[0], b[1], b[2], b[3]);
            let t = Ipv4Addr::new(b[4], b[5], b[6], b[7]);
            d.src = Some(SocketAddr::new(IpAddr::V4(s), u16::from_be_bytes([b[8], b[9]])));
            d.dst = Some(SocketAddr::new(IpAddr::V4(t), u16::from_be_bytes([b[10], b[11]])));
        }
        2 => {
            let mut s = [0u8; 16];
            let mut t = [0u8; 16];
            s.copy_from_slice(&b[0..16]);
            t.copy_from_slice(&b[16..32]);
            d.src = Some(SocketAddr::new(IpAddr::V6(Ipv6Addr::from(s)), u16::from_be_bytes([b[32], b[33]])));
            d.dst = Some(SocketAddr::new(IpAddr::V6(Ipv6Addr::from(t)), u16::from_be_bytes([b[34], b[35]])));
        }
        3 => { d.unix = Some((b[0..108].to_vec(), b[108..216].to_vec())); }
        _ => {}
    }
    if family != 0 {
        // everything after the address block is a TLV vector
        let mut p = need;
        while p < len {
            if p + 3 > len { return Err(PpErr::BadTlv(p)); }
            let l = u16::from_be_bytes([b[p + 1], b[p + 2]]) as usize;
            if p + 3 + l > len { return Err(PpErr::BadTlv(p)); }
            d.tlvs.push((b[p], b[p + 3..p + 3 + l].to_vec()));
            p += 3 + l;
        }
    }
    Ok(d)
}

// =========================================================================== peers

/// How a side ends the connection once all of its own bytes are written.
#[derive(Clone, Copy, Debug, Serialize, Deserialize, PartialEq)]
pub enum End {
    /// keep the write side open; close once EOF (or an error) was read
    WaitPeer,
    /// close as soon as every planned byte of the other side was received (or EOF): a clean close
    /// whose own last bytes are typically still in flight inside the proxy
    AfterAll,
    /// close only when, in addition, the other side has confirmed (out of band, on the simulator's
    /// blackboard) that it received every byte of this side: nothing is in flight at FIN time
    AfterDelivered,
    /// `shutdown(SHUT_WR)` right after the last own byte, keep reading until EOF, then close
    HalfClose,
    /// `close()` right after the last own byte without draining (AF_UNIX: reset if unread data is queued)
    CloseNow,
}

/// One literal fragment written with a single `write` (retried until complete), then a pause.
#[derive(Clone, Debug, Serialize, Deserialize, PartialEq)]
pub struct Frag {
    /// end offset in (literal prefix ++ stream) coordinates
    pub upto: u64,
    /// virtual pause after the fragment; >0 guarantees the proxy sees the split
    pub delay_ns: u64,
}

#[derive(Clone, Debug, Serialize, Deserialize, PartialEq)]
pub struct SidePlan {
    /// blackboard names of this side and of the other side of the same session
    pub tag: String,
    pub peer_tag: String,
    /// key of the stream this side sends / length
    pub key: u64,
    pub len: u64,
    /// key of the stream it verifies / how many bytes the other side plans to send
    pub peer_key: u64,
    pub peer_len: u64,
    pub pace: Pace,
    pub sndbuf: Option<i32>,
    /// back-pressure: no read before start + this
    pub read_hold_ns: u64,
    /// no write before start + this
    pub write_hold_ns: u64,
    pub end: End,
    /// literal bytes written before the stream (the client's PROXY header) and their fragmentation
    pub pre: Vec<u8>,
    pub frags: Vec<Frag>,
    /// give up (close, flagged) this long after start
    pub deadline_ns: u64,
}

/// What the receiving side expects before the keyed stream starts.
#[derive(Clone, Debug, Serialize, Deserialize, PartialEq)]
pub enum Prefix {
    None,
    /// a PROXY v2 header generated by the proxy: decoded strictly, whatever its addresses
    V2Header,
    /// exactly these bytes (relayed header)
    Exact(Vec<u8>),
}

#[derive(Clone, Debug, Default, Serialize, Deserialize)]
pub struct SideRecord {
    pub connected: bool,
    pub connect_err: Option<i32>,
    /// stream bytes accepted by the kernel (literal prefix excluded) / literal prefix bytes written
    pub sent: u64,
    pub pre_sent: u64,
    pub wr_err: Option<i32>,
    pub wr_blocked: u64,
    /// raw bytes received in total / stream bytes verified
    pub raw_received: u64,
    pub received: u64,
    pub first_bad: Option<u64>,
    pub eof: bool,
    pub rd_err: Option<i32>,
    /// stream bytes received when EOF / the error was observed
    pub received_at_eof: u64,
    pub fin_sent: bool,
    /// unread bytes were queued when this side called close()
    pub unread_at_close: bool,
    pub closed: bool,
    pub gave_up: bool,
    pub t_start: u64,
    pub t_eof: u64,
    pub t_last_rx: u64,
    pub t_sent_all: u64,
    pub t_end: u64,
    /// first raw bytes received (diagnostics and header oracles)
    pub head: Vec<u8>,
    /// length of the recognised prefix; None = prefix not recognised (stream checked from offset 0)
    pub prefix_len: Option<usize>,
    pub prefix_error: Option<String>,
}

pub struct Peer {
    pub plan: SidePlan,
    pub rec: SideRecord,
    pub prefix: Prefix,
    fd: i32,
    rng: Prng,
    frags: VecDeque<Frag>,
    /// position in (pre ++ stream)
    pos: u64,
    check: BodyCheck,
    prefix_done: bool,
    pending: Vec<u8>,
    wr_dead: bool,
    done: bool,
    sleep_until: u64,
    rx_all_published: bool,
}

const HEAD_KEEP: usize = 640;
/// how long a backend that saw no connection waits after its client finished before reporting done
pub const BACKEND_QUIET_NS: u64 = 2_000_000_000;

impl Peer {
    pub fn new(plan: SidePlan, prefix: Prefix, fd: i32, rng: Prng, now: u64) -> Peer {
        let frags = plan.frags.iter().cloned().collect();
        let check = BodyCheck::new(plan.peer_key);
        let prefix_done = prefix == Prefix::None;
        let mut rec = SideRecord { connected: true, t_start: now, ..Default::default() };
        if prefix_done { rec.prefix_len = Some(0); }
        if let Some(sb) = plan.sndbuf { let _ = sys::setsockopt_int(fd, libc::SOL_SOCKET, libc::SO_SNDBUF, sb); }
        Peer { plan, rec, prefix, fd, rng, frags, pos: 0, check, prefix_done, pending: Vec::new(), wr_dead: false, done: false, sleep_until: 0, rx_all_published: false }
    }
    pub fn is_done(&self) -> bool { self.done }
    fn total(&self) -> u64 { self.plan.pre.len() as u64 + self.plan.len }

    fn byte_at(&self, p: u64) -> u8 {
        let pl = self.plan.pre.len() as u64;
        if p < pl { self.plan.pre[p as usize] } else { gen_byte(self.plan.key, p - pl) }
    }

    fn feed_stream(&mut self, data: &[u8]) {
        self.check.feed(data);
        self.rec.received = self.check.received;
        self.rec.first_bad = self.check.first_bad;
    }

    /// Raw bytes from the socket: split the expected prefix off, verify the rest as the keyed stream.
    fn feed(&mut self, data: &[u8], at_eof: bool) {
        self.rec.raw_received += data.len() as u64;
        if self.rec.head.len() < HEAD_KEEP {
            let k = (HEAD_KEEP - self.rec.head.len()).min(data.len());
            self.rec.head.extend_from_slice(&data[..k]);
        }
        if self.prefix_done {
            self.feed_stream(data);
            return;
        }
        self.pending.extend_from_slice(data);
        let decided: Option<usize> = match &self.prefix {
            Prefix::None => Some(0),
            Prefix::Exact(h) => {
                let n = h.len().min(self.pending.len());
                if self.pending[..n] != h[..n] {
                    let at = (0..n).find(|i| self.pending[*i] != h[*i]).unwrap_or(0);
                    self.rec.prefix_error = Some(format!("relayed header differs from the header sent at byte {at}"));
                    Some(usize::MAX)
                } else if self.pending.len() >= h.len() { Some(h.len()) } else { None }
            }
            Prefix::V2Header => match decode_v2(&self.pending) {
                Ok(d) => Some(d.total_len),
                Err(PpErr::Short(_)) => None,
                Err(e) => { self.rec.prefix_error = Some(format!("{e:?}")); Some(usize::MAX) }
            },
        };
        match decided {
            Some(usize::MAX) => {
                // not the expected prefix: everything is checked as stream bytes from offset 0
                self.prefix_done = true;
                self.rec.prefix_len = None;
                let p = std::mem::take(&mut self.pending);
                self.feed_stream(&p);
            }
            Some(n) => {
                self.prefix_done = true;
                self.rec.prefix_len = Some(n);
                let p = std::mem::take(&mut self.pending);
                self.feed_stream(&p[n..]);
            }
            None => {
                if at_eof && self.rec.prefix_error.is_none() {
                    self.rec.prefix_error = Some(format!("connection ended inside the expected prefix after {} bytes", self.pending.len()));
                }
            }
        }
    }

    fn close(&mut self, now: u64) {
        if self.fd >= 0 {
            // anything unread at close() turns the close into a reset on AF_UNIX
            let mut b = [0u8; 1];
            let r = unsafe { sys::sc!(libc::SYS_recvfrom, self.fd, b.as_mut_ptr(), 1, libc::MSG_PEEK | libc::MSG_DONTWAIT, 0, 0) };
            self.rec.unread_at_close = r > 0;
            sys::close(self.fd);
            self.fd = -1;
        }
        self.rec.closed = true;
        self.rec.t_end = now;
        self.done = true;
    }

    /// One scheduling quantum. `Step::Done` once the connection was closed by this side.
    pub fn step(&mut self, w: &mut World) -> Step {
        if self.done { return Step::Done; }
        let now = w.now;
        let t0 = self.rec.t_start;
        let deadline = t0 + self.plan.deadline_ns;
        if now >= deadline {
            self.rec.gave_up = true;
            w.stats.fault("tcp_peer_gave_up");
            self.close(now);
            return Step::Done;
        }
        if now < self.sleep_until { return Step::Sleep(self.sleep_until.min(deadline)); }
        let mut progressed = false;
        let mut wake = deadline;
        let total = self.total();

        // ---- read side
        let reading = !self.rec.eof && !(self.plan.end == End::CloseNow && (self.pos >= total || self.wr_dead));
        if reading {
            if now < t0 + self.plan.read_hold_ns {
                wake = wake.min(t0 + self.plan.read_hold_ns);
            } else {
                let want = self.plan.pace.rq.draw(&mut self.rng).min(262144);
                let mut buf = vec![0u8; want];
                match rd(self.fd, &mut buf) {
                    Io::N(n) => {
                        progressed = true;
                        self.rec.t_last_rx = now;
                        self.feed(&buf[..n], false);
                        w.tr(0x7C, n as u64);
                    }
                    Io::WouldBlock => {}
                    Io::Eof => {
                        progressed = true;
                        self.rec.eof = true;
                        self.rec.t_eof = now;
                        self.feed(&[], true);
                        self.rec.received_at_eof = self.rec.received;
                        w.tr(0x7E, self.rec.raw_received);
                    }
                    Io::Err(e) => {
                        progressed = true;
                        self.rec.eof = true;
                        self.rec.rd_err = Some(e);
                        self.rec.t_eof = now;
                        self.feed(&[], true);
                        self.rec.received_at_eof = self.rec.received;
                        w.tr(0x7F, e as u64);
                    }
                }
            }
        }

        if !self.rx_all_published && self.prefix_done && self.rec.received >= self.plan.peer_len {
            self.rx_all_published = true;
            w.board_set(&format!("tcp_rxall/{}", self.plan.tag), 1);
        }

        // ---- write side
        if self.pos < total && !self.wr_dead && !self.rec.fin_sent {
            if now < t0 + self.plan.write_hold_ns {
                wake = wake.min(t0 + self.plan.write_hold_ns);
            } else {
                // a pending literal fragment is written whole; otherwise the pace decides
                while let Some(f) = self.frags.front() { if f.upto <= self.pos { self.frags.pop_front(); } else { break; } }
                let (q, frag_delay) = match self.frags.front() {
                    Some(f) => ((f.upto.min(total) - self.pos) as usize, Some(f.delay_ns)),
                    None => (self.plan.pace.wq.draw(&mut self.rng).min((total - self.pos) as usize).min(262144), None),
                };
                let chunk: Vec<u8> = (0..q as u64).map(|i| self.byte_at(self.pos + i)).collect();
                match wr(self.fd, &chunk) {
                    Io::N(n) => {
                        progressed = true;
                        self.pos += n as u64;
                        let pl = self.plan.pre.len() as u64;
                        self.rec.pre_sent = self.pos.min(pl);
                        self.rec.sent = self.pos.saturating_sub(pl);
                        w.tr(0x7A, n as u64);
                        if self.pos >= total { self.rec.t_sent_all = now; }
                        if n == q {
                            if let Some(d) = frag_delay {
                                self.frags.pop_front();
                                if d > 0 { self.sleep_until = now + d; return Step::Sleep((now + d).min(deadline)); }
                            }
                        }
                    }
                    Io::WouldBlock => { self.rec.wr_blocked += 1; }
                    Io::Eof => {}
                    Io::Err(e) => {
                        // EPIPE / ECONNRESET: the proxy closed; keep reading what is left
                        progressed = true;
                        self.rec.wr_err = Some(e);
                        self.wr_dead = true;
                        w.tr(0x7B, e as u64);
                    }
                }
            }
        }

        // ---- ending
        let sent_all = self.pos >= total || self.wr_dead;
        let ended = self.rec.eof;
        match self.plan.end {
            End::HalfClose => {
                if sent_all && !self.rec.fin_sent && !ended {
                    let _ = sys::shutdown(self.fd, libc::SHUT_WR);
                    self.rec.fin_sent = true;
                    w.stats.fault("tcp_half_close");
                    w.tr(0x7D, self.rec.sent);
                    progressed = true;
                }
                if sent_all && ended { self.close(now); return Step::Done; }
            }
            End::CloseNow => {
                if sent_all { w.stats.fault("tcp_close_now"); self.close(now); return Step::Done; }
            }
            End::AfterAll => {
                if sent_all && (ended || (self.prefix_done && self.rec.received >= self.plan.peer_len)) { self.close(now); return Step::Done; }
            }
            End::AfterDelivered => {
                if sent_all && (ended || (self.prefix_done && self.rec.received >= self.plan.peer_len && w.board_get(&format!("tcp_rxall/{}", self.plan.peer_tag)) > 0)) { self.close(now); return Step::Done; }
            }
            End::WaitPeer => {
                if sent_all && ended { self.close(now); return Step::Done; }
            }
        }
        if progressed {
            if let Some(t) = self.plan.pace.gap(w, &mut self.rng) { self.sleep_until = t; return Step::Sleep(t.min(deadline)); }
            Step::Progress
        } else {
            Step::Idle(wake)
        }
    }
}

impl Drop for Peer {
    fn drop(&mut self) { if self.fd >= 0 { sys::close(self.fd); self.fd = -1; } }
}

// --------------------------------------------------------------------------- client

#[derive(Clone, Debug, Serialize, Deserialize)]
pub struct TcpClientPlan {
    pub name: String,
    pub src: SocketAddr,
    pub dst: SocketAddr,
    pub start_ns: u64,
    /// connect only once the backend serving this client listens (blackboard `tcp_listening/<name>`)
    pub wait_backend: bool,
    pub side: SidePlan,
}

pub struct TcpClient {
    pub plan: TcpClientPlan,
    pub rec: SideRecord,
    peer: Option<Peer>,
    rng: Prng,
    start_at: u64,
    finished: bool,
}

impl TcpClient {
    pub fn new(plan: TcpClientPlan, rng: Prng) -> TcpClient {
        TcpClient { plan, rec: SideRecord::default(), peer: None, rng, start_at: 0, finished: false }
    }
    pub fn record(&self) -> SideRecord {
        match &self.peer { Some(p) => p.rec.clone(), None => self.rec.clone() }
    }
    fn finish(&mut self, w: &mut World) -> Step {
        if !self.finished {
            self.finished = true;
            w.board_add("tcp_done", 1);
            w.board_set(&format!("tcp_client_done/{}", self.plan.name), 1);
        }
        Step::Done
    }
}

impl Actor for TcpClient {
    fn name(&self) -> String { self.plan.name.clone() }
    fn as_any(&mut self) -> &mut dyn Any { self }
    fn as_any_ref(&self) -> &dyn Any { self }

    fn step(&mut self, w: &mut World) -> Step {
        if self.finished { return Step::Done; }
        if self.peer.is_none() {
            if w.board_get("configured") == 0 { return Step::Blocked; }
            if self.plan.wait_backend && w.board_get(&format!("tcp_listening/{}", self.plan.name)) == 0 { return Step::Blocked; }
            if self.start_at == 0 { self.start_at = w.now + self.plan.start_ns; }
            if w.now < self.start_at { return Step::Sleep(self.start_at); }
            let (src, dst) = (self.plan.src, self.plan.dst);
            match w.peer_connect(&src, &dst, None) {
                Ok(fd) => {
                    let rng = self.rng.fork("peer");
                    self.peer = Some(Peer::new(self.plan.side.clone(), Prefix::None, fd, rng, w.now));
                    return Step::Progress;
                }
                Err(e) => {
                    self.rec.connect_err = Some(e);
                    return self.finish(w);
                }
            }
        }
        let r = self.peer.as_mut().unwrap().step(w);
        wake_watchdog(w);
        if r == Step::Done { return self.finish(w); }
        r
    }
}

// --------------------------------------------------------------------------- backend

#[derive(Clone, Debug, Serialize, Deserialize)]
pub struct TcpBackendPlan {
    pub name: String,
    pub addr: SocketAddr,
    /// name of the client whose connection this backend serves (completion signalling)
    pub client: String,
    pub prefix: Prefix,
    pub side: SidePlan,
}

pub struct TcpBackend {
    pub plan: TcpBackendPlan,
    lfd: i32,
    conns: Vec<Peer>,
    rng: Prng,
    signalled: bool,
    client_done_at: Option<u64>,
    /// local names of the proxy's connecting sockets, per accepted connection
    pub peers_seen: Vec<Option<SocketAddr>>,
}

impl TcpBackend {
    pub fn new(plan: TcpBackendPlan, rng: Prng) -> TcpBackend {
        TcpBackend { plan, lfd: -1, conns: Vec::new(), rng, signalled: false, client_done_at: None, peers_seen: Vec::new() }
    }
    /// one record per accepted connection, in accept order
    pub fn records(&self) -> Vec<SideRecord> { self.conns.iter().map(|p| p.rec.clone()).collect() }
}

impl Actor for TcpBackend {
    fn name(&self) -> String { self.plan.name.clone() }
    fn as_any(&mut self) -> &mut dyn Any { self }
    fn as_any_ref(&self) -> &dyn Any { self }
    fn class(&self) -> u8 { 1 }

    fn step(&mut self, w: &mut World) -> Step {
        if self.lfd < 0 {
            let addr = self.plan.addr;
            match w.peer_listen(&addr) {
                Ok(fd) => {
                    self.lfd = fd;
                    // the client of this backend only connects once the backend listens (a real backend is up first)
                    w.board_set(&format!("tcp_listening/{}", self.plan.client), 1);
                    return Step::Progress;
                }
                Err(e) => panic!("tcp backend listen failed: errno {e}"),
            }
        }
        let mut progressed = false;
        if let Ok((fd, peer)) = sys::accept_unix(self.lfd, libc::SOCK_NONBLOCK | libc::SOCK_CLOEXEC) {
            progressed = true;
            self.peers_seen.push(World::parse_name(&peer));
            // every connection is served alike (a real server does not know it is being re-dialled)
            let side = self.plan.side.clone();
            if !self.conns.is_empty() { w.stats.fault("tcp_extra_backend_connection"); }
            let rng = self.rng.fork("conn");
            w.tr(0x7AC, self.conns.len() as u64);
            self.conns.push(Peer::new(side, self.plan.prefix.clone(), fd, rng, w.now));
        }
        let mut wake: Option<u64> = None;
        let mut sleep_all: Option<u64> = None;
        let n = self.conns.len();
        let mut live = 0;
        for i in 0..n {
            if self.conns[i].is_done() { continue; }
            live += 1;
            match self.conns[i].step(w) {
                Step::Progress | Step::Done => progressed = true,
                // a pausing connection is not progress (time must be able to advance); it wakes the actor at t
                Step::Sleep(t) => { sleep_all = Some(sleep_all.map_or(t, |x: u64| x.min(t))); wake = Some(wake.map_or(t, |x: u64| x.min(t))); }
                Step::Idle(t) => { wake = Some(wake.map_or(t, |x: u64| x.min(t))); }
                Step::Blocked => {}
            }
        }
        let all_done = self.conns.iter().all(|p| p.is_done());
        if self.client_done_at.is_none() && w.board_get(&format!("tcp_client_done/{}", self.plan.client)) > 0 {
            self.client_done_at = Some(w.now);
        }
        if let (false, true, Some(t)) = (self.signalled, all_done, self.client_done_at) {
            // without any connection so far, give the proxy a quiet period to open one
            if !self.conns.is_empty() || w.now >= t + BACKEND_QUIET_NS {
                self.signalled = true;
                w.board_add("tcp_done", 1);
                progressed = true;
            } else {
                wake = Some(wake.map_or(t + BACKEND_QUIET_NS, |x: u64| x.min(t + BACKEND_QUIET_NS)));
            }
        }
        wake_watchdog(w);
        if let Some(t) = sleep_all {
            // a pause of the single live connection pauses the whole actor
            if live <= 1 && !progressed { return Step::Sleep(t); }
        }
        if progressed { return Step::Progress; }
        match wake { Some(t) => Step::Idle(t), None => Step::Blocked }
    }
}

impl Drop for TcpBackend {
    fn drop(&mut self) { if self.lfd >= 0 { sys::close(self.lfd); self.lfd = -1; } }
}

// --------------------------------------------------------------------------- spin watchdog
//
// A proxy loop that never returns to `epoll_wait` (for instance `loop { write(fd, &[]) }`) would
// hang the simulation: actors only run at `epoll_wait` and, with `preempt_pm > 0`, inside the
// proxy's data syscalls. This actor keeps itself runnable whenever the proxy is about to get
// control with socket events pending, counts the proxy's data syscalls per loop iteration from
// inside the hooks, and past a budget no legitimate iteration needs breaks the loop by shutting
// down the write side of every proxy socket (its next write fails with EPIPE). Deterministic:
// it is driven by the scheduler PRNG only. Runs that tripped it are reported as `spin`.

pub const SPIN_BUDGET: u64 = 300_000;

pub fn wake_watchdog(w: &mut World) {
    let id = w.board.get("tcp_watchdog").copied().unwrap_or(0);
    if id > 0 { w.wake(id as usize - 1); }
}

pub struct SpinWatchdog {
    last_iter: u64,
    base_calls: u64,
    /// (proxy loop iteration, data syscalls in it) for every time the loop had to be broken
    pub trips: Vec<(u64, u64)>,
}

impl SpinWatchdog {
    pub fn new() -> SpinWatchdog { SpinWatchdog { last_iter: u64::MAX, base_calls: 0, trips: Vec::new() } }
    /// register: call once after `add_actor`
    pub fn install(w: &mut World) -> usize {
        let id = w.add_actor(Box::new(SpinWatchdog::new()));
        w.board.insert("tcp_watchdog".into(), id as i64 + 1);
        id
    }
    fn events_pending(w: &World) -> bool {
        // an epoll descriptor polls readable while its ready list is non-empty; polling consumes nothing
        let Some((epfd, _, _)) = w.epoll_regs.values().next().copied() else { return false };
        let mut pfd = libc::pollfd { fd: epfd, events: libc::POLLIN, revents: 0 };
        let r = unsafe { sys::sc!(libc::SYS_poll, &mut pfd as *mut libc::pollfd, 1, 0) };
        r > 0 && pfd.revents & libc::POLLIN != 0
    }
}

impl Actor for SpinWatchdog {
    fn name(&self) -> String { "spin-watchdog".into() }
    fn as_any(&mut self) -> &mut dyn Any { self }
    fn as_any_ref(&self) -> &dyn Any { self }
    fn class(&self) -> u8 { 2 }

    fn step(&mut self, w: &mut World) -> Step {
        let calls = w.stats.sozu_writes + w.stats.sozu_reads;
        if w.iterations != self.last_iter { self.last_iter = w.iterations; self.base_calls = calls; }
        if w.hook_depth > 0 {
            if calls - self.base_calls > SPIN_BUDGET {
                self.trips.push((w.iterations, calls - self.base_calls));
                self.base_calls = calls;
                let fds: Vec<i32> = w.sozu_fds.iter().filter(|(_, k)| **k == 'c' || **k == 'a').map(|(fd, _)| *fd).collect();
                for fd in fds {
                    let _ = sys::shutdown(fd, libc::SHUT_WR);
                    w.shut_wr.insert(fd);
                }
                w.stats.fault("proxy_spin_broken");
                w.tr(0x5B1, self.trips.len() as u64);
            }
            return Step::Progress;
        }
        if SpinWatchdog::events_pending(w) { return Step::Progress; }
        match w.rearm.values().copied().filter(|t| *t > w.now).min() {
            Some(t) => Step::Idle(t),
            None => Step::Blocked,
        }
    }
}
