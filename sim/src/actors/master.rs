//! Master stub: speaks the worker command channel with an independent framing codec
//! (8-byte little-endian total length + protobuf payload) at plan-chosen moments.
#![allow(dead_code)]

use std::any::Any;
use std::collections::BTreeMap;

use prost::Message;
use sozu_command_lib::proto::command::{
    request::RequestType, HardStop, Request, ResponseStatus, SoftStop, WorkerRequest, WorkerResponse,
};

use super::{rd, wr, Io, Quantum};
use crate::prng::Prng;
use crate::world::{Actor, Step, World};

pub enum MOp {
    /// send a request (id assigned as `<prefix><n>`)
    Send(Request),
    /// send a request with an explicit id
    SendId(String, Request),
    /// wait until every request sent so far has a final (OK/FAILURE) response
    Barrier,
    /// like Barrier, but give up after this much virtual time
    BarrierFor(u64),
    /// wait until `board[key] >= value`
    WaitBoard(String, i64),
    /// set `board[key] = value`
    SetBoard(String, i64),
    Sleep(u64),
    /// call back into property code with the world (and the responses so far)
    Call(Box<dyn FnMut(&mut World, &mut MasterData) -> Vec<MOp>>),
    HardStop,
    SoftStop,
    /// close the channel (worker exits its loop)
    CloseChannel,
    /// stop acting; the run ends when the worker returns
    End,
    /// do not read from the channel for this much virtual time (a main process that is busy elsewhere): the worker's
    /// answers pile up in the socket and then in its channel's back buffer. Sending continues.
    PauseReads(u64),
    /// SO_RCVBUF of the master's end of the channel (how much the kernel absorbs before the worker sees EAGAIN)
    SetRcvBuf(i32),
}

#[derive(Default)]
pub struct MasterData {
    pub sent: Vec<(String, Request, u64)>,
    pub responses: Vec<(u64, WorkerResponse)>,
    pub finals: BTreeMap<String, u32>,
    pub processing: BTreeMap<String, u32>,
    pub after_final: Vec<String>,
    pub unknown_ids: Vec<String>,
    pub garbage: Option<String>,
    pub eof: bool,
}
impl MasterData {
    pub fn last_response(&self, id: &str) -> Option<&WorkerResponse> {
        self.responses.iter().rev().map(|(_, r)| r).find(|r| r.id == id && r.status != ResponseStatus::Processing as i32)
    }
    pub fn all_final(&self) -> bool {
        self.sent.iter().all(|(id, _, _)| self.finals.get(id).copied().unwrap_or(0) >= 1)
    }
}

pub struct Master {
    pub fd: i32,
    pub script: std::collections::VecDeque<MOp>,
    pub data: MasterData,
    out: Vec<u8>,
    inbuf: Vec<u8>,
    pub wq: Quantum,
    rng: Prng,
    next_id: u64,
    pub prefix: String,
    pub ended: bool,
    pub closed: bool,
    sleeping_until: Option<u64>,
    barrier_until: Option<u64>,
    reads_paused_until: u64,
}

pub fn frame(req: &WorkerRequest) -> Vec<u8> {
    let payload = req.encode_to_vec();
    let mut v = Vec::with_capacity(payload.len() + 8);
    v.extend_from_slice(&((payload.len() + 8) as u64).to_le_bytes());
    v.extend_from_slice(&payload);
    v
}

impl Master {
    pub fn new(fd: i32, rng: Prng, wq: Quantum) -> Master {
        Master {
            fd,
            script: Default::default(),
            data: MasterData::default(),
            out: Vec::new(),
            inbuf: Vec::new(),
            wq,
            rng,
            next_id: 0,
            prefix: "M".into(),
            ended: false,
            closed: false,
            sleeping_until: None,
            barrier_until: None,
            reads_paused_until: 0,
        }
    }
    pub fn push(&mut self, op: MOp) {
        self.script.push_back(op);
    }
    pub fn send_all(&mut self, reqs: Vec<Request>) {
        for r in reqs {
            self.script.push_back(MOp::Send(r));
        }
    }

    fn enqueue(&mut self, id: String, content: Request, now: u64) {
        let wr = WorkerRequest { id: id.clone(), content: content.clone() };
        self.out.extend_from_slice(&frame(&wr));
        self.data.sent.push((id, content, now));
    }

    fn pump_read(&mut self, w: &mut World) -> bool {
        let mut progressed = false;
        let mut buf = [0u8; 16384];
        loop {
            match rd(self.fd, &mut buf) {
                Io::N(n) => {
                    progressed = true;
                    self.inbuf.extend_from_slice(&buf[..n]);
                }
                Io::WouldBlock => break,
                Io::Eof | Io::Err(_) => {
                    if !self.data.eof { progressed = true; }
                    self.data.eof = true;
                    break;
                }
            }
        }
        loop {
            if self.inbuf.len() < 8 { break; }
            let len = u64::from_le_bytes(self.inbuf[..8].try_into().unwrap()) as usize;
            if len < 8 || len > 64 << 20 {
                self.data.garbage = Some(format!("bad frame length {len} from worker"));
                self.inbuf.clear();
                break;
            }
            if self.inbuf.len() < len { break; }
            let frame: Vec<u8> = self.inbuf.drain(..len).collect();
            match WorkerResponse::decode(&frame[8..]) {
                Ok(resp) => {
                    let id = resp.id.clone();
                    let known = self.data.sent.iter().any(|(i, _, _)| *i == id);
                    if !known { self.data.unknown_ids.push(id.clone()); }
                    if resp.status == ResponseStatus::Processing as i32 {
                        if self.data.finals.get(&id).copied().unwrap_or(0) > 0 {
                            self.data.after_final.push(id.clone());
                        }
                        *self.data.processing.entry(id).or_insert(0) += 1;
                    } else {
                        *self.data.finals.entry(id).or_insert(0) += 1;
                    }
                    w.tr(0x3A, resp.status as u64);
                    self.data.responses.push((w.now, resp));
                }
                Err(e) => {
                    self.data.garbage = Some(format!("undecodable response: {e}"));
                }
            }
        }
        progressed
    }
}

impl Actor for Master {
    fn name(&self) -> String { "master".into() }
    fn as_any(&mut self) -> &mut dyn Any { self }
    fn as_any_ref(&self) -> &dyn Any { self }
    fn class(&self) -> u8 { 2 }

    fn step(&mut self, w: &mut World) -> Step {
        if self.closed { return Step::Done; }
        let paused = w.now < self.reads_paused_until;
        let mut progressed = if paused { false } else { self.pump_read(w) };
        // flush pending output, one quantum per step
        if !self.out.is_empty() {
            let q = self.wq.draw(&mut self.rng).min(self.out.len());
            match wr(self.fd, &self.out[..q]) {
                Io::N(n) => { self.out.drain(..n); return Step::Progress; }
                Io::WouldBlock => { return if progressed { Step::Progress } else if w.now < self.reads_paused_until { Step::Idle(self.reads_paused_until) } else { Step::Blocked }; }
                _ => { self.data.eof = true; self.out.clear(); return Step::Progress; }
            }
        }
        if let Some(t) = self.sleeping_until {
            if w.now < t { return Step::Sleep(t); }
            self.sleeping_until = None;
        }
        if self.ended {
            return if progressed { Step::Progress } else if w.now < self.reads_paused_until { Step::Idle(self.reads_paused_until) } else { Step::Blocked };
        }
        let Some(op) = self.script.pop_front() else {
            self.ended = true;
            return Step::Progress;
        };
        match op {
            MOp::Send(req) => {
                let id = format!("{}{}", self.prefix, self.next_id);
                self.next_id += 1;
                self.enqueue(id, req, w.now);
                progressed = true;
            }
            MOp::SendId(id, req) => { self.enqueue(id, req, w.now); progressed = true; }
            MOp::Barrier => {
                if !self.data.all_final() && !self.data.eof {
                    self.script.push_front(MOp::Barrier);
                    return if progressed { Step::Progress } else if w.now < self.reads_paused_until { Step::Idle(self.reads_paused_until) } else { Step::Blocked };
                }
                progressed = true;
            }
            MOp::BarrierFor(d) => {
                let until = *self.barrier_until.get_or_insert(w.now + d);
                if !self.data.all_final() && !self.data.eof && w.now < until {
                    self.script.push_front(MOp::BarrierFor(d));
                    return if progressed { Step::Progress } else { Step::Idle(until) };
                }
                self.barrier_until = None;
                progressed = true;
            }
            MOp::WaitBoard(key, v) => {
                if w.board.get(&key).copied().unwrap_or(0) < v {
                    self.script.push_front(MOp::WaitBoard(key, v));
                    // board changes wake every actor (World::board_add / board_set)
                    return if progressed { Step::Progress } else if w.now < self.reads_paused_until { Step::Idle(self.reads_paused_until) } else { Step::Blocked };
                }
                progressed = true;
            }
            MOp::SetBoard(key, v) => { w.board_set(&key, v); progressed = true; }
            MOp::Sleep(d) => { self.sleeping_until = Some(w.now + d); return Step::Sleep(w.now + d); }
            MOp::Call(mut f) => {
                let ops = f(w, &mut self.data);
                for op in ops.into_iter().rev() { self.script.push_front(op); }
                progressed = true;
            }
            MOp::HardStop => {
                let id = format!("{}{}", self.prefix, self.next_id);
                self.next_id += 1;
                self.enqueue(id, Request { request_type: Some(RequestType::HardStop(HardStop {})) }, w.now);
                progressed = true;
            }
            MOp::SoftStop => {
                let id = format!("{}{}", self.prefix, self.next_id);
                self.next_id += 1;
                self.enqueue(id, Request { request_type: Some(RequestType::SoftStop(SoftStop {})) }, w.now);
                progressed = true;
            }
            MOp::CloseChannel => {
                let _ = crate::sys::shutdown(self.fd, libc::SHUT_RDWR);
                self.closed = true;
                return Step::Done;
            }
            MOp::End => { self.ended = true; progressed = true; }
            MOp::PauseReads(d) => { self.reads_paused_until = w.now + d; progressed = true; }
            MOp::SetRcvBuf(n) => { let _ = crate::sys::setsockopt_int(self.fd, libc::SOL_SOCKET, libc::SO_RCVBUF, n); progressed = true; }
        }
        if progressed { Step::Progress } else if w.now < self.reads_paused_until { Step::Idle(self.reads_paused_until) } else { Step::Blocked }
    }
}

impl Drop for Master {
    fn drop(&mut self) { if self.fd >= 0 { crate::sys::close(self.fd); self.fd = -1; } }
}

/// A bare command channel endpoint (framing + response accounting) for actors that drive
/// several workers themselves.
pub struct CmdChan {
    pub fd: i32,
    pub data: MasterData,
    out: Vec<u8>,
    inbuf: Vec<u8>,
}
impl CmdChan {
    pub fn new(fd: i32) -> CmdChan { CmdChan { fd, data: MasterData::default(), out: Vec::new(), inbuf: Vec::new() } }
    pub fn send(&mut self, id: &str, content: Request, now: u64) {
        let wr = WorkerRequest { id: id.to_string(), content: content.clone() };
        self.out.extend_from_slice(&frame(&wr));
        self.data.sent.push((id.to_string(), content, now));
    }
    /// write pending bytes (everything the socket takes); returns true on progress
    pub fn flush(&mut self) -> bool {
        let mut progressed = false;
        while !self.out.is_empty() {
            match wr(self.fd, &self.out) {
                Io::N(n) => { self.out.drain(..n); progressed = true; }
                Io::WouldBlock => break,
                _ => { self.data.eof = true; self.out.clear(); break; }
            }
        }
        progressed
    }
    /// read and decode whatever is available; returns true on progress
    pub fn pump(&mut self, w: &mut World) -> bool {
        let mut progressed = false;
        let mut buf = [0u8; 16384];
        loop {
            match rd(self.fd, &mut buf) {
                Io::N(n) => { progressed = true; self.inbuf.extend_from_slice(&buf[..n]); }
                Io::WouldBlock => break,
                Io::Eof | Io::Err(_) => { if !self.data.eof { progressed = true; } self.data.eof = true; break; }
            }
        }
        loop {
            if self.inbuf.len() < 8 { break; }
            let len = u64::from_le_bytes(self.inbuf[..8].try_into().unwrap()) as usize;
            if len < 8 || len > 64 << 20 { self.data.garbage = Some(format!("bad frame length {len} from worker")); self.inbuf.clear(); break; }
            if self.inbuf.len() < len { break; }
            let frame: Vec<u8> = self.inbuf.drain(..len).collect();
            match WorkerResponse::decode(&frame[8..]) {
                Ok(resp) => {
                    let id = resp.id.clone();
                    if !self.data.sent.iter().any(|(i, _, _)| *i == id) { self.data.unknown_ids.push(id.clone()); }
                    if resp.status == ResponseStatus::Processing as i32 {
                        if self.data.finals.get(&id).copied().unwrap_or(0) > 0 { self.data.after_final.push(id.clone()); }
                        *self.data.processing.entry(id).or_insert(0) += 1;
                    } else {
                        *self.data.finals.entry(id).or_insert(0) += 1;
                    }
                    w.tr(0x3B, resp.status as u64);
                    self.data.responses.push((w.now, resp));
                }
                Err(e) => { self.data.garbage = Some(format!("undecodable response: {e}")); }
            }
        }
        progressed
    }
    pub fn has_final(&self, id: &str) -> bool { self.data.finals.get(id).copied().unwrap_or(0) > 0 }
    pub fn close(&mut self) { if self.fd >= 0 { crate::sys::close(self.fd); self.fd = -1; } }
}
impl Drop for CmdChan { fn drop(&mut self) { self.close(); } }
