//! Byte transports for the simulated peers: a plain nonblocking socket and a sans-io TLS client
//! (`rustls::ClientConnection`, ring provider) on top of one.
//!
//! Both move at most one quantum per call on the real AF_UNIX socket with raw syscalls, so the
//! actor keeps full control of fragmentation. The TLS client draws all entropy through the
//! provider's `SecureRandom` (ring -> `getrandom`, interposed and seeded by the world) and never
//! looks at a clock: the certificate verifier below accepts every chain and ignores `now`, session
//! resumption is off and every connection gets a fresh `ClientConfig`, so the bytes of a handshake
//! are a function of the plan and the world seed only.
#![allow(dead_code)]

use std::collections::VecDeque;
use std::io::{Read, Write};
use std::sync::{Arc, Mutex};

use rustls::client::danger::{HandshakeSignatureValid, ServerCertVerified, ServerCertVerifier};
use rustls::crypto::{verify_tls12_signature, verify_tls13_signature, CryptoProvider, WebPkiSupportedAlgorithms};
use rustls::pki_types::{CertificateDer, ServerName, UnixTime};
use rustls::{ClientConfig, ClientConnection, DigitallySignedStruct, SignatureScheme};
use serde::{Deserialize, Serialize};

use super::{rd, wr, Io};
use crate::sys;
use crate::world::World;

pub enum ReadOutcome {
    /// the socket yielded bytes; this many *plaintext* bytes were appended (0 = handshake traffic only)
    Data(usize),
    WouldBlock,
    Eof,
    Err(i32),
}

/// A byte stream an actor can run a protocol over. One call = at most one socket operation.
pub trait Transport {
    /// Offer plaintext; at most one socket write of at most `quantum` bytes is performed.
    /// Returns how many bytes of `plain` were accepted (0 = would block / still handshaking).
    /// An empty `plain` just flushes what is pending.
    fn write(&mut self, w: &mut World, plain: &[u8], quantum: usize) -> usize;
    /// At most one socket read of at most `quantum` bytes; plaintext is appended to `buf`.
    fn read(&mut self, w: &mut World, buf: &mut Vec<u8>, quantum: usize) -> ReadOutcome;
    /// bytes accepted by `write` (or produced by the handshake) that are not on the socket yet
    fn pending_out(&self) -> usize;
    /// plaintext bytes accepted so far
    fn plain_accepted(&self) -> u64;
    /// plaintext bytes whose wire image has been written to the socket completely
    fn plain_on_wire(&self) -> u64;
    fn wire_written(&self) -> u64;
    fn wire_read(&self) -> u64;
    /// first error of a socket write (EPIPE, ECONNRESET...)
    fn write_error(&self) -> Option<i32>;
    fn is_handshaking(&self) -> bool {
        false
    }
    /// Announce the end of our byte stream (TLS: close_notify first); the socket's write side is
    /// shut down once everything pending is flushed by further `write` calls.
    fn shutdown_write(&mut self);
    /// Close the descriptor now (pending output is dropped; unread input turns into a reset).
    fn close(&mut self);
    fn fd(&self) -> i32;
    fn tls(&self) -> Option<&TlsRecord> {
        None
    }
}

// ------------------------------------------------------------------------------------- plain

pub struct PlainTransport {
    fd: i32,
    written: u64,
    read: u64,
    werr: Option<i32>,
    want_shut: bool,
    shut: bool,
}
impl PlainTransport {
    pub fn new(fd: i32) -> PlainTransport {
        PlainTransport { fd, written: 0, read: 0, werr: None, want_shut: false, shut: false }
    }
}
impl Transport for PlainTransport {
    fn write(&mut self, _w: &mut World, plain: &[u8], quantum: usize) -> usize {
        if self.fd < 0 || self.werr.is_some() || self.shut {
            return 0;
        }
        let mut n = 0;
        if !plain.is_empty() {
            match wr(self.fd, &plain[..plain.len().min(quantum.max(1))]) {
                Io::N(k) => n = k,
                Io::WouldBlock | Io::Eof => {}
                Io::Err(e) => self.werr = Some(e),
            }
            self.written += n as u64;
        }
        if self.want_shut && n == plain.len() {
            let _ = sys::shutdown(self.fd, libc::SHUT_WR);
            self.shut = true;
        }
        n
    }
    fn read(&mut self, _w: &mut World, buf: &mut Vec<u8>, quantum: usize) -> ReadOutcome {
        if self.fd < 0 {
            return ReadOutcome::Err(libc::EBADF);
        }
        let mut tmp = vec![0u8; quantum.clamp(1, 262_144)];
        match rd(self.fd, &mut tmp) {
            Io::N(n) => {
                self.read += n as u64;
                buf.extend_from_slice(&tmp[..n]);
                ReadOutcome::Data(n)
            }
            Io::WouldBlock => ReadOutcome::WouldBlock,
            Io::Eof => ReadOutcome::Eof,
            Io::Err(e) => ReadOutcome::Err(e),
        }
    }
    fn pending_out(&self) -> usize { 0 }
    fn plain_accepted(&self) -> u64 { self.written }
    fn plain_on_wire(&self) -> u64 { self.written }
    fn wire_written(&self) -> u64 { self.written }
    fn wire_read(&self) -> u64 { self.read }
    fn write_error(&self) -> Option<i32> { self.werr }
    fn shutdown_write(&mut self) { self.want_shut = true; }
    fn close(&mut self) {
        if self.fd >= 0 {
            sys::close(self.fd);
            self.fd = -1;
        }
    }
    fn fd(&self) -> i32 { self.fd }
}
impl Drop for PlainTransport {
    fn drop(&mut self) { self.close(); }
}

// ------------------------------------------------------------------------------------- TLS

#[derive(Clone, Copy, Debug, PartialEq, Eq, Serialize, Deserialize)]
pub enum TlsVersions {
    Both,
    Tls12,
    Tls13,
}

#[derive(Clone, Debug, PartialEq, Serialize, Deserialize)]
pub struct TlsPlan {
    /// server name to send; `None` = no SNI extension
    pub sni: Option<String>,
    /// ALPN protocols offered, in order (e.g. ["h2"], ["h2","http/1.1"], [] = none)
    pub alpn: Vec<String>,
    pub versions: TlsVersions,
    /// maximum TLS record size produced by this client (rustls `max_fragment_size`, >= 32)
    pub max_fragment_size: Option<usize>,
}
impl TlsPlan {
    pub fn h2(sni: &str) -> TlsPlan {
        TlsPlan { sni: Some(sni.to_string()), alpn: vec!["h2".into()], versions: TlsVersions::Both, max_fragment_size: None }
    }
}

/// What the TLS client observed.
#[derive(Clone, Debug, Default, Serialize, Deserialize)]
pub struct TlsRecord {
    pub handshake_done: bool,
    pub t_handshake_done: u64,
    pub alpn: Option<String>,
    pub version: Option<String>,
    pub cipher: Option<String>,
    /// DER of the end-entity certificate the server presented
    pub cert_der: Option<Vec<u8>>,
    /// number of intermediates presented after it
    pub chain_extra: usize,
    /// did the handshake signature verify against that certificate's key (the connection is
    /// accepted either way)
    pub signature_ok: Option<bool>,
    /// rustls error that ended the session (includes fatal alerts received from the server)
    pub error: Option<String>,
    pub close_notify_received: bool,
    /// the socket ended without close_notify
    pub unclean_eof: bool,
    pub handshake_wire_out: u64,
    pub handshake_wire_in: u64,
    /// FNV-1a over every ciphertext byte written / read (determinism fingerprint: same plan and
    /// world seed => same values)
    pub wire_out_hash: u64,
    pub wire_in_hash: u64,
}
fn fnv(mut h: u64, b: &[u8]) -> u64 {
    if h == 0 { h = 0xcbf29ce484222325; }
    for c in b { h = (h ^ *c as u64).wrapping_mul(0x100000001b3); }
    h
}

#[derive(Debug, Default)]
struct Seen {
    cert: Option<Vec<u8>>,
    chain_extra: usize,
    sig_ok: Option<bool>,
}

/// Accepts every certificate and records it.
#[derive(Debug)]
struct RecordingVerifier {
    seen: Arc<Mutex<Seen>>,
    algs: WebPkiSupportedAlgorithms,
}
impl ServerCertVerifier for RecordingVerifier {
    fn verify_server_cert(
        &self,
        end_entity: &CertificateDer<'_>,
        intermediates: &[CertificateDer<'_>],
        _server_name: &ServerName<'_>,
        _ocsp_response: &[u8],
        _now: UnixTime,
    ) -> Result<ServerCertVerified, rustls::Error> {
        let mut s = self.seen.lock().unwrap();
        s.cert = Some(end_entity.as_ref().to_vec());
        s.chain_extra = intermediates.len();
        Ok(ServerCertVerified::assertion())
    }
    fn verify_tls12_signature(&self, message: &[u8], cert: &CertificateDer<'_>, dss: &DigitallySignedStruct) -> Result<HandshakeSignatureValid, rustls::Error> {
        let ok = verify_tls12_signature(message, cert, dss, &self.algs).is_ok();
        self.seen.lock().unwrap().sig_ok = Some(ok);
        Ok(HandshakeSignatureValid::assertion())
    }
    fn verify_tls13_signature(&self, message: &[u8], cert: &CertificateDer<'_>, dss: &DigitallySignedStruct) -> Result<HandshakeSignatureValid, rustls::Error> {
        let ok = verify_tls13_signature(message, cert, dss, &self.algs).is_ok();
        self.seen.lock().unwrap().sig_ok = Some(ok);
        Ok(HandshakeSignatureValid::assertion())
    }
    fn supported_verify_schemes(&self) -> Vec<SignatureScheme> {
        self.algs.supported_schemes()
    }
}

/// Pending ciphertext is capped so that plaintext is accepted just in time.
const HIGH_WATER: usize = 64 * 1024;

pub struct TlsTransport {
    fd: i32,
    conn: ClientConnection,
    seen: Arc<Mutex<Seen>>,
    pub rec: TlsRecord,
    /// ciphertext not yet written
    out: Vec<u8>,
    out_pos: usize,
    cipher_total: u64,
    wire_written: u64,
    wire_read: u64,
    plain_accepted: u64,
    plain_on_wire: u64,
    /// (plaintext offset, ciphertext offset at which it is completely on the wire)
    marks: VecDeque<(u64, u64)>,
    werr: Option<i32>,
    want_shut: bool,
    shut: bool,
    fatal: bool,
}

impl TlsTransport {
    pub fn new(fd: i32, plan: &TlsPlan) -> Result<TlsTransport, String> {
        let provider: Arc<CryptoProvider> = Arc::new(rustls::crypto::ring::default_provider());
        let algs = provider.signature_verification_algorithms;
        let seen = Arc::new(Mutex::new(Seen::default()));
        let versions: &[&rustls::SupportedProtocolVersion] = match plan.versions {
            TlsVersions::Both => &[&rustls::version::TLS13, &rustls::version::TLS12],
            TlsVersions::Tls12 => &[&rustls::version::TLS12],
            TlsVersions::Tls13 => &[&rustls::version::TLS13],
        };
        let mut cfg = ClientConfig::builder_with_provider(provider)
            .with_protocol_versions(versions)
            .map_err(|e| format!("tls versions: {e}"))?
            .dangerous()
            .with_custom_certificate_verifier(Arc::new(RecordingVerifier { seen: seen.clone(), algs }))
            .with_no_client_auth();
        cfg.alpn_protocols = plan.alpn.iter().map(|p| p.as_bytes().to_vec()).collect();
        cfg.resumption = rustls::client::Resumption::disabled();
        cfg.max_fragment_size = plan.max_fragment_size;
        cfg.enable_sni = plan.sni.is_some();
        let name = plan.sni.clone().unwrap_or_else(|| "unnamed.invalid".to_string());
        let name = ServerName::try_from(name).map_err(|e| format!("server name: {e}"))?;
        let conn = ClientConnection::new(Arc::new(cfg), name).map_err(|e| format!("tls client: {e}"))?;
        Ok(TlsTransport {
            fd,
            conn,
            seen,
            rec: TlsRecord::default(),
            out: Vec::new(),
            out_pos: 0,
            cipher_total: 0,
            wire_written: 0,
            wire_read: 0,
            plain_accepted: 0,
            plain_on_wire: 0,
            marks: VecDeque::new(),
            werr: None,
            want_shut: false,
            shut: false,
            fatal: false,
        })
    }

    fn pull_ciphertext(&mut self) {
        while self.conn.wants_write() {
            let before = self.out.len();
            if self.conn.write_tls(&mut self.out).is_err() {
                break;
            }
            self.cipher_total += (self.out.len() - before) as u64;
        }
    }

    fn drain_plaintext(&mut self, buf: &mut Vec<u8>) -> usize {
        let mut total = 0;
        let mut chunk = [0u8; 16_384];
        loop {
            match self.conn.reader().read(&mut chunk) {
                Ok(0) => {
                    self.rec.close_notify_received = true;
                    break;
                }
                Ok(n) => {
                    buf.extend_from_slice(&chunk[..n]);
                    total += n;
                }
                Err(_) => break, // WouldBlock: nothing decrypted yet; UnexpectedEof is reported by the socket
            }
        }
        total
    }

    fn note_handshake(&mut self, w: &World) {
        {
            let s = self.seen.lock().unwrap();
            if self.rec.cert_der.is_none() {
                self.rec.cert_der = s.cert.clone();
                self.rec.chain_extra = s.chain_extra;
            }
            self.rec.signature_ok = s.sig_ok;
        }
        if !self.rec.handshake_done && !self.conn.is_handshaking() {
            self.rec.handshake_done = true;
            self.rec.t_handshake_done = w.now;
            self.rec.alpn = self.conn.alpn_protocol().map(|p| String::from_utf8_lossy(p).into_owned());
            self.rec.version = self.conn.protocol_version().map(|v| format!("{v:?}"));
            self.rec.cipher = self.conn.negotiated_cipher_suite().map(|c| format!("{:?}", c.suite()));
            self.rec.handshake_wire_in = self.wire_read;
            self.rec.handshake_wire_out = self.cipher_total;
        }
    }
}

impl Transport for TlsTransport {
    fn write(&mut self, w: &mut World, plain: &[u8], quantum: usize) -> usize {
        if self.fd < 0 || self.werr.is_some() || self.shut {
            return 0;
        }
        let mut consumed = 0;
        if !plain.is_empty() && !self.fatal && !self.want_shut && !self.conn.is_handshaking() && self.out.len() - self.out_pos < HIGH_WATER {
            let take = plain.len().min(HIGH_WATER);
            consumed = self.conn.writer().write(&plain[..take]).unwrap_or(0);
            self.plain_accepted += consumed as u64;
        }
        self.pull_ciphertext();
        if consumed > 0 {
            self.marks.push_back((self.plain_accepted, self.cipher_total));
        }
        if self.out_pos < self.out.len() {
            let q = (self.out.len() - self.out_pos).min(quantum.max(1));
            match wr(self.fd, &self.out[self.out_pos..self.out_pos + q]) {
                Io::N(n) => {
                    self.rec.wire_out_hash = fnv(self.rec.wire_out_hash, &self.out[self.out_pos..self.out_pos + n]);
                    w.tr(0x7150, self.rec.wire_out_hash);
                    self.out_pos += n;
                    self.wire_written += n as u64;
                }
                Io::WouldBlock | Io::Eof => {}
                Io::Err(e) => self.werr = Some(e),
            }
            if self.out_pos == self.out.len() {
                self.out.clear();
                self.out_pos = 0;
            } else if self.out_pos > HIGH_WATER {
                self.out.drain(..self.out_pos);
                self.out_pos = 0;
            }
        }
        while let Some((p, c)) = self.marks.front().copied() {
            if c <= self.wire_written {
                self.plain_on_wire = p;
                self.marks.pop_front();
            } else {
                break;
            }
        }
        if self.want_shut && self.out.is_empty() && !self.conn.wants_write() {
            let _ = sys::shutdown(self.fd, libc::SHUT_WR);
            self.shut = true;
        }
        self.note_handshake(w);
        consumed
    }

    fn read(&mut self, w: &mut World, buf: &mut Vec<u8>, quantum: usize) -> ReadOutcome {
        if self.fd < 0 {
            return ReadOutcome::Err(libc::EBADF);
        }
        if self.fatal {
            return ReadOutcome::Err(libc::EPROTO);
        }
        let mut tmp = vec![0u8; quantum.clamp(1, 262_144)];
        match rd(self.fd, &mut tmp) {
            Io::N(n) => {
                self.wire_read += n as u64;
                self.rec.wire_in_hash = fnv(self.rec.wire_in_hash, &tmp[..n]);
                w.tr(0x7151, self.rec.wire_in_hash);
                let mut plain = 0;
                let mut sl: &[u8] = &tmp[..n];
                while !sl.is_empty() {
                    match self.conn.read_tls(&mut sl) {
                        Ok(0) => break,
                        Ok(_) => {}
                        Err(e) => {
                            self.rec.error = Some(format!("read_tls: {e}"));
                            self.fatal = true;
                            break;
                        }
                    }
                    if let Err(e) = self.conn.process_new_packets() {
                        // rustls has queued the alert; `write` will flush it
                        self.rec.error = Some(format!("{e}"));
                        self.fatal = true;
                        break;
                    }
                    plain += self.drain_plaintext(buf);
                }
                self.note_handshake(w);
                if self.fatal && plain == 0 {
                    return ReadOutcome::Err(libc::EPROTO);
                }
                ReadOutcome::Data(plain)
            }
            Io::WouldBlock => ReadOutcome::WouldBlock,
            Io::Eof => {
                if !self.rec.close_notify_received {
                    self.rec.unclean_eof = true;
                }
                ReadOutcome::Eof
            }
            Io::Err(e) => ReadOutcome::Err(e),
        }
    }

    fn pending_out(&self) -> usize {
        (self.out.len() - self.out_pos) + if self.conn.wants_write() { 1 } else { 0 }
    }
    fn plain_accepted(&self) -> u64 { self.plain_accepted }
    fn plain_on_wire(&self) -> u64 { self.plain_on_wire }
    fn wire_written(&self) -> u64 { self.wire_written }
    fn wire_read(&self) -> u64 { self.wire_read }
    fn write_error(&self) -> Option<i32> { self.werr }
    fn is_handshaking(&self) -> bool { self.conn.is_handshaking() }
    fn shutdown_write(&mut self) {
        if !self.want_shut {
            self.want_shut = true;
            self.conn.send_close_notify();
        }
    }
    fn close(&mut self) {
        if self.fd >= 0 {
            sys::close(self.fd);
            self.fd = -1;
        }
    }
    fn fd(&self) -> i32 { self.fd }
    fn tls(&self) -> Option<&TlsRecord> { Some(&self.rec) }
}
impl Drop for TlsTransport {
    fn drop(&mut self) { self.close(); }
}
