//! stub
