//! HTTP/2 peers: one connection engine (`H2Peer`) usable as **client** (to sozu's HTTPS listener,
//! over TLS with ALPN h2, or cleartext prior knowledge) and as **server** (h2c backend that sozu
//! dials when the cluster has `http2: true`), plus the two actors that own them (`H2Client`,
//! `H2Backend`).
//!
//! The engine is plan-driven and records everything it observes. It also keeps, independently of
//! sozu, the **flow-control and limits ledger** used by C14: what this peer granted sozu
//! (windows, frame size, concurrent streams, header table size) and whether anything sozu sent
//! exceeded it. Grants take effect in the ledger only once the bytes that carry them are
//! completely written to the socket (sozu cannot have seen them earlier) and our SETTINGS take
//! effect at the position of sozu's ACK in the inbound byte stream, so a ledger violation is
//! definite.
#![allow(dead_code)]

use std::any::Any;
use std::collections::{BTreeMap, VecDeque};
use std::net::SocketAddr;

use serde::{Deserialize, Serialize};

use super::h2codec::*;
use super::tls::{PlainTransport, ReadOutcome, TlsPlan, TlsRecord, TlsTransport, Transport};
use super::{gen_byte, BodyCheck, Pace};
use crate::prng::Prng;
use crate::sys;
use crate::world::{Actor, Step, World};

// ===================================================================================== plans

#[derive(Clone, Copy, Debug, PartialEq, Eq, Serialize, Deserialize)]
pub enum Role {
    Client,
    Server,
}

/// One SETTINGS frame of ours. `None` = parameter absent from the frame.
#[derive(Clone, Debug, Default, PartialEq, Serialize, Deserialize)]
pub struct SettingsSpec {
    pub header_table_size: Option<u32>,
    pub enable_push: Option<u32>,
    pub max_concurrent_streams: Option<u32>,
    pub initial_window_size: Option<u32>,
    pub max_frame_size: Option<u32>,
    pub max_header_list_size: Option<u32>,
    /// further (id, value) pairs appended verbatim (unknown ids, duplicates, invalid values)
    pub extra: Vec<(u16, u32)>,
}
impl SettingsSpec {
    pub fn params(&self) -> Vec<(u16, u32)> {
        let mut v = Vec::new();
        if let Some(x) = self.header_table_size { v.push((sid::HEADER_TABLE_SIZE, x)); }
        if let Some(x) = self.enable_push { v.push((sid::ENABLE_PUSH, x)); }
        if let Some(x) = self.max_concurrent_streams { v.push((sid::MAX_CONCURRENT_STREAMS, x)); }
        if let Some(x) = self.initial_window_size { v.push((sid::INITIAL_WINDOW_SIZE, x)); }
        if let Some(x) = self.max_frame_size { v.push((sid::MAX_FRAME_SIZE, x)); }
        if let Some(x) = self.max_header_list_size { v.push((sid::MAX_HEADER_LIST_SIZE, x)); }
        v.extend_from_slice(&self.extra);
        v
    }
}

/// Trigger of a mid-connection action.
#[derive(Clone, Debug, PartialEq, Serialize, Deserialize)]
pub enum When {
    /// flow-controlled DATA bytes received on the connection so far
    RecvData(u64),
    /// frames received so far
    RecvFrames(u64),
    /// DATA payload bytes sent so far
    SentData(u64),
    /// streams opened on the connection so far (by either side)
    StreamsOpened(u32),
    /// virtual time since the connection started
    AfterNs(u64),
}

#[derive(Clone, Debug, PartialEq, Serialize, Deserialize)]
pub struct SettingsChange {
    pub when: When,
    pub settings: SettingsSpec,
}

/// When consumed flow-control credit is given back.
#[derive(Clone, Debug, PartialEq, Serialize, Deserialize)]
pub enum WuMode {
    /// everything owed, as soon as something is owed
    Eager,
    /// at most n bytes per step
    Drip(u32),
    /// everything owed once at least n bytes are owed
    Threshold(u32),
    /// everything owed once the window (as the ledger sees it) is used up
    WhenExhausted,
    /// everything owed once the oldest owed byte is this old (ns)
    Late(u64),
    Never,
}
#[derive(Clone, Debug, PartialEq, Serialize, Deserialize)]
pub struct WuPolicy {
    pub stream: WuMode,
    pub conn: WuMode,
    /// keeps every schedule eventually generous: when nothing has arrived for this long and credit
    /// is owed, all of it is granted (0 = off)
    pub fallback_ns: u64,
}
impl WuPolicy {
    pub fn eager() -> WuPolicy { WuPolicy { stream: WuMode::Eager, conn: WuMode::Eager, fallback_ns: 0 } }
}

#[derive(Clone, Debug, PartialEq, Serialize, Deserialize)]
pub enum AckPolicy {
    Immediate,
    Delay(u64),
    Never,
}

/// Connection-level behaviour common to both roles.
#[derive(Clone, Debug, PartialEq, Serialize, Deserialize)]
pub struct H2ConnPlan {
    /// first SETTINGS frame
    pub settings: SettingsSpec,
    pub changes: Vec<SettingsChange>,
    /// WINDOW_UPDATE on stream 0 sent right after the first SETTINGS (0 = none)
    pub conn_window_bonus: u32,
    pub wu: WuPolicy,
    pub ack_settings: AckPolicy,
    pub answer_pings: bool,
    pub hpack: HpackStyle,
    /// payload units (a header block, one DATA frame, one burst of an abuse op) produced per step
    pub batch: u32,
    /// client role: do not send the connection preface (C15: first bytes are the abuse)
    #[serde(default)]
    pub no_preface: bool,
    /// do not send the initial SETTINGS frame (C15: preface-only state)
    #[serde(default)]
    pub no_settings: bool,
}
impl Default for H2ConnPlan {
    fn default() -> Self {
        H2ConnPlan {
            settings: SettingsSpec::default(),
            changes: vec![],
            conn_window_bonus: 0,
            wu: WuPolicy::eager(),
            ack_settings: AckPolicy::Immediate,
            answer_pings: true,
            hpack: HpackStyle::default(),
            batch: 1,
            no_preface: false,
            no_settings: false,
        }
    }
}

/// How a message ends.
#[derive(Clone, Debug, PartialEq, Serialize, Deserialize)]
pub enum EndMode {
    /// END_STREAM on the last DATA frame, or on HEADERS when there is no body
    Auto,
    /// a separate empty DATA frame carries END_STREAM
    EmptyData,
    /// a trailing HEADERS frame carries END_STREAM
    Trailers(Vec<(String, String)>),
    /// never end the stream
    Never,
}

#[derive(Clone, Debug, PartialEq, Serialize, Deserialize)]
pub struct BodyPlan {
    pub len: usize,
    /// DATA payload sizes in order (0 = an empty DATA frame); what is left afterwards goes out in
    /// frames as large as the peer allows. A size that does not fit the windows / frame limit is split.
    pub frames: Vec<usize>,
    /// padding per DATA frame, cycled (`Some(0)` = PADDED flag with no padding); empty = none
    pub pad: Vec<Option<u8>>,
    pub end: EndMode,
    /// send a content-length header
    pub content_length: bool,
}
impl BodyPlan {
    pub fn none() -> BodyPlan { BodyPlan { len: 0, frames: vec![], pad: vec![], end: EndMode::Auto, content_length: false } }
    pub fn of(len: usize) -> BodyPlan { BodyPlan { len, frames: vec![], pad: vec![], end: EndMode::Auto, content_length: true } }
}

/// Reset one of our own streams part-way.
#[derive(Clone, Debug, PartialEq, Serialize, Deserialize)]
pub struct Cancel {
    /// once this many body bytes were sent (0 = right after HEADERS)
    pub after_sent_body: Option<u64>,
    /// once this many body bytes of the answer were received
    pub after_recv_body: Option<u64>,
    pub code: u32,
}

#[derive(Clone, Debug, PartialEq, Serialize, Deserialize)]
pub struct H2ReqSpec {
    pub id: u64,
    pub method: String,
    /// `None` = "https" over TLS, "http" otherwise
    pub scheme: Option<String>,
    pub authority: Option<String>,
    pub path: String,
    pub headers: Vec<(String, String)>,
    pub body: BodyPlan,
    /// header block fragment sizes: first in HEADERS, the others in CONTINUATION frames (zeros
    /// give empty frames); the rest follows in frames as large as allowed. Empty = no forced split.
    pub cont_split: Vec<usize>,
    pub priority: Option<Priority>,
    pub headers_pad: Option<u8>,
    /// think time before the stream is opened
    pub delay_ns: u64,
    pub cancel: Option<Cancel>,
    /// replaces the whole header list, pseudo-headers included (malformed-request tests)
    pub raw_headers: Option<Vec<(String, String)>>,
    /// replaces the encoded header block
    pub raw_block: Option<Vec<u8>>,
}
impl H2ReqSpec {
    pub fn get(id: u64, authority: &str, path: &str) -> H2ReqSpec {
        H2ReqSpec {
            id, method: "GET".into(), scheme: None, authority: Some(authority.into()), path: path.into(), headers: vec![], body: BodyPlan::none(),
            cont_split: vec![], priority: None, headers_pad: None, delay_ns: 0, cancel: None, raw_headers: None, raw_block: None,
        }
    }
    pub fn post(id: u64, authority: &str, path: &str, len: usize) -> H2ReqSpec {
        let mut r = H2ReqSpec::get(id, authority, path);
        r.method = "POST".into();
        r.body = BodyPlan::of(len);
        r
    }
    pub fn header_list(&self, tls: bool) -> Vec<(String, String)> {
        if let Some(r) = &self.raw_headers { return r.clone(); }
        let mut v: Vec<(String, String)> = vec![(":method".into(), self.method.clone()), (":scheme".into(), self.scheme.clone().unwrap_or_else(|| if tls { "https" } else { "http" }.into()))];
        if let Some(a) = &self.authority { v.push((":authority".into(), a.clone())); }
        v.push((":path".into(), self.path.clone()));
        v.push(("x-sim-id".into(), self.id.to_string()));
        v.extend(self.headers.iter().cloned());
        if self.body.content_length { v.push(("content-length".into(), self.body.len.to_string())); }
        v
    }
}

#[derive(Clone, Debug, PartialEq, Serialize, Deserialize)]
pub enum H2RespFault {
    /// RST_STREAM instead of any answer
    Refuse(u32),
    /// RST_STREAM once this many body bytes were sent
    RstAfterBody(u64, u32),
    /// GOAWAY(code) once this many body bytes were sent; `close` = then close the connection
    GoAwayAfterBody { body: u64, code: u32, close: bool },
    /// close the connection once this many body bytes were sent
    CloseAfterBody(u64),
}
#[derive(Clone, Copy, Debug, PartialEq, Eq, Serialize, Deserialize)]
pub enum RespondOn {
    Headers,
    EndStream,
}
#[derive(Clone, Debug, PartialEq, Serialize, Deserialize)]
pub struct H2RespSpec {
    pub status: u16,
    pub headers: Vec<(String, String)>,
    pub body: BodyPlan,
    pub cont_split: Vec<usize>,
    pub headers_pad: Option<u8>,
    pub delay_ns: u64,
    /// 1xx answers sent first (100, 103)
    pub interim: Vec<u16>,
    pub respond_on: RespondOn,
    pub fault: Option<H2RespFault>,
    /// abusive frames sent instead of an answer
    pub abuse: Vec<AbuseOp>,
}
impl H2RespSpec {
    pub fn ok(len: usize) -> H2RespSpec {
        H2RespSpec { status: 200, headers: vec![], body: BodyPlan::of(len), cont_split: vec![], headers_pad: None, delay_ns: 0, interim: vec![], respond_on: RespondOn::Headers, fault: None, abuse: vec![] }
    }
    pub fn header_list(&self, id: Option<u64>) -> Vec<(String, String)> {
        let mut v: Vec<(String, String)> = vec![(":status".into(), self.status.to_string())];
        if let Some(id) = id { v.push(("x-sim-id".into(), id.to_string())); }
        v.extend(self.headers.iter().cloned());
        if self.body.content_length { v.push(("content-length".into(), self.body.len.to_string())); }
        v
    }
}

// ------------------------------------------------------------------------------- abuse (C15)

/// Which stream an abusive frame names.
#[derive(Clone, Debug, PartialEq, Serialize, Deserialize)]
pub enum StreamRef {
    Conn,
    Id(u32),
    /// the next unused id of ours (and use it up)
    Fresh,
    /// an id we have not reached yet: next unused + 2k, not used up
    Idle(u32),
    LastOpened,
    /// the most recent stream of ours that is fully closed
    LastClosed,
}
/// Pacing of a flood: `burst` frames (or frame groups) per step, then pause `gap_ns`.
#[derive(Clone, Debug, PartialEq, Serialize, Deserialize)]
pub struct Rate {
    pub burst: u32,
    pub gap_ns: u64,
}
impl Rate {
    pub fn all_at_once() -> Rate { Rate { burst: u32::MAX, gap_ns: 0 } }
}
#[derive(Clone, Debug, PartialEq, Serialize, Deserialize)]
pub enum AbuseOp {
    /// exactly these bytes
    Raw(Vec<u8>),
    /// exactly this frame: any type, flags, stream, declared length (`None` = payload length)
    Frame { ty: u8, flags: u8, stream: StreamRef, declared_len: Option<u32>, payload: Vec<u8> },
    /// `count` x (HEADERS on a fresh stream, RST_STREAM(code))
    RapidReset { count: u32, code: u32, authority: String, path: String, end_stream: bool, rate: Rate },
    /// HEADERS without END_HEADERS on a fresh stream, then `count` CONTINUATION frames each with one
    /// literal field of about `frag_len` bytes (0 = empty frames); `finish` sets END_HEADERS on the last
    /// `prelude`: (n, block) - first a complete header block (HEADERS + n CONTINUATION frames, END_HEADERS on the last) on a
    /// stream of its own
    ContinuationFlood { count: u32, frag_len: u32, finish: bool, authority: String, rate: Rate, prelude: Option<(u32, Vec<u8>)> },
    PingFlood { count: u32, ack: bool, rate: Rate },
    SettingsFlood { count: u32, params: Vec<(u16, u32)>, rate: Rate },
    /// POST on a fresh stream, then `count` empty DATA frames
    EmptyDataFlood { count: u32, pad: Option<u8>, end_stream_last: bool, authority: String, rate: Rate },
    /// one request carrying `fields` extra header fields with `field_len`-byte values
    OversizedHeaders { fields: u32, field_len: u32, authority: String },
    /// `count` WINDOW_UPDATE frames (increment 0 = zero increment; 0x7fffffff twice = overflow)
    WindowUpdate { stream: StreamRef, increment: u32, count: u32 },
    /// a request's HEADERS on the most recently closed stream of ours
    HeadersOnClosed { authority: String },
    /// `len` pseudo-random bytes keyed by `seed`
    Garbage { len: u32, seed: u64 },
    /// one DATA frame of `len` octets, charged against our connection send window like any DATA of ours (the plain `Frame`
    /// op is not: it is meant for frames whose fate is a connection error)
    CountedData { stream: StreamRef, len: u32, end_stream: bool },
    /// book-keeping only, nothing is sent: requests written as raw HEADERS frames with END_STREAM whose response is complete
    /// count as closed from here on (the `Frame` op does not record the request side), so that a scripted request can follow
    SettleRawStreams,
}

/// Client script, processed in order.
#[derive(Clone, Debug, PartialEq, Serialize, Deserialize)]
pub enum ClientOp {
    /// open a stream (waits while `max_concurrent` streams are in flight); it then runs on its own
    Req(H2ReqSpec),
    Abuse(AbuseOp),
    /// until every stream opened so far is closed
    WaitStreams,
    /// until this many frames have been received on the connection in total
    WaitFrames(u64),
    Sleep(u64),
    Settings(SettingsSpec),
    Ping([u8; 8]),
    GoAway { code: u32, last_stream: u32 },
}

#[derive(Clone, Debug, PartialEq, Serialize, Deserialize)]
pub enum CloseMode {
    /// close(2) (unread input turns into a reset, as with TCP)
    Close,
    /// TLS close_notify / shutdown(SHUT_WR), then wait for sozu to close (bounded by `linger_ns`)
    HalfClose,
    /// keep the connection and wait for sozu to close it (bounded by `linger_ns`)
    WaitPeer,
}
#[derive(Clone, Debug, PartialEq, Serialize, Deserialize)]
pub struct EndPlan {
    /// send GOAWAY(code) before ending
    pub goaway: Option<u32>,
    pub mode: CloseMode,
    /// keep observing the connection this long after the script is complete
    pub linger_ns: u64,
}
impl Default for EndPlan {
    fn default() -> Self { EndPlan { goaway: Some(ecode::NO_ERROR), mode: CloseMode::Close, linger_ns: 0 } }
}

#[derive(Clone, Debug, Serialize, Deserialize)]
pub struct H2ClientPlan {
    pub name: String,
    pub src: SocketAddr,
    pub dst: SocketAddr,
    pub start_ns: u64,
    pub pace: Pace,
    pub sndbuf: Option<i32>,
    /// `None` = cleartext with prior knowledge
    pub tls: Option<TlsPlan>,
    pub conn: H2ConnPlan,
    pub script: Vec<ClientOp>,
    /// streams of ours in flight at once (further capped by sozu's MAX_CONCURRENT_STREAMS)
    pub max_concurrent: u32,
    pub end: EndPlan,
    /// abandon the connection this long after connecting (0 = never)
    pub give_up_ns: u64,
}
impl H2ClientPlan {
    pub fn simple(name: &str, src: SocketAddr, dst: SocketAddr, tls: Option<TlsPlan>, reqs: Vec<H2ReqSpec>) -> H2ClientPlan {
        H2ClientPlan {
            name: name.into(), src, dst, start_ns: 0, pace: Pace::greedy(), sndbuf: None, tls, conn: H2ConnPlan::default(),
            script: reqs.into_iter().map(ClientOp::Req).collect(), max_concurrent: 100, end: EndPlan::default(), give_up_ns: 0,
        }
    }
    pub fn requests(&self) -> Vec<&H2ReqSpec> {
        self.script.iter().filter_map(|o| if let ClientOp::Req(r) = o { Some(r) } else { None }).collect()
    }
}

#[derive(Clone, Debug, Serialize, Deserialize)]
pub struct H2BackendPlan {
    pub name: String,
    pub addr: SocketAddr,
    pub pace: Pace,
    pub conn: H2ConnPlan,
    /// answers by `x-sim-id`
    pub responses: BTreeMap<u64, H2RespSpec>,
    pub default: H2RespSpec,
    /// abusive frames sent on every accepted connection right after our SETTINGS
    pub on_accept_abuse: Vec<AbuseOp>,
    pub close_on_accept: Vec<usize>,
    pub listen_from_ns: u64,
    pub listen_until_ns: u64,
}
impl H2BackendPlan {
    pub fn simple(name: &str, addr: SocketAddr, responses: BTreeMap<u64, H2RespSpec>) -> H2BackendPlan {
        H2BackendPlan { name: name.into(), addr, pace: Pace::greedy(), conn: H2ConnPlan::default(), responses, default: H2RespSpec::ok(3), on_accept_abuse: vec![], close_on_accept: vec![], listen_from_ns: 0, listen_until_ns: 0 }
    }
}

// ===================================================================================== records

#[derive(Clone, Debug, PartialEq, Serialize, Deserialize)]
pub struct LedgerViolation {
    /// stream_window_exceeded | conn_window_exceeded | frame_too_large | too_many_streams |
    /// illegal_stream_id | hpack_table_exceeded | hpack_decode_error | hpack_missing_size_update |
    /// data_on_closed_stream | data_on_idle_stream | headers_on_closed_stream |
    /// continuation_interleaved | malformed_frame | bad_preface | unexpected_settings_ack |
    /// invalid_settings_value | zero_window_increment | window_overflow | push_promise |
    /// header_list_too_large | frame_on_idle_stream.
    /// Suffix `_pre_ack`: exceeds the acknowledged value but not a value of ours that is on the wire
    /// and not acknowledged yet (a relaxation sozu already read but has not acknowledged).
    pub kind: String,
    pub stream: u32,
    pub t: u64,
    pub detail: String,
}

/// Reach probes of the ledger.
#[derive(Clone, Debug, Default, PartialEq, Serialize, Deserialize)]
pub struct LedgerCounters {
    pub conn_window_zero_hits: u64,
    pub stream_window_zero_hits: u64,
    /// stream windows driven below zero by an acknowledged INITIAL_WINDOW_SIZE reduction
    pub negative_window_settings_applied: u64,
    pub max_frame_seen: u32,
    /// streams opened by sozu / by us
    pub streams_opened_by_peer: u64,
    pub streams_opened_by_us: u64,
    pub max_concurrent_seen: u32,
    pub data_after_our_rst: u64,
    pub streams_after_our_goaway: u64,
    /// times one of our DATA frames had to wait for / be cut to sozu's connection / stream window
    pub send_blocked_conn: u64,
    pub send_blocked_stream: u64,
    /// longest virtual time we were unable to send any DATA because of sozu's windows
    pub max_send_blocked_ns: u64,
    pub window_updates_sent: u64,
    pub violations_dropped: u64,
}

#[derive(Clone, Debug, Default, Serialize, Deserialize)]
pub struct StreamRec {
    pub id: u32,
    pub opened_by_us: bool,
    /// id of the plan's request sent on this stream (client role)
    pub req_id: Option<u64>,
    /// `x-sim-id` observed in the headers sozu sent on this stream
    pub sim_id: Option<u64>,
    /// first non-1xx header block received (request in the server role, response in the client role)
    pub headers: Vec<(String, String)>,
    pub status: Option<u16>,
    pub interim: Vec<u16>,
    pub trailers: Vec<(String, String)>,
    /// HEADERS + CONTINUATION frames received
    pub header_frames: u32,
    /// size of the first header list as RFC 9113 §6.5.2 counts it
    pub header_list_size: u64,
    /// malformed-message notes (uppercase names, connection-specific fields, pseudo-header faults...)
    pub header_issues: Vec<String>,
    pub check: BodyCheck,
    pub body_len: u64,
    pub body_head: Vec<u8>,
    pub data_frames: u32,
    pub padding_bytes: u64,
    pub recv_end: bool,
    /// which frame carried END_STREAM: "headers" | "data" | "empty_data" | "trailers"
    pub recv_end_on: String,
    pub recv_rst: Option<u32>,
    pub sent_end: bool,
    pub sent_rst: Option<u32>,
    /// ... and the frame is completely on the wire
    pub sent_end_wire: bool,
    pub sent_rst_wire: bool,
    /// GOAWAY from sozu with last_stream_id below this stream
    pub refused_by_goaway: bool,
    /// the plan never ends our side of this stream (`EndMode::Never`)
    pub left_open_by_plan: bool,
    pub sent_body: u64,
    pub t_open: u64,
    pub t_headers: u64,
    pub t_end: u64,
    pub t_rst: u64,
    /// our last byte (END_STREAM frame) reached the wire
    pub t_sent_end: u64,
    /// sum of WINDOW_UPDATE increments sozu sent for this stream
    pub wu_recv: u64,
    // --- ledger: what we granted sozu on this stream
    pub recv_window: i64,
    pub min_recv_window: i64,
    pub owed: u64,
    pub owed_since: u64,
    // --- what sozu granted us
    pub send_window: i64,
}
impl StreamRec {
    pub fn header(&self, name: &str) -> Option<&str> {
        self.headers.iter().find(|(n, _)| n.eq_ignore_ascii_case(name)).map(|(_, v)| v.as_str())
    }
    pub fn body_ok(&self) -> bool { self.check.first_bad.is_none() }
    /// both directions finished, or reset by either side
    pub fn closed(&self) -> bool { self.recv_rst.is_some() || self.sent_rst.is_some() || (self.recv_end && self.sent_end) }
    /// nothing more will happen on it as far as the plan goes
    pub fn settled(&self) -> bool { self.closed() || self.refused_by_goaway || (self.left_open_by_plan && self.recv_end) }
    /// as sozu can know it: counts against our MAX_CONCURRENT_STREAMS until this is true
    fn closed_on_wire(&self) -> bool { self.recv_rst.is_some() || self.sent_rst_wire || (self.recv_end && self.sent_end_wire) }
    /// sozu may still send DATA here
    fn receiving(&self) -> bool { !self.recv_end && self.recv_rst.is_none() }
}

#[derive(Clone, Debug, Default, PartialEq, Serialize, Deserialize)]
pub struct GoAwayRec {
    pub t: u64,
    pub last_stream: u32,
    pub code: u32,
    pub debug: Vec<u8>,
}
#[derive(Clone, Debug, Default, PartialEq, Serialize, Deserialize)]
pub struct SettingsSent {
    pub t_queued: u64,
    pub params: Vec<(u16, u32)>,
    pub t_wire: Option<u64>,
    pub t_acked: Option<u64>,
}
#[derive(Clone, Debug, Default, PartialEq, Serialize, Deserialize)]
pub struct AbuseSent {
    pub op: usize,
    pub t_start: u64,
    pub t_end: u64,
    pub frames: u64,
    pub bytes: u64,
    /// fresh stream ids the op used
    pub streams: Vec<u32>,
}

#[derive(Clone, Debug, Serialize, Deserialize)]
pub struct H2ConnRecord {
    pub role: Role,
    /// accept order (server role)
    pub idx: usize,
    pub connect_err: Option<i32>,
    pub t_connect: u64,
    pub tls: Option<TlsRecord>,
    pub tls_setup_error: Option<String>,
    /// client connection preface received (server role)
    pub preface_ok: bool,
    /// SETTINGS frames received from sozu
    pub peer_settings: Vec<(u64, Vec<(u16, u32)>)>,
    pub settings_sent: Vec<SettingsSent>,
    pub settings_acks_recv: u32,
    pub settings_acks_sent: u32,
    /// (t, opaque data, ack flag)
    pub pings_recv: Vec<(u64, [u8; 8], bool)>,
    pub pings_sent: u32,
    pub goaways: Vec<GoAwayRec>,
    pub goaway_sent: Option<(u64, u32)>,
    /// (t, stream, increment), first 4096 only; sums are in `conn_wu_recv` / `StreamRec::wu_recv`
    pub window_updates_recv: Vec<(u64, u32, u32)>,
    pub conn_wu_recv: u64,
    /// (t, stream, code)
    pub rst_recv: Vec<(u64, u32, u32)>,
    /// (t, stream, code)
    pub rst_sent: Vec<(u64, u32, u32)>,
    pub frames_recv: BTreeMap<u8, u64>,
    pub frames_recv_total: u64,
    pub frames_sent: u64,
    pub data_bytes_recv: u64,
    pub data_bytes_sent: u64,
    pub bytes_recv: u64,
    pub bytes_sent: u64,
    pub streams: BTreeMap<u32, StreamRec>,
    pub violations: Vec<LedgerViolation>,
    pub counters: LedgerCounters,
    pub abuse_sent: Vec<AbuseSent>,
    /// requests of the script never sent (connection gone / GOAWAY received)
    pub requests_not_sent: Vec<u64>,
    pub script_done: bool,
    pub eof: bool,
    pub reset: bool,
    pub io_err: Option<i32>,
    pub write_err: Option<i32>,
    pub t_close_seen: u64,
    pub closed_by_us: bool,
    pub t_closed_by_us: u64,
    pub gave_up: bool,
    /// ledger state at the end
    pub conn_recv_window: i64,
    pub min_conn_recv_window: i64,
    pub conn_send_window: i64,
}
impl H2ConnRecord {
    fn new(role: Role) -> H2ConnRecord {
        H2ConnRecord {
            role, idx: 0, connect_err: None, t_connect: 0, tls: None, tls_setup_error: None, preface_ok: false, peer_settings: vec![], settings_sent: vec![],
            settings_acks_recv: 0, settings_acks_sent: 0, pings_recv: vec![], pings_sent: 0, goaways: vec![], goaway_sent: None, window_updates_recv: vec![],
            conn_wu_recv: 0, rst_recv: vec![], rst_sent: vec![], frames_recv: BTreeMap::new(), frames_recv_total: 0, frames_sent: 0, data_bytes_recv: 0,
            data_bytes_sent: 0, bytes_recv: 0, bytes_sent: 0, streams: BTreeMap::new(), violations: vec![], counters: LedgerCounters::default(),
            abuse_sent: vec![], requests_not_sent: vec![], script_done: false, eof: false, reset: false, io_err: None, write_err: None, t_close_seen: 0,
            closed_by_us: false, t_closed_by_us: 0, gave_up: false, conn_recv_window: DEFAULT_WINDOW as i64, min_conn_recv_window: DEFAULT_WINDOW as i64,
            conn_send_window: DEFAULT_WINDOW as i64,
        }
    }
    /// the stream that carried request `id` (client role: by what we sent; server role: by what arrived)
    pub fn stream_for(&self, id: u64) -> Option<&StreamRec> {
        self.streams.values().find(|s| if self.role == Role::Client { s.req_id == Some(id) } else { s.sim_id == Some(id) })
    }
    pub fn has_violation(&self, kind: &str) -> bool { self.violations.iter().any(|v| v.kind == kind) }
    /// connection is over as far as this peer saw
    pub fn ended(&self) -> bool { self.eof || self.io_err.is_some() || self.closed_by_us }
}

/// Settings in force in one direction.
#[derive(Clone, Copy, Debug, PartialEq)]
struct Limits {
    header_table_size: u32,
    enable_push: u32,
    max_concurrent: u32,
    initial_window: u32,
    max_frame: u32,
    max_header_list: u32,
}
impl Default for Limits {
    fn default() -> Self {
        Limits { header_table_size: DEFAULT_TABLE_SIZE, enable_push: 1, max_concurrent: u32::MAX, initial_window: DEFAULT_WINDOW, max_frame: DEFAULT_MAX_FRAME, max_header_list: u32::MAX }
    }
}
impl Limits {
    fn set(&mut self, id: u16, v: u32) {
        match id {
            sid::HEADER_TABLE_SIZE => self.header_table_size = v,
            sid::ENABLE_PUSH => self.enable_push = v,
            sid::MAX_CONCURRENT_STREAMS => self.max_concurrent = v,
            sid::INITIAL_WINDOW_SIZE => self.initial_window = v,
            sid::MAX_FRAME_SIZE => self.max_frame = v,
            sid::MAX_HEADER_LIST_SIZE => self.max_header_list = v,
            _ => {}
        }
    }
}

// ===================================================================================== engine

/// Send-side state of one stream of ours (request body in the client role, answer in the server role).
struct Tx {
    key: u64,
    body_len: u64,
    frames: VecDeque<usize>,
    pad: Vec<Option<u8>>,
    pad_i: usize,
    end: EndMode,
    cancel: Option<Cancel>,
    fault: Option<H2RespFault>,
    done: bool,
}

/// Ledger effects that become true when the bytes carrying them are on the wire.
#[derive(Clone, Debug)]
enum Mark {
    Wu { stream: u32, inc: u32 },
    EndStream(u32),
    Rst(u32),
    Settings(usize),
}

struct Cont {
    stream: u32,
    end_stream: bool,
    block: Vec<u8>,
    frames: u32,
}

struct PendingResp {
    stream: u32,
    id: Option<u64>,
    spec: H2RespSpec,
    /// `None` = waiting for the request's END_STREAM
    ready_at: Option<u64>,
}

pub struct EngineStep {
    pub progressed: bool,
    pub wake: Option<u64>,
    pub finished: bool,
}

/// One HTTP/2 connection endpoint over any [`Transport`].
pub struct H2Peer {
    pub role: Role,
    pub plan: H2ConnPlan,
    pub pace: Pace,
    pub rec: H2ConnRecord,
    tr: Box<dyn Transport>,
    is_tls: bool,
    rng: Prng,
    reader: FrameReader,
    enc: HpackEncoder,
    dec: HpackDecoder,
    // ---- plaintext output
    out: Vec<u8>,
    out_pos: usize,
    /// plaintext bytes ever queued (= stream offset of the end of `out`)
    out_total: u64,
    marks: VecDeque<(u64, Mark)>,
    // ---- our settings: in force (acknowledged by sozu) and sent but not yet acknowledged
    acked: Limits,
    unacked: VecDeque<(usize, Vec<(u16, u32)>)>,
    // ---- sozu's settings and the credit it gave us
    peer: Limits,
    conn_send_window: i64,
    // ---- ledger: connection-level credit we gave sozu
    conn_recv_window: i64,
    owed_conn: u64,
    owed_conn_since: u64,
    last_recv_progress: u64,
    // ---- streams
    tx: BTreeMap<u32, Tx>,
    cont: Option<Cont>,
    next_stream_id: u32,
    last_peer_stream: u32,
    last_opened_by_us: u32,
    streams_opened: u32,
    // ---- control
    started: bool,
    t_start: u64,
    acks_owed: VecDeque<u64>,
    pings_owed: VecDeque<[u8; 8]>,
    changes_done: Vec<bool>,
    // ---- client script
    script: Vec<ClientOp>,
    cursor: usize,
    max_concurrent: u32,
    sleep_until: u64,
    req_ready_at: u64,
    end: EndPlan,
    give_up_at: u64,
    /// 0 running, 1 ending (flush, linger), 2 finished
    phase: u8,
    linger_until: u64,
    // ---- server answers
    responses: BTreeMap<u64, H2RespSpec>,
    default_resp: Option<H2RespSpec>,
    resp_queue: Vec<PendingResp>,
    close_after_flush: bool,
    // ---- abuse
    abuse_q: VecDeque<(usize, AbuseOp)>,
    abuse_i: u32,
    abuse_until: u64,
    abuse_stream: u32,
    in_cont_flood: bool,
    blocked_since: Option<u64>,
    shut_sent: bool,
}

const MAX_VIOLATIONS: usize = 64;

impl H2Peer {
    fn new(role: Role, tr: Box<dyn Transport>, is_tls: bool, plan: H2ConnPlan, pace: Pace, rng: Prng) -> H2Peer {
        let nchanges = plan.changes.len();
        let enc = HpackEncoder::new(plan.hpack.clone());
        H2Peer {
            role,
            plan,
            pace,
            rec: H2ConnRecord::new(role),
            tr,
            is_tls,
            rng,
            reader: FrameReader::new(role == Role::Server),
            enc,
            dec: HpackDecoder::new(),
            out: Vec::new(),
            out_pos: 0,
            out_total: 0,
            marks: VecDeque::new(),
            acked: Limits::default(),
            unacked: VecDeque::new(),
            peer: Limits::default(),
            conn_send_window: DEFAULT_WINDOW as i64,
            conn_recv_window: DEFAULT_WINDOW as i64,
            owed_conn: 0,
            owed_conn_since: 0,
            last_recv_progress: 0,
            tx: BTreeMap::new(),
            cont: None,
            next_stream_id: if role == Role::Client { 1 } else { 2 },
            last_peer_stream: 0,
            last_opened_by_us: 0,
            streams_opened: 0,
            started: false,
            t_start: 0,
            acks_owed: VecDeque::new(),
            pings_owed: VecDeque::new(),
            changes_done: vec![false; nchanges],
            script: Vec::new(),
            cursor: 0,
            max_concurrent: u32::MAX,
            sleep_until: 0,
            req_ready_at: 0,
            end: EndPlan::default(),
            give_up_at: 0,
            phase: 0,
            linger_until: 0,
            responses: BTreeMap::new(),
            default_resp: None,
            resp_queue: Vec::new(),
            close_after_flush: false,
            abuse_q: VecDeque::new(),
            abuse_i: 0,
            abuse_until: 0,
            abuse_stream: 0,
            in_cont_flood: false,
            blocked_since: None,
            shut_sent: false,
        }
    }

    /// Client endpoint running `script`.
    pub fn client(tr: Box<dyn Transport>, is_tls: bool, plan: &H2ClientPlan, rng: Prng) -> H2Peer {
        let mut p = H2Peer::new(Role::Client, tr, is_tls, plan.conn.clone(), plan.pace.clone(), rng);
        p.script = plan.script.clone();
        p.max_concurrent = plan.max_concurrent.max(1);
        p.end = plan.end.clone();
        p
    }
    /// Server endpoint answering from `responses` (h2c backend).
    pub fn server(tr: Box<dyn Transport>, plan: &H2BackendPlan, rng: Prng) -> H2Peer {
        let mut p = H2Peer::new(Role::Server, tr, false, plan.conn.clone(), plan.pace.clone(), rng);
        p.responses = plan.responses.clone();
        p.default_resp = Some(plan.default.clone());
        for (i, op) in plan.on_accept_abuse.iter().enumerate() {
            p.abuse_q.push_back((i, op.clone()));
        }
        p
    }

    /// Snapshot of the record, ledger end state included.
    pub fn record(&self) -> H2ConnRecord {
        let mut r = self.rec.clone();
        r.tls = self.tr.tls().cloned();
        r.conn_recv_window = self.conn_recv_window;
        r.conn_send_window = self.conn_send_window;
        r.bytes_sent = self.tr.wire_written();
        r.bytes_recv = self.tr.wire_read();
        r.write_err = self.tr.write_error();
        r
    }
    pub fn finished(&self) -> bool { self.phase == 2 }

    // ---------------------------------------------------------------- small helpers

    fn violate(&mut self, now: u64, kind: &str, stream: u32, detail: String) {
        if self.rec.violations.iter().any(|v| v.kind == kind && v.stream == stream) || self.rec.violations.len() >= MAX_VIOLATIONS {
            self.rec.counters.violations_dropped += 1;
            return;
        }
        self.rec.violations.push(LedgerViolation { kind: kind.to_string(), stream, t: now, detail });
    }

    /// largest value of a setting among what is acknowledged and what is on the wire unacknowledged
    fn relaxed(&self, id: u16, acked: u32) -> u32 {
        let mut m = acked;
        for (idx, params) in &self.unacked {
            if self.rec.settings_sent[*idx].t_wire.is_some() {
                for (i, v) in params {
                    if *i == id { m = m.max(*v); }
                }
            }
        }
        m
    }

    fn push_bytes(&mut self, b: &[u8], frames: u64) {
        self.out.extend_from_slice(b);
        self.out_total += b.len() as u64;
        self.rec.frames_sent += frames;
    }
    fn push_frame(&mut self, f: &Frame) {
        let b = f.encode();
        self.push_bytes(&b, 1);
    }
    fn mark(&mut self, m: Mark) {
        self.marks.push_back((self.out_total, m));
    }

    /// Apply the ledger effects of everything that is completely on the wire.
    fn apply_marks(&mut self, now: u64) {
        let wire = self.tr.plain_on_wire();
        while let Some((off, _)) = self.marks.front() {
            if *off > wire { break; }
            let (_, m) = self.marks.pop_front().unwrap();
            match m {
                Mark::Wu { stream: 0, inc } => self.conn_recv_window += inc as i64,
                Mark::Wu { stream, inc } => {
                    if let Some(s) = self.rec.streams.get_mut(&stream) { s.recv_window += inc as i64; }
                }
                Mark::EndStream(id) => {
                    if let Some(s) = self.rec.streams.get_mut(&id) { s.sent_end_wire = true; s.t_sent_end = now; }
                }
                Mark::Rst(id) => {
                    if let Some(s) = self.rec.streams.get_mut(&id) { s.sent_rst_wire = true; }
                }
                Mark::Settings(idx) => self.rec.settings_sent[idx].t_wire = Some(now),
            }
        }
    }

    fn send_settings(&mut self, now: u64, params: Vec<(u16, u32)>) {
        let idx = self.rec.settings_sent.len();
        self.rec.settings_sent.push(SettingsSent { t_queued: now, params: params.clone(), t_wire: None, t_acked: None });
        self.push_frame(&Frame::Settings { ack: false, params: params.clone() });
        self.mark(Mark::Settings(idx));
        self.unacked.push_back((idx, params));
    }
    fn send_rst(&mut self, now: u64, stream: u32, code: u32) {
        self.push_frame(&Frame::RstStream { stream, code });
        self.mark(Mark::Rst(stream));
        self.rec.rst_sent.push((now, stream, code));
        if let Some(s) = self.rec.streams.get_mut(&stream) { s.sent_rst = Some(code); s.t_rst = now; }
        self.tx.remove(&stream);
    }
    fn send_goaway(&mut self, now: u64, last_stream: u32, code: u32) {
        self.push_frame(&Frame::GoAway { last_stream, code, debug: vec![] });
        if self.rec.goaway_sent.is_none() { self.rec.goaway_sent = Some((now, code)); }
    }

    fn new_stream_rec(&mut self, id: u32, by_us: bool, now: u64) -> &mut StreamRec {
        self.streams_opened += 1;
        if by_us { self.rec.counters.streams_opened_by_us += 1; } else { self.rec.counters.streams_opened_by_peer += 1; }
        let rw = self.acked.initial_window as i64;
        let sw = self.peer.initial_window as i64;
        self.rec.streams.entry(id).or_insert_with(|| StreamRec { id, opened_by_us: by_us, t_open: now, recv_window: rw, min_recv_window: rw, send_window: sw, ..Default::default() })
    }
    fn in_flight_ours(&self) -> u32 {
        self.rec.streams.values().filter(|s| s.opened_by_us && !s.closed()).count() as u32
    }

    /// HEADERS (+ CONTINUATION) for one header block, contiguous in the output.
    fn emit_header_block(&mut self, stream: u32, block: &[u8], end_stream: bool, cont_split: &[usize], priority: Option<Priority>, pad: Option<u8>) {
        let maxf = self.peer.max_frame as usize;
        let overhead = pad.map_or(0, |p| 1 + p as usize) + if priority.is_some() { 5 } else { 0 };
        let mut sizes: Vec<usize> = Vec::new();
        let mut left = block.len();
        for (i, s) in cont_split.iter().enumerate() {
            let cap = if i == 0 { maxf.saturating_sub(overhead) } else { maxf };
            let n = (*s).min(left).min(cap);
            sizes.push(n);
            left -= n;
        }
        while left > 0 || sizes.is_empty() {
            let cap = if sizes.is_empty() { maxf.saturating_sub(overhead).max(1) } else { maxf };
            let n = left.min(cap);
            sizes.push(n);
            left -= n;
        }
        let mut off = 0;
        let last = sizes.len() - 1;
        for (i, n) in sizes.iter().enumerate() {
            let fragment = block[off..off + n].to_vec();
            off += n;
            if i == 0 {
                self.push_frame(&Frame::Headers { stream, end_stream, end_headers: i == last, priority, fragment, pad });
            } else {
                self.push_frame(&Frame::Continuation { stream, end_headers: i == last, fragment });
            }
        }
        if end_stream {
            self.mark(Mark::EndStream(stream));
            if let Some(s) = self.rec.streams.get_mut(&stream) { s.sent_end = true; }
        }
    }

    // ---------------------------------------------------------------- inbound

    fn on_frame(&mut self, w: &mut World, raw: RawFrame) {
        let now = w.now;
        let h = raw.head;
        w.tr(0x2F00 + h.ty as u64, ((h.stream as u64) << 32) ^ ((h.flags as u64) << 24) ^ h.len as u64);
        self.rec.frames_recv_total += 1;
        *self.rec.frames_recv.entry(h.ty).or_insert(0) += 1;
        if h.len > self.rec.counters.max_frame_seen { self.rec.counters.max_frame_seen = h.len; }
        // ---- frame size against what we advertised
        if h.len > self.acked.max_frame {
            let kind = if h.len <= self.relaxed(sid::MAX_FRAME_SIZE, self.acked.max_frame) { "frame_too_large_pre_ack" } else { "frame_too_large" };
            self.violate(now, kind, h.stream, format!("{} frame of {} octets, our MAX_FRAME_SIZE in force is {}", type_name(h.ty), h.len, self.acked.max_frame));
        }
        // ---- a header block in progress admits nothing but its CONTINUATION
        if let Some(c) = &self.cont {
            if h.ty != ftype::CONTINUATION || h.stream != c.stream {
                let cs = c.stream;
                self.violate(now, "continuation_interleaved", h.stream, format!("{} on stream {} while the header block of stream {cs} is open", type_name(h.ty), h.stream));
                self.cont = None;
            }
        } else if h.ty == ftype::CONTINUATION {
            self.violate(now, "continuation_interleaved", h.stream, "CONTINUATION without a preceding HEADERS".into());
            return;
        }
        let frame = match Frame::parse(&raw) {
            Ok(f) => f,
            Err(e) => {
                self.violate(now, "malformed_frame", h.stream, format!("{} len={} flags={:#x}: {}", type_name(h.ty), h.len, h.flags, e.why));
                if h.ty == ftype::DATA { self.account_data(now, h.stream, h.len as u64); }
                return;
            }
        };
        match frame {
            Frame::Settings { ack: false, params } => {
                self.rec.peer_settings.push((now, params.clone()));
                for (id, v) in &params {
                    let bad = match *id {
                        sid::ENABLE_PUSH => *v > 1,
                        sid::INITIAL_WINDOW_SIZE => *v as i64 > MAX_WINDOW,
                        sid::MAX_FRAME_SIZE => *v < DEFAULT_MAX_FRAME || *v > 0xff_ffff,
                        _ => false,
                    };
                    if bad { self.violate(now, "invalid_settings_value", 0, format!("setting {id:#x} = {v}")); continue; }
                    if *id == sid::INITIAL_WINDOW_SIZE {
                        let delta = *v as i64 - self.peer.initial_window as i64;
                        for s in self.rec.streams.values_mut() {
                            if !s.sent_end && s.sent_rst.is_none() && s.recv_rst.is_none() { s.send_window += delta; }
                        }
                    }
                    if *id == sid::HEADER_TABLE_SIZE { self.enc.on_peer_table_size(*v); }
                    self.peer.set(*id, *v);
                }
                match self.plan.ack_settings {
                    AckPolicy::Immediate => self.acks_owed.push_back(now),
                    AckPolicy::Delay(d) => self.acks_owed.push_back(now + d),
                    AckPolicy::Never => {}
                }
            }
            Frame::Settings { ack: true, .. } => {
                self.rec.settings_acks_recv += 1;
                let Some((idx, params)) = self.unacked.pop_front() else {
                    self.violate(now, "unexpected_settings_ack", 0, "SETTINGS ACK with none of ours outstanding".into());
                    return;
                };
                self.rec.settings_sent[idx].t_acked = Some(now);
                for (id, v) in params {
                    match id {
                        sid::INITIAL_WINDOW_SIZE if v as i64 <= MAX_WINDOW => {
                            let delta = v as i64 - self.acked.initial_window as i64;
                            for s in self.rec.streams.values_mut() {
                                if s.receiving() {
                                    s.recv_window += delta;
                                    if s.recv_window < s.min_recv_window { s.min_recv_window = s.recv_window; }
                                    if s.recv_window < 0 && delta < 0 { self.rec.counters.negative_window_settings_applied += 1; }
                                }
                            }
                            self.acked.initial_window = v;
                        }
                        sid::HEADER_TABLE_SIZE => { self.dec.on_settings_acked(v); self.acked.header_table_size = v; }
                        sid::MAX_FRAME_SIZE if (DEFAULT_MAX_FRAME..=0xff_ffff).contains(&v) => self.acked.max_frame = v,
                        sid::MAX_CONCURRENT_STREAMS | sid::MAX_HEADER_LIST_SIZE | sid::ENABLE_PUSH => self.acked.set(id, v),
                        _ => {}
                    }
                }
            }
            Frame::Ping { ack, data } => {
                if self.rec.pings_recv.len() < 4096 { self.rec.pings_recv.push((now, data, ack)); }
                if !ack && self.plan.answer_pings { self.pings_owed.push_back(data); }
            }
            Frame::GoAway { last_stream, code, debug } => {
                self.rec.goaways.push(GoAwayRec { t: now, last_stream, code, debug });
                for s in self.rec.streams.values_mut() {
                    if s.opened_by_us && s.id > last_stream && !s.closed() { s.refused_by_goaway = true; }
                }
                let refused: Vec<u32> = self.rec.streams.values().filter(|s| s.refused_by_goaway).map(|s| s.id).collect();
                for id in refused { self.tx.remove(&id); }
            }
            Frame::WindowUpdate { stream, increment } => {
                if self.rec.window_updates_recv.len() < 4096 { self.rec.window_updates_recv.push((now, stream, increment)); }
                if increment == 0 {
                    self.violate(now, "zero_window_increment", stream, "WINDOW_UPDATE with increment 0".into());
                    return;
                }
                if stream == 0 {
                    self.rec.conn_wu_recv += increment as u64;
                    self.conn_send_window += increment as i64;
                    if self.conn_send_window > MAX_WINDOW { self.violate(now, "window_overflow", 0, format!("connection send window {} > 2^31-1", self.conn_send_window)); }
                } else if let Some(s) = self.rec.streams.get_mut(&stream) {
                    s.wu_recv += increment as u64;
                    s.send_window += increment as i64;
                    if s.send_window > MAX_WINDOW {
                        let sw = s.send_window;
                        self.violate(now, "window_overflow", stream, format!("stream send window {sw} > 2^31-1"));
                    }
                } else {
                    self.violate(now, "frame_on_idle_stream", stream, "WINDOW_UPDATE on a stream that was never opened".into());
                }
            }
            Frame::RstStream { stream, code } => {
                self.rec.rst_recv.push((now, stream, code));
                match self.rec.streams.get_mut(&stream) {
                    Some(s) => {
                        if s.recv_rst.is_none() { s.recv_rst = Some(code); s.t_rst = now; }
                        self.tx.remove(&stream);
                        self.resp_queue.retain(|p| p.stream != stream);
                    }
                    None => self.violate(now, "frame_on_idle_stream", stream, format!("RST_STREAM({}) on a stream that was never opened", ecode_name(code))),
                }
            }
            Frame::Priority { .. } | Frame::Unknown { .. } => {}
            Frame::PushPromise { stream, promised, .. } => {
                self.violate(now, "push_promise", stream, format!("PUSH_PROMISE promising stream {promised}"));
            }
            Frame::Headers { stream, end_stream, end_headers, fragment, .. } => {
                if end_headers {
                    self.on_header_block(w, stream, &fragment, end_stream, 1);
                } else {
                    self.cont = Some(Cont { stream, end_stream, block: fragment, frames: 1 });
                }
            }
            Frame::Continuation { stream, end_headers, fragment } => {
                if let Some(c) = self.cont.as_mut() {
                    c.block.extend_from_slice(&fragment);
                    c.frames += 1;
                    if end_headers {
                        let c = self.cont.take().unwrap();
                        self.on_header_block(w, stream, &c.block, c.end_stream, c.frames);
                    }
                }
            }
            Frame::Data { stream, end_stream, data, pad } => {
                self.account_data(now, stream, h.len as u64);
                self.on_data(now, stream, &data, pad, end_stream);
            }
        }
    }

    /// Flow-control ledger for one DATA frame of `flen` octets (padding included).
    fn account_data(&mut self, now: u64, stream: u32, flen: u64) {
        self.rec.data_bytes_recv += flen;
        self.last_recv_progress = now;
        if flen > 0 {
            if self.owed_conn == 0 { self.owed_conn_since = now; }
            self.owed_conn += flen;
            self.conn_recv_window -= flen as i64;
            if self.conn_recv_window < self.rec.min_conn_recv_window { self.rec.min_conn_recv_window = self.conn_recv_window; }
            if self.conn_recv_window == 0 { self.rec.counters.conn_window_zero_hits += 1; }
            if self.conn_recv_window < 0 {
                let cw = self.conn_recv_window;
                self.violate(now, "conn_window_exceeded", stream, format!("DATA of {flen} octets leaves the connection window we granted at {cw}"));
            }
        }
        let relax = (self.relaxed(sid::INITIAL_WINDOW_SIZE, self.acked.initial_window) as i64 - self.acked.initial_window as i64).max(0);
        let mut v: Option<(&str, i64)> = None;
        if let Some(s) = self.rec.streams.get_mut(&stream) {
            if s.receiving() && s.sent_rst.is_none() && flen > 0 {
                if s.owed == 0 { s.owed_since = now; }
                s.owed += flen;
                s.recv_window -= flen as i64;
                if s.recv_window < s.min_recv_window { s.min_recv_window = s.recv_window; }
                if s.recv_window == 0 { self.rec.counters.stream_window_zero_hits += 1; }
                if s.recv_window < 0 {
                    v = Some((if s.recv_window + relax >= 0 { "stream_window_exceeded_pre_ack" } else { "stream_window_exceeded" }, s.recv_window));
                }
            }
        }
        if let Some((kind, sw)) = v {
            self.violate(now, kind, stream, format!("DATA of {flen} octets leaves the stream window we granted at {sw}"));
        }
    }

    fn on_data(&mut self, now: u64, stream: u32, data: &[u8], pad: Option<u8>, end_stream: bool) {
        let Some(s) = self.rec.streams.get_mut(&stream) else {
            let ours = (stream % 2 == 1) == (self.role == Role::Client);
            let idle = if ours { stream >= self.next_stream_id } else { stream > self.last_peer_stream };
            if self.rec.goaway_sent.is_some() && !ours { return; }
            self.violate(now, if idle { "data_on_idle_stream" } else { "data_on_closed_stream" }, stream, format!("DATA ({} octets) on a stream that is not open", data.len()));
            return;
        };
        if s.sent_rst.is_some() && s.recv_rst.is_none() && !s.recv_end {
            // frames in flight when our RST_STREAM left: tolerated (RFC 9113 §5.1), still counted above
            self.rec.counters.data_after_our_rst += 1;
            return;
        }
        if s.recv_end || s.recv_rst.is_some() {
            let why = if s.recv_end { "after sozu's own END_STREAM" } else { "after sozu's own RST_STREAM" };
            self.violate(now, "data_on_closed_stream", stream, format!("DATA ({} octets) {why}", data.len()));
            return;
        }
        if s.t_headers == 0 && s.interim.is_empty() && s.headers.is_empty() {
            s.header_issues.push("DATA before any header block".into());
        }
        s.data_frames += 1;
        s.padding_bytes += pad.map_or(0, |p| p as u64 + 1);
        if s.sim_id.is_some() { s.check.feed(data); }
        if s.body_head.len() < 512 {
            let k = (512 - s.body_head.len()).min(data.len());
            s.body_head.extend_from_slice(&data[..k]);
        }
        s.body_len += data.len() as u64;
        if end_stream {
            s.recv_end = true;
            s.recv_end_on = if data.is_empty() { "empty_data" } else { "data" }.into();
            s.t_end = now;
            s.owed = 0;
        }
    }

    fn on_header_block(&mut self, w: &mut World, stream: u32, block: &[u8], end_stream: bool, frames: u32) {
        let now = w.now;
        // ---- HPACK (always decoded, whatever the stream, to keep the shared state)
        let decoded = match self.dec.decode(block) {
            Ok(d) => {
                if d.update_exceeds_advertised { self.violate(now, "hpack_table_exceeded", stream, format!("table size update {:?}, advertised {}", d.size_updates, self.dec.allowed)); }
                if d.missing_size_update { self.violate(now, "hpack_missing_size_update", stream, "first header block after our acknowledged HEADER_TABLE_SIZE reduction does not start with a table size update".into()); }
                Some(d)
            }
            Err(e) => {
                let kind = if e.contains("InvalidMaxDynamicSize") { "hpack_table_exceeded" } else { "hpack_decode_error" };
                self.violate(now, kind, stream, format!("decoder holding our advertised table size {} rejects the block: {e}", self.dec.allowed));
                None
            }
        };
        let fields = decoded.map(|d| d.fields).unwrap_or_default();
        // ---- which stream
        let ours = (stream % 2 == 1) == (self.role == Role::Client);
        if !self.rec.streams.contains_key(&stream) {
            if ours || self.role == Role::Client {
                self.violate(now, "illegal_stream_id", stream, if ours { "HEADERS on a stream of ours that we never opened".to_string() } else { format!("sozu opened stream {stream} towards a client") });
                return;
            }
            if stream % 2 == 0 || stream <= self.last_peer_stream {
                self.violate(now, "illegal_stream_id", stream, format!("new stream {stream} after stream {} (ids must be odd and strictly increasing)", self.last_peer_stream));
                return;
            }
            self.last_peer_stream = stream;
            if self.rec.goaway_sent.is_some() {
                self.rec.counters.streams_after_our_goaway += 1;
                return;
            }
            let open = self.rec.streams.values().filter(|s| !s.opened_by_us && !s.closed_on_wire()).count() as u32 + 1;
            if open > self.rec.counters.max_concurrent_seen { self.rec.counters.max_concurrent_seen = open; }
            if open > self.acked.max_concurrent {
                let kind = if open <= self.relaxed(sid::MAX_CONCURRENT_STREAMS, self.acked.max_concurrent) { "too_many_streams_pre_ack" } else { "too_many_streams" };
                self.violate(now, kind, stream, format!("{open} streams open, our MAX_CONCURRENT_STREAMS in force is {}", self.acked.max_concurrent));
            }
            self.new_stream_rec(stream, false, now);
        }
        let list_size: u64 = fields.iter().map(|(n, v)| n.len() as u64 + v.len() as u64 + 32).sum();
        let max_list = self.acked.max_header_list;
        let role = self.role;
        let s = self.rec.streams.get_mut(&stream).unwrap();
        s.header_frames += frames;
        if s.recv_end || s.recv_rst.is_some() {
            self.violate(now, "headers_on_closed_stream", stream, "HEADERS after sozu ended or reset the stream".into());
            return;
        }
        if s.sent_rst.is_some() { return; }
        let status: Option<u16> = fields.iter().find(|(n, _)| n == ":status").and_then(|(_, v)| v.parse().ok());
        let first = s.headers.is_empty() && s.t_headers == 0;
        if first && role == Role::Client && status.map_or(false, |c| (100..200).contains(&c) && c != 101) {
            s.interim.push(status.unwrap());
            if end_stream { s.header_issues.push("END_STREAM on an interim response".into()); }
        } else if first {
            s.header_issues.extend(header_issues(&fields, role));
            s.header_list_size = list_size;
            s.status = status;
            s.sim_id = fields.iter().find(|(n, _)| n == "x-sim-id").and_then(|(_, v)| v.trim().parse().ok());
            if let Some(id) = s.sim_id { s.check = BodyCheck::new(id * 2 + if role == Role::Server { 0 } else { 1 }); }
            s.headers = fields;
            s.t_headers = now;
            if end_stream { s.recv_end = true; s.recv_end_on = "headers".into(); s.t_end = now; }
        } else {
            if !end_stream { s.header_issues.push("trailing HEADERS without END_STREAM".into()); }
            if fields.iter().any(|(n, _)| n.starts_with(':')) { s.header_issues.push("pseudo-header in trailers".into()); }
            s.trailers = fields;
            if end_stream { s.recv_end = true; s.recv_end_on = "trailers".into(); s.t_end = now; s.owed = 0; }
        }
        let (sim_id, t_headers_now) = (s.sim_id, first && s.t_headers == now && !s.headers.is_empty());
        if list_size > max_list as u64 {
            self.violate(now, "header_list_too_large", stream, format!("header list of {list_size} octets, our MAX_HEADER_LIST_SIZE in force is {max_list}"));
        }
        // ---- server role: schedule the answer
        if role == Role::Server && t_headers_now {
            let spec = sim_id.and_then(|id| self.responses.get(&id).cloned()).or_else(|| self.default_resp.clone());
            if let Some(spec) = spec {
                let ready_at = match spec.respond_on { RespondOn::Headers => Some(now + spec.delay_ns), RespondOn::EndStream => None };
                self.resp_queue.push(PendingResp { stream, id: sim_id, spec, ready_at });
            }
        }
    }

    // ---------------------------------------------------------------- outbound: control

    fn when_reached(&self, wh: &When, now: u64) -> bool {
        match wh {
            When::RecvData(n) => self.rec.data_bytes_recv >= *n,
            When::RecvFrames(n) => self.rec.frames_recv_total >= *n,
            When::SentData(n) => self.rec.data_bytes_sent >= *n,
            When::StreamsOpened(n) => self.streams_opened >= *n,
            When::AfterNs(d) => now >= self.t_start + *d,
        }
    }

    fn wu_amount(mode: &WuMode, owed: u64, window: i64, since: u64, now: u64, force: bool) -> u64 {
        if owed == 0 { return 0; }
        if force { return owed; }
        match mode {
            WuMode::Eager => owed,
            WuMode::Drip(n) => owed.min((*n).max(1) as u64),
            WuMode::Threshold(n) => if owed >= *n as u64 { owed } else { 0 },
            WuMode::WhenExhausted => if window <= 0 { owed } else { 0 },
            WuMode::Late(d) => if now >= since + *d { owed } else { 0 },
            WuMode::Never => 0,
        }
    }

    /// Control frames that are due. Returns true if anything was queued.
    fn gen_control(&mut self, now: u64) -> bool {
        let before = self.out_total;
        if !self.started {
            self.started = true;
            self.t_start = now;
            if self.role == Role::Client && !self.plan.no_preface { self.push_bytes(PREFACE, 0); }
            if !self.plan.no_settings {
                let params = self.plan.settings.params();
                self.send_settings(now, params);
            }
            if self.plan.conn_window_bonus > 0 {
                let inc = self.plan.conn_window_bonus;
                self.push_frame(&Frame::WindowUpdate { stream: 0, increment: inc });
                self.mark(Mark::Wu { stream: 0, inc });
            }
        }
        if self.in_cont_flood { return self.out_total > before; }
        while self.acks_owed.front().map_or(false, |t| *t <= now) {
            self.acks_owed.pop_front();
            self.push_frame(&Frame::Settings { ack: true, params: vec![] });
            self.rec.settings_acks_sent += 1;
        }
        while let Some(d) = self.pings_owed.pop_front() {
            self.push_frame(&Frame::Ping { ack: true, data: d });
        }
        for i in 0..self.plan.changes.len() {
            if !self.changes_done[i] && self.when_reached(&self.plan.changes[i].when.clone(), now) {
                self.changes_done[i] = true;
                let params = self.plan.changes[i].settings.params();
                self.send_settings(now, params);
            }
        }
        // ---- cancellations of our own streams
        let due: Vec<(u32, u32)> = self.tx.iter().filter_map(|(id, t)| {
            let c = t.cancel.as_ref()?;
            let s = self.rec.streams.get(id)?;
            let hit = c.after_sent_body.map_or(false, |n| s.sent_body >= n) || c.after_recv_body.map_or(false, |n| s.body_len >= n && (n > 0 || s.t_headers > 0));
            if hit { Some((*id, c.code)) } else { None }
        }).collect();
        for (id, code) in due { self.send_rst(now, id, code); }
        // ---- WINDOW_UPDATE
        let force = self.plan.wu.fallback_ns > 0 && now >= self.last_recv_progress + self.plan.wu.fallback_ns;
        let n = Self::wu_amount(&self.plan.wu.conn, self.owed_conn, self.conn_recv_window, self.owed_conn_since, now, force);
        if n > 0 {
            self.owed_conn -= n;
            self.owed_conn_since = now;
            self.push_frame(&Frame::WindowUpdate { stream: 0, increment: n as u32 });
            self.mark(Mark::Wu { stream: 0, inc: n as u32 });
            self.rec.counters.window_updates_sent += 1;
        }
        let mode = self.plan.wu.stream.clone();
        let grants: Vec<(u32, u64)> = self.rec.streams.values().filter(|s| s.owed > 0 && s.receiving() && s.sent_rst.is_none())
            .filter_map(|s| { let n = Self::wu_amount(&mode, s.owed, s.recv_window, s.owed_since, now, force); if n > 0 { Some((s.id, n)) } else { None } }).collect();
        for (id, n) in grants {
            let s = self.rec.streams.get_mut(&id).unwrap();
            s.owed -= n;
            s.owed_since = now;
            self.push_frame(&Frame::WindowUpdate { stream: id, increment: n as u32 });
            self.mark(Mark::Wu { stream: id, inc: n as u32 });
            self.rec.counters.window_updates_sent += 1;
        }
        self.out_total > before
    }

    /// Earliest virtual time at which a timed control action becomes due.
    fn next_timer(&self, now: u64) -> Option<u64> {
        let mut t: Option<u64> = None;
        let mut add = |x: u64| { if x > now { t = Some(t.map_or(x, |y: u64| y.min(x))); } };
        if let Some(a) = self.acks_owed.front() { add(*a); }
        for (i, c) in self.plan.changes.iter().enumerate() {
            if let (false, When::AfterNs(d)) = (self.changes_done[i], &c.when) { add(self.t_start + *d); }
        }
        let any_owed = self.owed_conn > 0 || self.rec.streams.values().any(|s| s.owed > 0 && s.receiving());
        if any_owed {
            if self.plan.wu.fallback_ns > 0 { add(self.last_recv_progress + self.plan.wu.fallback_ns); }
            if let (WuMode::Late(d), true) = (&self.plan.wu.conn, self.owed_conn > 0) { add(self.owed_conn_since + *d); }
            if let WuMode::Late(d) = &self.plan.wu.stream {
                for s in self.rec.streams.values() { if s.owed > 0 && s.receiving() { add(s.owed_since + *d); } }
            }
        }
        for p in &self.resp_queue { if let Some(r) = p.ready_at { add(r); } }
        if self.sleep_until > now { add(self.sleep_until); }
        if self.req_ready_at > now { add(self.req_ready_at); }
        if self.abuse_until > now && !self.abuse_q.is_empty() { add(self.abuse_until); }
        if self.give_up_at > 0 { add(self.give_up_at); }
        if self.phase == 1 { add(self.linger_until); }
        t
    }

    // ---------------------------------------------------------------- outbound: messages

    fn make_tx(key: u64, body: &BodyPlan, cancel: Option<Cancel>, fault: Option<H2RespFault>) -> Tx {
        Tx { key, body_len: body.len as u64, frames: body.frames.iter().copied().collect(), pad: body.pad.clone(), pad_i: 0, end: body.end.clone(), cancel, fault, done: false }
    }

    fn open_request(&mut self, now: u64, r: &H2ReqSpec) {
        let id = self.next_stream_id;
        self.next_stream_id += 2;
        self.last_opened_by_us = id;
        let left_open = r.body.end == EndMode::Never;
        let s = self.new_stream_rec(id, true, now);
        s.req_id = Some(r.id);
        s.left_open_by_plan = left_open;
        let block = match &r.raw_block { Some(b) => b.clone(), None => { let l = r.header_list(self.is_tls); self.enc.encode_block(&l) } };
        let end_now = r.body.len == 0 && r.body.frames.is_empty() && r.body.end == EndMode::Auto;
        self.emit_header_block(id, &block, end_now, &r.cont_split, r.priority, r.headers_pad);
        if !end_now || r.cancel.is_some() {
            let mut t = Self::make_tx(r.id * 2, &r.body, r.cancel.clone(), None);
            t.done = end_now;
            self.tx.insert(id, t);
        }
    }

    fn start_response(&mut self, now: u64, p: PendingResp) {
        let Some(s) = self.rec.streams.get(&p.stream) else { return };
        if s.closed() { return; }
        if !p.spec.abuse.is_empty() {
            for (i, op) in p.spec.abuse.iter().enumerate() { self.abuse_q.push_back((1000 + i, op.clone())); }
            self.abuse_stream = p.stream;
            return;
        }
        if let Some(H2RespFault::Refuse(code)) = p.spec.fault { self.send_rst(now, p.stream, code); return; }
        for st in &p.spec.interim {
            let b = self.enc.encode_block(&[(":status".to_string(), st.to_string())]);
            self.emit_header_block(p.stream, &b, false, &[], None, None);
        }
        let l = p.spec.header_list(p.id);
        let block = self.enc.encode_block(&l);
        let end_now = p.spec.body.len == 0 && p.spec.body.frames.is_empty() && p.spec.body.end == EndMode::Auto;
        self.emit_header_block(p.stream, &block, end_now, &p.spec.cont_split, None, p.spec.headers_pad);
        if !end_now {
            self.tx.insert(p.stream, Self::make_tx(p.id.unwrap_or(0) * 2 + 1, &p.spec.body, None, p.spec.fault.clone()));
        }
    }

    /// One DATA frame (or the stream's terminator) for `id`. Returns true if something was queued.
    fn gen_data(&mut self, now: u64, id: u32) -> bool {
        let (peer_max, conn_w) = (self.peer.max_frame as i64, self.conn_send_window);
        let Some(t) = self.tx.get_mut(&id) else { return false };
        let Some(s) = self.rec.streams.get_mut(&id) else { return false };
        if t.done { return false; }
        let left = t.body_len - s.sent_body;
        // ---- body finished: terminator
        if left == 0 && t.frames.iter().all(|n| *n != 0) {
            t.done = true;
            match t.end.clone() {
                EndMode::Auto if t.body_len == 0 => {
                    // empty body announced by frames only: close with an empty DATA frame
                    self.push_frame(&Frame::Data { stream: id, end_stream: true, data: vec![], pad: None });
                }
                EndMode::EmptyData => self.push_frame(&Frame::Data { stream: id, end_stream: true, data: vec![], pad: None }),
                EndMode::Trailers(tr) => {
                    let b = self.enc.encode_block(&tr);
                    self.emit_header_block(id, &b, true, &[], None, None);
                    return true;
                }
                EndMode::Auto | EndMode::Never => return false,
            }
            self.mark(Mark::EndStream(id));
            self.rec.streams.get_mut(&id).unwrap().sent_end = true;
            return true;
        }
        // ---- next DATA frame
        let pad = if t.pad.is_empty() { None } else { let p = t.pad[t.pad_i % t.pad.len()]; p };
        let overhead = pad.map_or(0, |p| 1 + p as i64);
        let scripted = t.frames.front().copied();
        let want = scripted.map_or(left, |n| (n as u64).min(left)) as i64;
        let mut n = want;
        if want > 0 || overhead > 0 {
            let room = conn_w.min(s.send_window).min(peer_max) - overhead;
            if room < want {
                if conn_w - overhead < want { self.rec.counters.send_blocked_conn += 1; }
                if s.send_window - overhead < want { self.rec.counters.send_blocked_stream += 1; }
            }
            if room <= 0 && want > 0 || room < 0 { return false; }
            n = want.min(room);
        }
        let n = n as u64;
        match scripted {
            Some(sz) if (sz as u64) > n && left > n => { *t.frames.front_mut().unwrap() = sz - n as usize; }
            Some(_) => { t.frames.pop_front(); }
            None => {}
        }
        if !t.pad.is_empty() { t.pad_i += 1; }
        let data: Vec<u8> = (s.sent_body..s.sent_body + n).map(|i| gen_byte(t.key, i)).collect();
        s.sent_body += n;
        s.send_window -= n as i64 + overhead;
        self.conn_send_window -= n as i64 + overhead;
        self.rec.data_bytes_sent += n;
        let end_stream = t.end == EndMode::Auto && s.sent_body == t.body_len && t.body_len > 0;
        if end_stream { t.done = true; s.sent_end = true; }
        let (sent, fault) = (s.sent_body, t.fault.clone());
        self.push_frame(&Frame::Data { stream: id, end_stream, data, pad });
        if end_stream { self.mark(Mark::EndStream(id)); }
        // ---- scripted faults of the answering side
        match fault {
            Some(H2RespFault::RstAfterBody(b, code)) if sent >= b => self.send_rst(now, id, code),
            Some(H2RespFault::GoAwayAfterBody { body, code, close }) if sent >= body => {
                let last = self.last_peer_stream;
                self.send_goaway(now, last, code);
                if let Some(t) = self.tx.get_mut(&id) { t.fault = None; }
                if close { self.close_after_flush = true; }
            }
            Some(H2RespFault::CloseAfterBody(b)) if sent >= b => self.close_after_flush = true,
            _ => {}
        }
        true
    }

    /// Streams that could send now, in id order.
    fn sendable(&self) -> Vec<u32> {
        self.tx.iter().filter(|(id, t)| !t.done && self.rec.streams.get(id).map_or(false, |s| !s.closed() && !s.sent_end)).map(|(id, _)| *id).collect()
    }

    // ---------------------------------------------------------------- outbound: abuse

    fn resolve(&mut self, r: &StreamRef) -> u32 {
        match r {
            StreamRef::Conn => 0,
            StreamRef::Id(n) => *n,
            StreamRef::Fresh => self.fresh_stream(0),
            StreamRef::Idle(k) => self.next_stream_id + 2 * k,
            StreamRef::LastOpened => if self.role == Role::Client { self.last_opened_by_us } else { self.abuse_stream.max(self.last_peer_stream) },
            StreamRef::LastClosed => self.rec.streams.values().rev().find(|s| (s.opened_by_us || self.role == Role::Server) && s.closed()).map_or(self.last_opened_by_us, |s| s.id),
        }
    }
    /// use up the next stream id of ours (client role) and register it
    fn fresh_stream(&mut self, now: u64) -> u32 {
        let id = self.next_stream_id;
        self.next_stream_id += 2;
        self.last_opened_by_us = id;
        self.new_stream_rec(id, true, now);
        if let Some(a) = self.rec.abuse_sent.last_mut() { if a.streams.len() < 64 { a.streams.push(id); } }
        id
    }
    fn plain_request_block(&mut self, method: &str, authority: &str, path: &str, extra: &[(String, String)]) -> Vec<u8> {
        let mut l: Vec<(String, String)> = vec![(":method".into(), method.into()), (":scheme".into(), if self.is_tls { "https" } else { "http" }.into()), (":authority".into(), authority.into()), (":path".into(), path.into())];
        l.extend_from_slice(extra);
        self.enc.encode_block(&l)
    }

    /// One burst of the abuse op at the head of the queue. Returns true if bytes were queued.
    fn abuse_step(&mut self, now: u64) -> bool {
        let Some((idx, op)) = self.abuse_q.front().cloned() else { return false };
        if now < self.abuse_until { return false; }
        if self.abuse_i == 0 {
            self.rec.abuse_sent.push(AbuseSent { op: idx, t_start: now, t_end: now, frames: 0, bytes: 0, streams: vec![] });
        }
        let (bytes0, frames0) = (self.out_total, self.rec.frames_sent);
        let (total, rate) = match &op {
            AbuseOp::RapidReset { count, rate, .. } | AbuseOp::PingFlood { count, rate, .. } | AbuseOp::SettingsFlood { count, rate, .. } => (*count, rate.clone()),
            AbuseOp::ContinuationFlood { count, rate, .. } | AbuseOp::EmptyDataFlood { count, rate, .. } => (*count + 1, rate.clone()),
            AbuseOp::WindowUpdate { count, .. } => (*count, Rate::all_at_once()),
            _ => (1, Rate::all_at_once()),
        };
        let upto = total.min(self.abuse_i.saturating_add(rate.burst.max(1)));
        for i in self.abuse_i..upto {
            match &op {
                AbuseOp::Raw(b) => self.push_bytes(b, 0),
                AbuseOp::Garbage { len, seed } => {
                    let b: Vec<u8> = (0..*len as u64).map(|i| gen_byte(*seed, i)).collect();
                    self.push_bytes(&b, 0);
                }
                AbuseOp::Frame { ty, flags, stream, declared_len, payload } => {
                    let sid_ = self.resolve(stream);
                    let mut f = RawFrame::new(*ty, *flags, sid_, payload.clone());
                    if let Some(l) = declared_len { f = f.with_declared_len(*l); }
                    if *ty == ftype::SETTINGS && flags & flag::ACK == 0 && sid_ == 0 && declared_len.is_none() && payload.len() % 6 == 0 {
                        // a well-formed SETTINGS of ours will be acknowledged: keep the ledger in step
                        if let Ok(Frame::Settings { params, .. }) = Frame::parse(&f) {
                            let idx = self.rec.settings_sent.len();
                            self.rec.settings_sent.push(SettingsSent { t_queued: now, params: params.clone(), t_wire: None, t_acked: None });
                            self.push_bytes(&f.encode(), 1);
                            self.mark(Mark::Settings(idx));
                            self.unacked.push_back((idx, params));
                            continue;
                        }
                    }
                    self.push_bytes(&f.encode(), 1);
                }
                AbuseOp::RapidReset { code, authority, path, end_stream, .. } => {
                    let id = self.fresh_stream(now);
                    let b = self.plain_request_block("GET", authority, &format!("{path}{i}"), &[]);
                    self.emit_header_block(id, &b, *end_stream, &[], None, None);
                    self.send_rst(now, id, *code);
                }
                AbuseOp::ContinuationFlood { count, frag_len, finish, authority, prelude, .. } => {
                    if i == 0 {
                        if let Some((n, block)) = prelude {
                            let pid = self.fresh_stream(now);
                            self.push_frame(&Frame::Headers { stream: pid, end_stream: true, end_headers: false, priority: None, fragment: block.clone(), pad: None });
                            for k in 1..=*n { self.push_frame(&Frame::Continuation { stream: pid, end_headers: k == *n, fragment: vec![] }); }
                            self.mark(Mark::EndStream(pid));
                            if let Some(s) = self.rec.streams.get_mut(&pid) { s.sent_end = true; }
                        }
                        let id = self.fresh_stream(now);
                        self.abuse_stream = id;
                        let b = self.plain_request_block("GET", authority, "/continuation-flood", &[]);
                        self.push_frame(&Frame::Headers { stream: id, end_stream: true, end_headers: false, priority: None, fragment: b, pad: None });
                        self.in_cont_flood = true;
                    } else {
                        let mut frag = Vec::new();
                        if *frag_len > 0 {
                            let v = "c".repeat((*frag_len as usize).saturating_sub(12).max(1));
                            HpackEncoder::literal(&mut frag, format!("x-c{}", i % 10).as_bytes(), v.as_bytes(), Repr::NoIndex, None, false);
                        }
                        let last = i == *count;
                        self.push_frame(&Frame::Continuation { stream: self.abuse_stream, end_headers: last && *finish, fragment: frag });
                        if last { self.in_cont_flood = false; }
                    }
                }
                AbuseOp::SettleRawStreams => { for s in self.rec.streams.values_mut() { if s.opened_by_us && s.recv_end && !s.sent_end { s.sent_end = true; } } }
                AbuseOp::CountedData { stream, len, end_stream } => {
                    let sid_ = self.resolve(stream);
                    self.push_frame(&Frame::Data { stream: sid_, end_stream: *end_stream, data: vec![b'x'; *len as usize], pad: None });
                    self.conn_send_window -= *len as i64;
                }
                AbuseOp::PingFlood { ack, .. } => self.push_frame(&Frame::Ping { ack: *ack, data: (i as u64).to_be_bytes() }),
                AbuseOp::SettingsFlood { params, .. } => self.send_settings(now, params.clone()),
                AbuseOp::EmptyDataFlood { count, pad, end_stream_last, authority, .. } => {
                    if i == 0 {
                        let id = if self.role == Role::Client { self.fresh_stream(now) } else { self.abuse_stream };
                        self.abuse_stream = id;
                        if self.role == Role::Client {
                            let b = self.plain_request_block("POST", authority, "/empty-data-flood", &[]);
                            self.emit_header_block(id, &b, false, &[], None, None);
                        } else {
                            let b = self.enc.encode_block(&[(":status".to_string(), "200".to_string())]);
                            self.emit_header_block(id, &b, false, &[], None, None);
                        }
                    } else {
                        let end = i == *count && *end_stream_last;
                        self.push_frame(&Frame::Data { stream: self.abuse_stream, end_stream: end, data: vec![], pad: *pad });
                        if let Some(p) = pad { self.conn_send_window -= 1 + *p as i64; }
                        if end {
                            self.mark(Mark::EndStream(self.abuse_stream));
                            if let Some(s) = self.rec.streams.get_mut(&self.abuse_stream) { s.sent_end = true; }
                        }
                    }
                }
                AbuseOp::OversizedHeaders { fields, field_len, authority } => {
                    let id = self.fresh_stream(now);
                    let extra: Vec<(String, String)> = (0..*fields).map(|k| (format!("x-big-{k}"), "h".repeat(*field_len as usize))).collect();
                    let b = self.plain_request_block("GET", authority, "/oversized-headers", &extra);
                    self.emit_header_block(id, &b, true, &[], None, None);
                }
                AbuseOp::WindowUpdate { stream, increment, .. } => {
                    let sid_ = self.resolve(stream);
                    self.push_frame(&Frame::WindowUpdate { stream: sid_, increment: *increment });
                }
                AbuseOp::HeadersOnClosed { authority } => {
                    let sid_ = self.resolve(&StreamRef::LastClosed);
                    let b = self.plain_request_block("GET", authority, "/headers-on-closed", &[]);
                    self.push_frame(&Frame::Headers { stream: sid_, end_stream: true, end_headers: true, priority: None, fragment: b, pad: None });
                }
            }
        }
        self.abuse_i = upto;
        if let Some(a) = self.rec.abuse_sent.last_mut() {
            a.t_end = now;
            a.frames += self.rec.frames_sent - frames0;
            a.bytes += self.out_total - bytes0;
        }
        if upto >= total {
            self.abuse_q.pop_front();
            self.abuse_i = 0;
            self.in_cont_flood = false;
        } else if rate.gap_ns > 0 {
            self.abuse_until = now + rate.gap_ns;
        }
        self.out_total > bytes0
    }

    // ---------------------------------------------------------------- outbound: scheduling

    /// One payload unit. Returns true if something was queued or the script advanced.
    fn gen_payload(&mut self, now: u64) -> bool {
        if !self.abuse_q.is_empty() {
            return self.abuse_step(now);
        }
        // ---- answers that are due (server role)
        for p in self.resp_queue.iter_mut() {
            if p.ready_at.is_none() {
                if let Some(s) = self.rec.streams.get(&p.stream) { if s.recv_end { p.ready_at = Some(s.t_end + p.spec.delay_ns); } }
            }
        }
        if let Some(i) = self.resp_queue.iter().position(|p| p.ready_at.map_or(false, |t| t <= now)) {
            let p = self.resp_queue.remove(i);
            self.start_response(now, p);
            return true;
        }
        // ---- next step of the client script
        if self.role == Role::Client && self.cursor < self.script.len() && now >= self.sleep_until && self.phase == 0 {
            let gone = !self.rec.goaways.is_empty();
            match self.script[self.cursor].clone() {
                ClientOp::Req(r) => {
                    if gone {
                        self.rec.requests_not_sent.push(r.id);
                        self.cursor += 1;
                        return true;
                    }
                    if self.in_flight_ours() < self.max_concurrent.min(self.peer.max_concurrent) {
                        if r.delay_ns > 0 && self.req_ready_at == 0 { self.req_ready_at = now + r.delay_ns; }
                        if now >= self.req_ready_at {
                            self.req_ready_at = 0;
                            self.open_request(now, &r);
                            self.cursor += 1;
                            return true;
                        }
                    }
                }
                ClientOp::Abuse(op) => {
                    self.abuse_q.push_back((self.cursor, op));
                    self.cursor += 1;
                    return self.abuse_step(now) || true;
                }
                ClientOp::WaitStreams => {
                    if self.rec.streams.values().all(|s| s.settled()) { self.cursor += 1; return true; }
                }
                ClientOp::WaitFrames(n) => {
                    if self.rec.frames_recv_total >= n { self.cursor += 1; return true; }
                }
                ClientOp::Sleep(d) => { self.sleep_until = now + d; self.cursor += 1; return true; }
                ClientOp::Settings(s) => { self.send_settings(now, s.params()); self.cursor += 1; return true; }
                ClientOp::Ping(d) => { self.push_frame(&Frame::Ping { ack: false, data: d }); self.rec.pings_sent += 1; self.cursor += 1; return true; }
                ClientOp::GoAway { code, last_stream } => { self.send_goaway(now, last_stream, code); self.cursor += 1; return true; }
            }
        }
        // ---- one DATA frame of some stream
        let cand = self.sendable();
        if !cand.is_empty() {
            let start = self.rng.below(cand.len() as u64) as usize;
            for k in 0..cand.len() {
                if self.gen_data(now, cand[(start + k) % cand.len()]) {
                    if let Some(t0) = self.blocked_since.take() {
                        let d = now - t0;
                        if d > self.rec.counters.max_send_blocked_ns { self.rec.counters.max_send_blocked_ns = d; }
                    }
                    return true;
                }
            }
            if self.blocked_since.is_none() { self.blocked_since = Some(now); }
        }
        false
    }

    // ---------------------------------------------------------------- life cycle

    fn unsent_requests(&mut self) {
        while self.cursor < self.script.len() {
            if let ClientOp::Req(r) = &self.script[self.cursor] { self.rec.requests_not_sent.push(r.id); }
            self.cursor += 1;
        }
    }
    fn close_now(&mut self, now: u64) {
        if self.phase != 2 {
            self.tr.close();
            self.rec.closed_by_us = true;
            self.rec.t_closed_by_us = now;
            self.phase = 2;
            self.unsent_requests();
        }
    }
    fn peer_closed(&mut self, now: u64) {
        self.rec.t_close_seen = now;
        self.tr.close();
        self.phase = 2;
        self.unsent_requests();
    }
    fn flushed(&self) -> bool {
        self.out_pos >= self.out.len() && self.tr.pending_out() == 0
    }

    /// One scheduling quantum: at most one socket read and one socket write.
    pub fn step(&mut self, w: &mut World) -> EngineStep {
        if self.phase == 2 {
            return EngineStep { progressed: false, wake: None, finished: true };
        }
        let now = w.now;
        let mut progressed = false;
        let (w0, r0) = (self.tr.wire_written(), self.tr.wire_read());
        if self.give_up_at > 0 && now >= self.give_up_at {
            self.rec.gave_up = true;
            self.close_now(now);
            return EngineStep { progressed: true, wake: None, finished: true };
        }
        // ---- read
        let rq = self.pace.rq.draw(&mut self.rng).min(1 << 20);
        let mut buf = Vec::new();
        match self.tr.read(w, &mut buf, rq) {
            ReadOutcome::Data(_) => {
                progressed = true;
                self.reader.feed(&buf);
                while let Some(raw) = self.reader.next() {
                    self.on_frame(w, raw);
                }
                if self.reader.preface_seen { self.rec.preface_ok = true; }
                if self.reader.bad_preface {
                    self.violate(now, "bad_preface", 0, "connection does not start with the HTTP/2 client preface".into());
                    self.close_now(now);
                    return EngineStep { progressed: true, wake: None, finished: true };
                }
            }
            ReadOutcome::WouldBlock => {}
            ReadOutcome::Eof => {
                self.rec.eof = true;
                self.peer_closed(now);
                return EngineStep { progressed: true, wake: None, finished: true };
            }
            ReadOutcome::Err(e) => {
                self.rec.reset = e == libc::ECONNRESET;
                self.rec.io_err = Some(e);
                self.peer_closed(now);
                return EngineStep { progressed: true, wake: None, finished: true };
            }
        }
        self.apply_marks(now);
        // ---- generate
        if !self.tr.is_handshaking() && self.tr.write_error().is_none() {
            if self.gen_control(now) { progressed = true; }
            if self.out_pos >= self.out.len() && !self.close_after_flush {
                for _ in 0..self.plan.batch.max(1) {
                    if !self.gen_payload(now) { break; }
                    progressed = true;
                }
            }
            // ---- client: script complete and every stream closed -> end of the connection
            if self.role == Role::Client && self.phase == 0 && self.cursor >= self.script.len() && self.abuse_q.is_empty() && self.started
                && self.rec.streams.values().all(|s| s.settled())
            {
                self.rec.script_done = true;
                if let Some(code) = self.end.goaway { self.send_goaway(now, 0, code); }
                self.phase = 1;
                self.linger_until = now + self.end.linger_ns;
                progressed = true;
            }
        }
        self.tx.retain(|id, t| !(t.done && t.cancel.is_none()) && self.rec.streams.get(id).map_or(false, |s| !s.closed()));
        // ---- write
        if self.out_pos < self.out.len() || self.tr.pending_out() > 0 || self.tr.is_handshaking() {
            let q = self.pace.wq.draw(&mut self.rng);
            let n = self.tr.write(w, &self.out[self.out_pos..], q);
            self.out_pos += n;
            if self.out_pos >= self.out.len() {
                self.out.clear();
                self.out_pos = 0;
            } else if self.out_pos > (1 << 16) {
                self.out.drain(..self.out_pos);
                self.out_pos = 0;
            }
        }
        self.apply_marks(now);
        if let (Some(e), None) = (self.tr.write_error(), self.rec.write_err) {
            // EPIPE / ECONNRESET: nothing more can be sent; keep reading what is left
            self.rec.write_err = Some(e);
            self.out.clear();
            self.out_pos = 0;
            progressed = true;
        }
        if self.tr.wire_written() != w0 || self.tr.wire_read() != r0 { progressed = true; }
        // ---- endings
        if self.close_after_flush && self.flushed() {
            self.close_now(now);
            return EngineStep { progressed: true, wake: None, finished: true };
        }
        if self.phase == 1 && (self.flushed() || self.tr.write_error().is_some()) {
            match self.end.mode {
                CloseMode::Close => {
                    if now >= self.linger_until { self.close_now(now); return EngineStep { progressed: true, wake: None, finished: true }; }
                }
                CloseMode::HalfClose | CloseMode::WaitPeer => {
                    if self.end.mode == CloseMode::HalfClose && !self.shut_sent {
                        self.tr.shutdown_write();
                        self.shut_sent = true;
                        progressed = true;
                    }
                    if now >= self.linger_until && self.flushed() { self.close_now(now); return EngineStep { progressed: true, wake: None, finished: true }; }
                }
            }
        }
        EngineStep { progressed, wake: self.next_timer(now), finished: false }
    }
}

/// Message-level faults in a header list received from sozu (`role` is *our* role).
fn header_issues(fields: &[(String, String)], role: Role) -> Vec<String> {
    let mut v = Vec::new();
    let mut regular_seen = false;
    for (n, val) in fields {
        if n.starts_with(':') {
            if regular_seen { v.push(format!("pseudo-header {n} after a regular field")); }
            let known = if role == Role::Server { matches!(n.as_str(), ":method" | ":scheme" | ":authority" | ":path" | ":protocol") } else { n == ":status" };
            if !known { v.push(format!("pseudo-header {n} not allowed here")); }
        } else {
            regular_seen = true;
        }
        if n.bytes().any(|b| b.is_ascii_uppercase()) { v.push(format!("uppercase field name {n}")); }
        if n.is_empty() || n.bytes().any(|b| b <= 0x20 || b == 0x7f) { v.push(format!("invalid field name {n:?}")); }
        if matches!(n.as_str(), "connection" | "keep-alive" | "proxy-connection" | "transfer-encoding" | "upgrade") { v.push(format!("connection-specific field {n}")); }
        if n == "te" && val != "trailers" { v.push("te other than trailers".into()); }
        if val.bytes().any(|b| b == b'\r' || b == b'\n' || b == 0) { v.push(format!("invalid character in the value of {n}")); }
    }
    let count = |name: &str| fields.iter().filter(|(n, _)| n == name).count();
    if role == Role::Server {
        let connect = fields.iter().any(|(n, v)| n == ":method" && v == "CONNECT");
        if count(":method") != 1 { v.push(format!("{} :method fields", count(":method"))); }
        if !connect && count(":scheme") != 1 { v.push(format!("{} :scheme fields", count(":scheme"))); }
        if !connect && count(":path") != 1 { v.push(format!("{} :path fields", count(":path"))); }
        if count(":authority") > 1 { v.push("several :authority fields".into()); }
    } else if count(":status") != 1 {
        v.push(format!("{} :status fields", count(":status")));
    }
    v
}

// ===================================================================================== actors

/// One HTTP/2 client connection (to sozu's HTTPS listener when `plan.tls` is set).
pub struct H2Client {
    pub plan: H2ClientPlan,
    pub peer: Option<H2Peer>,
    /// record of a connection that could not even be set up
    early: H2ConnRecord,
    rng: Prng,
    state: u8,
    start_at: u64,
}
impl H2Client {
    pub fn new(plan: H2ClientPlan, rng: Prng) -> H2Client {
        H2Client { plan, peer: None, early: H2ConnRecord::new(Role::Client), rng, state: 0, start_at: 0 }
    }
    pub fn record(&self) -> H2ConnRecord {
        match &self.peer { Some(p) => p.record(), None => self.early.clone() }
    }
    fn finish(&mut self, w: &mut World) -> Step {
        self.state = 2;
        w.board_add("clients_done", 1);
        Step::Done
    }
}
impl Actor for H2Client {
    fn name(&self) -> String { self.plan.name.clone() }
    fn as_any(&mut self) -> &mut dyn Any { self }
    fn as_any_ref(&self) -> &dyn Any { self }
    fn step(&mut self, w: &mut World) -> Step {
        match self.state {
            0 => {
                if w.board_get("configured") == 0 { return Step::Blocked; }
                if self.plan.start_ns > 0 && self.start_at == 0 { self.start_at = w.now + self.plan.start_ns; }
                if w.now < self.start_at { return Step::Sleep(self.start_at); }
                let fd = match w.peer_connect(&self.plan.src.clone(), &self.plan.dst.clone(), self.plan.sndbuf) {
                    Ok(fd) => fd,
                    Err(e) => { self.early.connect_err = Some(e); self.early.requests_not_sent = self.plan.requests().iter().map(|r| r.id).collect(); return self.finish(w); }
                };
                let tr: Box<dyn Transport> = match &self.plan.tls {
                    None => Box::new(PlainTransport::new(fd)),
                    Some(t) => match TlsTransport::new(fd, t) {
                        Ok(t) => Box::new(t),
                        Err(e) => { sys::close(fd); self.early.tls_setup_error = Some(e); return self.finish(w); }
                    },
                };
                let mut p = H2Peer::client(tr, self.plan.tls.is_some(), &self.plan, self.rng.fork("engine"));
                p.rec.t_connect = w.now;
                if self.plan.give_up_ns > 0 { p.give_up_at = w.now + self.plan.give_up_ns; }
                self.peer = Some(p);
                self.state = 1;
                Step::Progress
            }
            1 => {
                let p = self.peer.as_mut().unwrap();
                let r = p.step(w);
                if r.finished { return self.finish(w); }
                if r.progressed {
                    if let Some(t) = self.plan.pace.gap(w, &mut self.rng) { return Step::Sleep(t); }
                    return Step::Progress;
                }
                match r.wake { Some(t) => Step::Idle(t), None => Step::Blocked }
            }
            _ => Step::Done,
        }
    }
}

/// Prior-knowledge cleartext HTTP/2 server: the backend sozu dials when the cluster has `http2: true`.
pub struct H2Backend {
    pub plan: H2BackendPlan,
    lfd: i32,
    conns: Vec<H2Peer>,
    pub records: Vec<H2ConnRecord>,
    rng: Prng,
    accepted: usize,
    listening: bool,
}
impl H2Backend {
    pub fn new(plan: H2BackendPlan, rng: Prng) -> H2Backend {
        H2Backend { plan, lfd: -1, conns: Vec::new(), records: Vec::new(), rng, accepted: 0, listening: false }
    }
    /// all connection records (finished and live), in accept order
    pub fn all_records(&self) -> Vec<H2ConnRecord> {
        let mut v = self.records.clone();
        for c in &self.conns { v.push(c.record()); }
        v.sort_by_key(|r| r.idx);
        v
    }
    pub fn shutdown(&mut self) {
        for c in self.conns.drain(..) { self.records.push(c.record()); }
        if self.lfd >= 0 { sys::close(self.lfd); self.lfd = -1; }
    }
}
impl Actor for H2Backend {
    fn name(&self) -> String { self.plan.name.clone() }
    fn as_any(&mut self) -> &mut dyn Any { self }
    fn as_any_ref(&self) -> &dyn Any { self }
    fn class(&self) -> u8 { 1 }
    fn step(&mut self, w: &mut World) -> Step {
        if !self.listening && self.lfd < 0 && (self.plan.listen_until_ns == 0 || w.now < self.plan.listen_until_ns) {
            if w.now < self.plan.listen_from_ns { return Step::Sleep(self.plan.listen_from_ns); }
            match w.peer_listen(&self.plan.addr.clone()) {
                Ok(fd) => { self.lfd = fd; self.listening = true; return Step::Progress; }
                Err(e) => panic!("h2 backend listen failed: errno {e}"),
            }
        }
        if self.listening && self.plan.listen_until_ns > 0 && w.now >= self.plan.listen_until_ns {
            sys::close(self.lfd);
            self.lfd = -1;
            self.listening = false;
            w.stats.fault("backend_listener_closed");
        }
        let mut progressed = false;
        if self.listening {
            if let Ok((fd, _peer)) = sys::accept_unix(self.lfd, libc::SOCK_NONBLOCK | libc::SOCK_CLOEXEC) {
                let idx = self.accepted;
                self.accepted += 1;
                progressed = true;
                if self.plan.close_on_accept.contains(&idx) {
                    w.stats.fault("backend_close_on_accept");
                    sys::close(fd);
                    let mut r = H2ConnRecord::new(Role::Server);
                    r.idx = idx; r.t_connect = w.now; r.closed_by_us = true; r.t_closed_by_us = w.now;
                    self.records.push(r);
                } else {
                    let mut p = H2Peer::server(Box::new(PlainTransport::new(fd)), &self.plan, self.rng.fork("conn"));
                    p.rec.idx = idx;
                    p.rec.t_connect = w.now;
                    self.conns.push(p);
                }
            }
        }
        let mut wake: Option<u64> = None;
        let n = self.conns.len();
        if n > 0 {
            let start = self.rng.below(n as u64) as usize;
            for k in 0..n {
                let i = (start + k) % n;
                let r = self.conns[i].step(w);
                if let Some(t) = r.wake { wake = Some(wake.map_or(t, |x| x.min(t))); }
                if r.progressed || r.finished { progressed = true; break; }
            }
            let mut i = 0;
            while i < self.conns.len() {
                if self.conns[i].finished() { let c = self.conns.remove(i); self.records.push(c.record()); } else { i += 1; }
            }
        }
        if progressed {
            if let Some(t) = self.plan.pace.gap(w, &mut self.rng) { return Step::Sleep(t); }
            return Step::Progress;
        }
        if self.listening && self.plan.listen_until_ns > w.now { let t = self.plan.listen_until_ns; wake = Some(wake.map_or(t, |x| x.min(t))); }
        match wake { Some(t) => Step::Idle(t), None => Step::Blocked }
    }
}
impl Drop for H2Backend {
    fn drop(&mut self) { self.shutdown(); }
}

// ===================================================================================== self-checks

/// Run the actors of a world that contains no sozu: wake everybody, step, let virtual time pass.
fn drive(w: &mut World, until_done: &[usize], max_rounds: u32) -> bool {
    for _ in 0..max_rounds {
        for id in 0..w.n_actors() { w.wake(id); }
        w.run_actors(32);
        if until_done.iter().all(|id| w.actor_done(*id)) {
            // let the other side observe the close
            for _ in 0..8 { for id in 0..w.n_actors() { w.wake(id); } w.run_actors(32); }
            return true;
        }
        w.now += 50_000;
    }
    false
}

fn selftest_conversation(seed: u64) -> Result<u64, String> {
    let mut w = World::new(seed, crate::world::SchedCfg::default());
    World::install(&mut w);
    let r = selftest_in_world(&mut w, seed);
    World::uninstall();
    r.map(|_| w.trace.0)
}

fn selftest_in_world(w: &mut World, seed: u64) -> Result<(), String> {
    w.board_set("configured", 1);
    let addr: SocketAddr = "10.9.0.1:8000".parse().unwrap();
    let src: SocketAddr = "10.9.0.2:40000".parse().unwrap();
    let trailers = vec![("x-trailer".to_string(), "t1".to_string())];
    // ---- answers
    let mut responses = BTreeMap::new();
    responses.insert(1, H2RespSpec::ok(1000));
    let mut r2 = H2RespSpec::ok(70_000);
    r2.body.pad = vec![Some(0), None, Some(17), Some(255)];
    r2.cont_split = vec![3, 0, 4];
    r2.headers = vec![("x-filler".into(), "f".repeat(200)), ("set-cookie".into(), "k=v".into())];
    r2.respond_on = RespondOn::EndStream;
    responses.insert(2, r2);
    let mut r3 = H2RespSpec::ok(5000);
    r3.body.end = EndMode::Trailers(trailers.clone());
    r3.body.frames = vec![1, 0, 2000, 7];
    r3.interim = vec![103];
    responses.insert(3, r3);
    responses.insert(4, H2RespSpec::ok(50_000));
    let mut r5 = H2RespSpec::ok(0);
    r5.fault = Some(H2RespFault::Refuse(ecode::REFUSED_STREAM));
    responses.insert(5, r5);
    let mut r6 = H2RespSpec::ok(0);
    r6.status = 204;
    r6.body.content_length = false;
    r6.body.end = EndMode::EmptyData;
    responses.insert(6, r6);
    let mut bplan = H2BackendPlan::simple("sb", addr, responses);
    bplan.conn.settings = SettingsSpec { initial_window_size: Some(70_000), max_concurrent_streams: Some(3), max_frame_size: Some(20_000), header_table_size: Some(100), ..Default::default() };
    bplan.conn.changes = vec![
        SettingsChange { when: When::RecvData(20_000), settings: SettingsSpec { initial_window_size: Some(10), ..Default::default() } },
        SettingsChange { when: When::RecvData(40_000), settings: SettingsSpec { initial_window_size: Some(100_000), header_table_size: Some(0), ..Default::default() } },
    ];
    bplan.conn.wu = WuPolicy { stream: WuMode::Threshold(30_000), conn: WuMode::Threshold(20_000), fallback_ns: 2_000_000 };
    bplan.pace = Pace { wq: super::Quantum::All, rq: super::Quantum::Uniform(1000, 6000), gap_pm: 0, gap_ns: 0 };
    bplan.conn.hpack = HpackStyle { incr_every: 3, huffman: true, ..Default::default() };
    bplan.conn.batch = 3;
    // ---- requests
    let mut q2 = H2ReqSpec::post(2, "self.test", "/two", 100_000);
    q2.body.frames = vec![1, 16_384, 0, 9];
    q2.body.pad = vec![None, Some(3)];
    let mut q3 = H2ReqSpec::post(3, "self.test", "/three", 3000);
    q3.body.end = EndMode::Trailers(trailers.clone());
    q3.cont_split = vec![5, 0, 7];
    q3.priority = Some(Priority { exclusive: false, dep: 0, weight: 31 });
    q3.headers_pad = Some(9);
    q3.headers = vec![("cookie".into(), "a=b".into()), ("x-long".into(), "L".repeat(500))];
    let mut q4 = H2ReqSpec::get(4, "self.test", "/four");
    q4.cancel = Some(Cancel { after_sent_body: None, after_recv_body: Some(10), code: ecode::CANCEL });
    let mut cplan = H2ClientPlan::simple("sc", src, addr, None, vec![H2ReqSpec::get(1, "self.test", "/one"), q2, q3, q4, H2ReqSpec::get(5, "self.test", "/five"), H2ReqSpec::get(6, "self.test", "/six")]);
    cplan.script.insert(2, ClientOp::Ping([7; 8]));
    // learn the server's MAX_CONCURRENT_STREAMS before opening anything
    cplan.script.insert(0, ClientOp::WaitFrames(1));
    cplan.pace = Pace { wq: super::Quantum::Uniform(1, 3000), rq: super::Quantum::Fixed(777), gap_pm: 100, gap_ns: 10_000 };
    cplan.conn.settings = SettingsSpec { initial_window_size: Some(1000), header_table_size: Some(0), enable_push: Some(0), ..Default::default() };
    cplan.conn.conn_window_bonus = 1000;
    cplan.conn.wu = WuPolicy { stream: WuMode::Drip(400), conn: WuMode::Late(300_000), fallback_ns: 0 };
    cplan.conn.hpack = HpackStyle { repr: Repr::IncrIndex, dynamic_refs: true, static_full: true, huffman: true, table_size: Some(300), ..Default::default() };
    cplan.conn.batch = 2;
    cplan.max_concurrent = 8;
    let bid = w.add_actor(Box::new(H2Backend::new(bplan, Prng::derive(seed, "selftest/backend"))));
    w.run_actors(1); // listen
    let cid = w.add_actor(Box::new(H2Client::new(cplan.clone(), Prng::derive(seed, "selftest/client"))));
    if !drive(w, &[cid], 200_000) {
        let c: &H2Client = w.actor_ref(cid);
        return Err(format!("conversation did not finish: client record {:#?}", c.record()));
    }
    let crec = { let c: &H2Client = w.actor_ref(cid); c.record() };
    let brecs = { let b: &H2Backend = w.actor_ref(bid); b.all_records() };
    if brecs.len() != 1 { return Err(format!("{} backend connections", brecs.len())); }
    let brec = &brecs[0];
    if !crec.violations.is_empty() { return Err(format!("client ledger: {:?}", crec.violations)); }
    if !brec.violations.is_empty() { return Err(format!("backend ledger: {:?}", brec.violations)); }
    if !brec.preface_ok { return Err("backend saw no preface".into()); }
    let want: [(u64, u64, u64, Option<u16>); 6] = [(1, 0, 1000, Some(200)), (2, 100_000, 70_000, Some(200)), (3, 3000, 5000, Some(200)), (4, 0, 0, Some(200)), (5, 0, 0, None), (6, 0, 0, Some(204))];
    for (id, req_len, resp_len, status) in want {
        let cs = crec.stream_for(id).ok_or(format!("client has no stream for request {id}"))?;
        let bs = brec.stream_for(id).ok_or(format!("backend never saw request {id}"))?;
        if bs.body_len != req_len || !bs.body_ok() || !bs.recv_end { return Err(format!("request {id} at the backend: len {} ok {} end {}", bs.body_len, bs.body_ok(), bs.recv_end)); }
        if !bs.header_issues.is_empty() || !cs.header_issues.is_empty() { return Err(format!("request {id}: header issues {:?} / {:?}", bs.header_issues, cs.header_issues)); }
        if bs.header(":path").is_none() || bs.header(":authority") != Some("self.test") { return Err(format!("request {id}: headers {:?}", bs.headers)); }
        if cs.status != status { return Err(format!("request {id}: status {:?}", cs.status)); }
        match id {
            4 => {
                if bs.recv_rst != Some(ecode::CANCEL) || cs.sent_rst != Some(ecode::CANCEL) || cs.body_len < 10 { return Err(format!("request 4: cancel not seen ({:?}, {} bytes)", bs.recv_rst, cs.body_len)); }
            }
            5 => {
                if cs.recv_rst != Some(ecode::REFUSED_STREAM) { return Err(format!("request 5: rst {:?}", cs.recv_rst)); }
            }
            _ => {
                if cs.body_len != resp_len || !cs.body_ok() || !cs.recv_end { return Err(format!("response {id} at the client: len {} ok {} end {}", cs.body_len, cs.body_ok(), cs.recv_end)); }
            }
        }
    }
    let (c3, b3, c2, c6) = (crec.stream_for(3).unwrap(), brec.stream_for(3).unwrap(), crec.stream_for(2).unwrap(), crec.stream_for(6).unwrap());
    if c3.trailers != trailers || b3.trailers != trailers || c3.interim != vec![103] || c3.recv_end_on != "trailers" { return Err(format!("stream 3 trailers/interim: {:?} {:?} {:?}", c3.trailers, b3.trailers, c3.interim)); }
    if b3.header("x-long").map(|v| v.len()) != Some(500) || b3.header_frames < 3 { return Err("stream 3 header block".into()); }
    if c2.padding_bytes == 0 || c2.header_frames < 3 || c2.header("x-filler").map(|v| v.len()) != Some(200) { return Err(format!("stream 2: padding {} header frames {}", c2.padding_bytes, c2.header_frames)); }
    if c6.recv_end_on != "empty_data" { return Err(format!("stream 6 ended on {:?}", c6.recv_end_on)); }
    if brec.pings_recv.len() != 1 || crec.pings_recv.iter().filter(|p| p.2 && p.1 == [7; 8]).count() != 1 { return Err("ping not answered".into()); }
    if brec.settings_sent.len() != 3 || brec.settings_sent.iter().any(|s| s.t_acked.is_none()) || crec.settings_sent.iter().any(|s| s.t_acked.is_none()) { return Err(format!("settings acks: {:?}", brec.settings_sent)); }
    if brec.counters.negative_window_settings_applied == 0 { return Err(format!("the mid-connection window shrink never produced a negative window: {:?} {:?} {:?}", brec.counters, brec.settings_sent, brec.streams.values().map(|s| (s.id, s.body_len, s.min_recv_window, s.t_open, s.t_end)).collect::<Vec<_>>())); }
    if crec.counters.send_blocked_stream == 0 || brec.counters.send_blocked_stream == 0 { return Err("nobody was ever blocked on a window".into()); }
    if crec.counters.stream_window_zero_hits + crec.counters.conn_window_zero_hits == 0 { return Err("no granted window ever reached 0".into()); }
    if crec.goaways.is_empty() && brec.goaways.len() != 1 { return Err("client GOAWAY not seen by the backend".into()); }
    if brec.counters.max_concurrent_seen > 3 { return Err("client exceeded MAX_CONCURRENT_STREAMS".into()); }
    Ok(())
}

/// The ledger must notice a peer that breaks the rules: an abusive client against a strict backend.
fn selftest_ledger(seed: u64) -> Result<(), String> {
    let mut w = World::new(seed, crate::world::SchedCfg::default());
    World::install(&mut w);
    w.board_set("configured", 1);
    let addr: SocketAddr = "10.9.0.1:8001".parse().unwrap();
    let mut bplan = H2BackendPlan::simple("lb", addr, BTreeMap::new());
    bplan.default.respond_on = RespondOn::EndStream;
    bplan.conn.settings = SettingsSpec { initial_window_size: Some(100), max_concurrent_streams: Some(1), header_table_size: Some(0), ..Default::default() };
    let mut open = H2ReqSpec::post(1, "self.test", "/open", 0);
    open.body.end = EndMode::Never;
    open.body.content_length = false;
    let hdr = |s: u32| -> AbuseOp {
        let mut b = Vec::new();
        for (n, v) in [(":method", "GET"), (":scheme", "http"), (":path", "/"), (":authority", "self.test")] { HpackEncoder::literal(&mut b, n.as_bytes(), v.as_bytes(), Repr::NoIndex, None, false); }
        AbuseOp::Frame { ty: ftype::HEADERS, flags: flag::END_HEADERS, stream: StreamRef::Id(s), declared_len: None, payload: b }
    };
    let mut table_update = Vec::new();
    HpackEncoder::size_update(&mut table_update, 4096);
    HpackEncoder::indexed(&mut table_update, 2);
    let script = vec![
        ClientOp::Req(open),
        ClientOp::WaitFrames(2),
        ClientOp::Abuse(AbuseOp::Frame { ty: ftype::DATA, flags: 0, stream: StreamRef::LastOpened, declared_len: None, payload: vec![0; 200] }),
        ClientOp::Abuse(AbuseOp::Frame { ty: ftype::DATA, flags: 0, stream: StreamRef::LastOpened, declared_len: None, payload: vec![0; 17_000] }),
        ClientOp::Abuse(AbuseOp::Frame { ty: ftype::DATA, flags: 0, stream: StreamRef::LastOpened, declared_len: None, payload: vec![0; 60_000] }),
        ClientOp::Abuse(hdr(3)),
        ClientOp::Abuse(hdr(4)),
        ClientOp::Abuse(hdr(3)),
        ClientOp::Abuse(AbuseOp::Frame { ty: ftype::DATA, flags: 0, stream: StreamRef::Id(9), declared_len: None, payload: vec![1] }),
        ClientOp::Abuse(AbuseOp::Frame { ty: ftype::HEADERS, flags: flag::END_HEADERS, stream: StreamRef::Id(11), declared_len: None, payload: table_update }),
        ClientOp::Abuse(AbuseOp::WindowUpdate { stream: StreamRef::Conn, increment: 0, count: 1 }),
        ClientOp::Abuse(AbuseOp::PingFlood { count: 50, ack: false, rate: Rate { burst: 7, gap_ns: 1000 } }),
        ClientOp::Abuse(AbuseOp::RapidReset { count: 5, code: ecode::CANCEL, authority: "self.test".into(), path: "/rr".into(), end_stream: true, rate: Rate::all_at_once() }),
        ClientOp::Abuse(AbuseOp::Garbage { len: 40, seed: 5 }),
        ClientOp::Sleep(1_000_000),
    ];
    let mut cplan = H2ClientPlan::simple("lc", "10.9.0.2:40001".parse().unwrap(), addr, None, vec![]);
    cplan.script = script;
    cplan.end = EndPlan { goaway: None, mode: CloseMode::Close, linger_ns: 0 };
    // stream 1 is never finished by either side: the client walks away
    cplan.give_up_ns = 5_000_000;
    let bid = w.add_actor(Box::new(H2Backend::new(bplan, Prng::derive(seed, "ledger/backend"))));
    w.run_actors(1);
    let cid = w.add_actor(Box::new(H2Client::new(cplan, Prng::derive(seed, "ledger/client"))));
    let ok = drive(&mut w, &[cid], 100_000);
    let brecs = { let b: &H2Backend = w.actor_ref(bid); b.all_records() };
    World::uninstall();
    if !ok { return Err("abusive conversation did not finish".into()); }
    let b = &brecs[0];
    for kind in ["stream_window_exceeded", "conn_window_exceeded", "frame_too_large", "too_many_streams", "illegal_stream_id", "data_on_idle_stream", "hpack_table_exceeded", "zero_window_increment"] {
        if !b.has_violation(kind) { return Err(format!("ledger missed {kind}: {:?}", b.violations.iter().map(|v| &v.kind).collect::<Vec<_>>())); }
    }
    if b.pings_recv.len() != 50 || b.rst_recv.len() != 5 { return Err(format!("flood accounting: {} pings {} resets", b.pings_recv.len(), b.rst_recv.len())); }
    Ok(())
}

/// Codec and peers validated without sozu: an `H2Peer` client talks to an `H2Peer` backend.
pub fn selftest() -> Result<(), String> {
    codec_selftest()?;
    crate::netsim::on_fresh_thread(|| -> Result<(), String> {
        let h1 = selftest_conversation(11)?;
        let h2 = selftest_conversation(11)?;
        if h1 != h2 { return Err(format!("selftest conversation is not deterministic: {h1:x} vs {h2:x}")); }
        selftest_conversation(12)?;
        selftest_ledger(13)
    })
}

// ===================================================================================== demo through the real proxy

/// Short human-readable form of a connection record (debugging aid).
pub fn summarize_record(r: &H2ConnRecord) -> String {
    let mut s = format!("{:?}#{} t_connect={} eof={} reset={} io_err={:?} write_err={:?} closed_by_us={} gave_up={} script_done={} frames_recv={:?} frames_sent={} data_recv={} data_sent={} conn_recv_window={} (min {}) conn_send_window={}\n",
        r.role, r.idx, r.t_connect, r.eof, r.reset, r.io_err, r.write_err, r.closed_by_us, r.gave_up, r.script_done, r.frames_recv, r.frames_sent, r.data_bytes_recv, r.data_bytes_sent, r.conn_recv_window, r.min_conn_recv_window, r.conn_send_window);
    if let Some(t) = &r.tls { s += &format!("  tls: done={} alpn={:?} {:?} {:?} cert={}B sig_ok={:?} error={:?} close_notify={} unclean_eof={}\n", t.handshake_done, t.alpn, t.version, t.cipher, t.cert_der.as_ref().map_or(0, |c| c.len()), t.signature_ok, t.error, t.close_notify_received, t.unclean_eof); }
    for (t, p) in &r.peer_settings { s += &format!("  peer SETTINGS at {t}: {p:?}\n"); }
    for x in &r.settings_sent { s += &format!("  our SETTINGS {:?} queued={} wire={:?} acked={:?}\n", x.params, x.t_queued, x.t_wire, x.t_acked); }
    for g in &r.goaways { s += &format!("  GOAWAY at {} last_stream={} code={} debug={:?}\n", g.t, g.last_stream, ecode_name(g.code), String::from_utf8_lossy(&g.debug)); }
    for (t, id, c) in &r.rst_recv { s += &format!("  RST_STREAM recv at {t} stream={id} code={}\n", ecode_name(*c)); }
    s += &format!("  window updates recv: conn total {} ({} frames); counters {:?}\n", r.conn_wu_recv, r.window_updates_recv.len(), r.counters);
    for st in r.streams.values() {
        s += &format!("  stream {} req_id={:?} sim_id={:?} status={:?} hdr_frames={} body={} ok={} data_frames={} end={}({}) rst_recv={:?} sent_body={} sent_end={} sent_rst={:?} recv_window={} (min {}) send_window={} wu_recv={} t_open={} t_headers={} t_end={} issues={:?}\n    headers={:?} trailers={:?}\n",
            st.id, st.req_id, st.sim_id, st.status, st.header_frames, st.body_len, st.body_ok(), st.data_frames, st.recv_end, st.recv_end_on, st.recv_rst, st.sent_body, st.sent_end, st.sent_rst, st.recv_window, st.min_recv_window, st.send_window, st.wu_recv, st.t_open, st.t_headers, st.t_end, st.header_issues, st.headers, st.trailers);
    }
    for v in &r.violations { s += &format!("  VIOLATION {} stream={} t={}: {}\n", v.kind, v.stream, v.t, v.detail); }
    s
}

#[derive(Clone, Debug)]
pub struct DemoOpts {
    /// h2c `H2Backend` behind a cluster with `http2: true`; otherwise an `H1Backend`
    pub h2_backend: bool,
    pub max_concurrent: u32,
    /// SETTINGS_INITIAL_WINDOW_SIZE announced by the client / by the h2c backend (`None` = default 65535)
    pub client_iws: Option<u32>,
    pub backend_iws: Option<u32>,
    pub tls: TlsPlan,
    /// replaces the demo's client plan (src/dst/tls are filled in by the demo)
    pub client: Option<H2ClientPlan>,
}
impl DemoOpts {
    pub fn new(h2_backend: bool) -> DemoOpts { DemoOpts { h2_backend, max_concurrent: 4, client_iws: None, backend_iws: None, tls: TlsPlan::h2("lolcatho.st"), client: None } }
}

#[derive(Clone, Debug, Default)]
pub struct DemoOutcome {
    pub client: Option<H2ConnRecord>,
    pub h2_backend: Vec<H2ConnRecord>,
    pub h1_backend: Vec<super::h1::BackConnRecord>,
    pub config_failures: Vec<String>,
    pub panicked: Option<String>,
    pub aborted: Option<String>,
    pub boot_error: Option<String>,
    pub trace_hash: u64,
    pub log: Vec<String>,
}

/// One TLS + HTTP/2 client conversation through a real sozu worker: HTTPS listener with the
/// repository's fixture certificate (CN=lolcatho.st, no SAN), one cluster whose backend is either an
/// h2c `H2Backend` (`h2_backend = true`, cluster `http2: true`) or an `H1Backend`.
pub fn demo_run(seed: u64, opts: &DemoOpts, log: bool) -> DemoOutcome {
    let opts = opts.clone();
    let h2_backend = opts.h2_backend;
    use sozu_command_lib::{
        config::ListenerBuilder,
        proto::command::{request::RequestType, ActivateListener, AddBackend, AddCertificate, CertificateAndKey, Cluster, ListenerType, LoadBalancingParams, PathRule, Request, RequestHttpFrontend, RulePosition},
        scm_socket::Listeners,
        state::ConfigState,
    };
    use crate::actors::h1::{BackendPlan, BodySpec, H1Backend, RespSpec};
    use crate::actors::master::{MOp, Master};
    use crate::netsim::{self, Knobs};
    use crate::world::{ConnectMode, SchedCfg};

    netsim::on_fresh_thread(move || {
        let mut w = World::new(seed, SchedCfg::default());
        World::install(&mut w);
        w.log_on = log;
        let front: SocketAddr = "10.0.0.1:443".parse().unwrap();
        let back: SocketAddr = "10.1.0.1:8000".parse().unwrap();
        let host = "lolcatho.st";
        let cert = std::fs::read_to_string("/repo/lib/assets/certificate.pem").expect("certificate.pem");
        let key = std::fs::read_to_string("/repo/lib/assets/key.pem").expect("key.pem");
        let reqs: Vec<Request> = vec![
            RequestType::AddHttpsListener(ListenerBuilder::new_https(front.into()).to_tls(None).expect("https listener")).into(),
            RequestType::AddCertificate(AddCertificate {
                address: front.into(),
                certificate: CertificateAndKey { certificate: cert, certificate_chain: vec![], key, versions: vec![], names: vec![] },
                expired_at: None,
            }).into(),
            RequestType::ActivateListener(ActivateListener { address: front.into(), proxy: ListenerType::Https.into(), from_scm: false }).into(),
            RequestType::AddCluster(Cluster { cluster_id: "c0".into(), http2: Some(h2_backend), ..Default::default() }).into(),
            RequestType::AddHttpsFrontend(RequestHttpFrontend {
                cluster_id: Some("c0".into()),
                address: front.into(),
                hostname: host.into(),
                path: PathRule::prefix("/".to_string()),
                position: RulePosition::Tree.into(),
                ..Default::default()
            }).into(),
            RequestType::AddBackend(AddBackend { cluster_id: "c0".into(), backend_id: "c0-0".into(), address: back.into(), load_balancing_parameters: Some(LoadBalancingParams::default()), sticky_id: None, backup: None }).into(),
        ];
        // ---- the conversation: a GET with a 40 kB answer and a POST of 100 kB with a 3 kB answer
        let mut post = H2ReqSpec::post(2, host, "/upload", 100_000);
        post.body.frames = vec![1, 9, 16_384];
        post.body.pad = vec![None, Some(5)];
        let mut cplan = H2ClientPlan::simple("h2c0", "192.0.2.7:40001".parse().unwrap(), front, Some(opts.tls.clone()), vec![H2ReqSpec::get(1, host, "/download"), post]);
        cplan.pace = Pace { wq: super::Quantum::Uniform(1, 5000), rq: super::Quantum::Uniform(1, 9000), gap_pm: 0, gap_ns: 0 };
        cplan.max_concurrent = opts.max_concurrent;
        cplan.conn.settings = SettingsSpec { initial_window_size: opts.client_iws, max_frame_size: Some(16_384), enable_push: Some(0), header_table_size: Some(4096), ..Default::default() };
        cplan.conn.wu = WuPolicy { stream: WuMode::Threshold(5000), conn: WuMode::Threshold(20_000), fallback_ns: 5_000_000 };
        cplan.conn.hpack = HpackStyle { incr_every: 2, huffman: true, ..Default::default() };
        cplan.give_up_ns = 20 * crate::world::SEC;
        if let Some(c) = &opts.client {
            let (src, dst, tls) = (cplan.src, cplan.dst, cplan.tls.clone());
            cplan = c.clone();
            cplan.src = src; cplan.dst = dst; cplan.tls = tls;
        }
        let mut h2b = {
            let mut m = BTreeMap::new();
            m.insert(1, H2RespSpec::ok(40_000));
            m.insert(2, H2RespSpec::ok(3000));
            m.get_mut(&2).unwrap().respond_on = RespondOn::EndStream;
            H2BackendPlan::simple("b0", back, m)
        };
        h2b.conn.settings = SettingsSpec { initial_window_size: opts.backend_iws, max_concurrent_streams: Some(10), ..Default::default() };
        h2b.conn.wu = WuPolicy { stream: WuMode::Drip(7000), conn: WuMode::WhenExhausted, fallback_ns: 5_000_000 };
        let h1b = {
            let mut m = BTreeMap::new();
            m.insert(1, RespSpec::ok(BodySpec::Cl(40_000)));
            m.insert(2, RespSpec::ok(BodySpec::Chunked(vec![1000, 2000])));
            BackendPlan { name: "b0".into(), addr: back, pace: Pace::greedy(), responses: m, default: RespSpec::ok(BodySpec::Cl(3)), close_on_accept: vec![], listen_from_ns: 0, listen_until_ns: 0 }
        };
        let (mut cid, mut bid) = (0, 0);
        let (end, mid) = netsim::run_worker(&mut w, Knobs::default().server_config(), ConfigState::new(), Listeners::default(), |w, m: &mut Master| {
            m.send_all(reqs);
            m.push(MOp::Barrier);
            m.push(MOp::SetBoard("configured".into(), 1));
            m.push(MOp::WaitBoard("clients_done".into(), 1));
            m.push(MOp::HardStop);
            w.topo.insert(back, ConnectMode::Listen { delay_ns: 0 });
            bid = if h2_backend {
                w.add_actor(Box::new(H2Backend::new(h2b.clone(), Prng::derive(seed, "demo/backend"))))
            } else {
                w.add_actor(Box::new(H1Backend::new(h1b.clone(), Prng::derive(seed, "demo/backend"))))
            };
            cid = w.add_actor(Box::new(H2Client::new(cplan.clone(), Prng::derive(seed, "demo/client"))));
        });
        let mut out = DemoOutcome { panicked: end.panicked, aborted: end.aborted, boot_error: end.boot_error, ..Default::default() };
        {
            let m: &Master = w.actor_ref(mid);
            for (_, r) in &m.data.responses {
                if r.status == sozu_command_lib::proto::command::ResponseStatus::Failure as i32 { out.config_failures.push(format!("{}: {}", r.id, r.message)); }
            }
        }
        out.client = Some({ let c: &H2Client = w.actor_ref(cid); c.record() });
        if h2_backend { out.h2_backend = { let b: &H2Backend = w.actor_ref(bid); b.all_records() }; } else { out.h1_backend = { let b: &H1Backend = w.actor_ref(bid); b.all_records() }; }
        out.trace_hash = w.trace.0;
        out.log = std::mem::take(&mut w.log);
        out
    })
}

fn demo_check(o: &DemoOutcome, h2_backend: bool) -> Result<String, String> {
    if let Some(p) = &o.panicked { return Err(format!("worker panicked: {p}")); }
    if let Some(e) = &o.boot_error { return Err(format!("worker boot: {e}")); }
    if !o.config_failures.is_empty() { return Err(format!("configuration refused: {:?}", o.config_failures)); }
    let c = o.client.as_ref().ok_or("no client record")?;
    let tls = c.tls.as_ref().ok_or("no TLS record")?;
    if !tls.handshake_done { return Err(format!("TLS handshake did not complete: {:?} (aborted={:?})", tls.error, o.aborted)); }
    if tls.alpn.as_deref() != Some("h2") { return Err(format!("ALPN {:?}", tls.alpn)); }
    if tls.cert_der.is_none() || tls.signature_ok != Some(true) { return Err(format!("certificate not recorded / signature {:?}", tls.signature_ok)); }
    if !c.violations.is_empty() { return Err(format!("client ledger violations: {:?}", c.violations)); }
    for (id, want) in [(1u64, 40_000u64), (2, 3000)] {
        let s = c.stream_for(id).ok_or(format!("no stream for request {id}; record: goaways={:?} rst={:?} eof={} err={:?} gave_up={}", c.goaways, c.rst_recv, c.eof, c.io_err, c.gave_up))?;
        if s.status != Some(200) || s.body_len != want || !s.body_ok() || !s.recv_end {
            return Err(format!("request {id}: status {:?} body {} of {want} ok={} end={} rst={:?} sim_id={:?} head={:?}; goaways={:?}", s.status, s.body_len, s.body_ok(), s.recv_end, s.recv_rst, s.sim_id, String::from_utf8_lossy(&s.body_head[..s.body_head.len().min(80)]), c.goaways));
        }
    }
    let mut seen = String::new();
    if h2_backend {
        if o.h2_backend.is_empty() { return Err("sozu never connected to the h2c backend".into()); }
        for b in &o.h2_backend {
            if !b.violations.is_empty() { return Err(format!("backend ledger violations on connection {}: {:?}", b.idx, b.violations)); }
        }
        let s2 = o.h2_backend.iter().filter_map(|b| b.stream_for(2)).find(|s| s.recv_end).ok_or("backend never saw request 2 complete")?;
        if s2.body_len != 100_000 || !s2.body_ok() { return Err(format!("request 2 at the backend: {} bytes ok={}", s2.body_len, s2.body_ok())); }
        let b = o.h2_backend.iter().find(|b| b.stream_for(1).is_some()).ok_or("backend never saw request 1")?;
        seen = format!("backend saw {} connection(s), request headers {:?}", o.h2_backend.len(), b.stream_for(1).map(|s| s.headers.clone()));
    } else {
        let q: Vec<&super::h1codec::Msg> = o.h1_backend.iter().flat_map(|r| r.requests.iter()).collect();
        let m = q.iter().find(|m| m.sim_id == Some(2)).ok_or("H1 backend never saw request 2")?;
        if m.body_len != 100_000 || !m.body_ok() || !m.complete { return Err(format!("request 2 at the H1 backend: {} bytes ok={} complete={}", m.body_len, m.body_ok(), m.complete)); }
        seen = format!("{seen}H1 backend saw {:?}", q.iter().map(|m| m.start.clone()).collect::<Vec<_>>());
    }
    Ok(format!("tls={:?}/{:?} alpn={:?} cert={}B sozu_settings={:?} frames_recv={:?} {seen}", tls.version, tls.cipher, tls.alpn, tls.cert_der.as_ref().map_or(0, |c| c.len()), c.peer_settings.first().map(|s| &s.1), c.frames_recv))
}

/// Boots a real worker (HTTPS listener, fixture certificate) and runs one TLS + HTTP/2 client
/// conversation end to end, first against an h2c backend, then against an HTTP/1.1 backend; each
/// twice, to confirm that the run (every TLS ciphertext byte included) is deterministic. Then two
/// probes with unequal INITIAL_WINDOW_SIZE on the two sides of sozu; what the peers' ledgers say
/// is appended to the report as observations (they do not fail the demo).
pub fn demo_through_sozu(seed: u64) -> Result<String, String> {
    let mut report = String::new();
    for h2_backend in [true, false] {
        let tag = if h2_backend { "h2c" } else { "h1" };
        let opts = DemoOpts::new(h2_backend);
        let a = demo_run(seed, &opts, false);
        let b = demo_run(seed, &opts, false);
        let line = demo_check(&a, h2_backend).map_err(|e| format!("[{tag} backend] {e}"))?;
        let fp = |o: &DemoOutcome| o.client.as_ref().and_then(|c| c.tls.as_ref()).map(|t| (t.wire_out_hash, t.wire_in_hash, t.handshake_wire_out, t.handshake_wire_in));
        if a.trace_hash != b.trace_hash || fp(&a) != fp(&b) {
            return Err(format!("[{tag} backend] two runs of the same seed differ: trace {:x} vs {:x}, tls wire {:?} vs {:?}", a.trace_hash, b.trace_hash, fp(&a), fp(&b)));
        }
        report += &format!("[{tag} backend] ok trace={:x} tls_wire={:x?} {line}\n", a.trace_hash, fp(&a));
    }
    {
        // TLS 1.2, small records, SNI in another case
        let mut opts = DemoOpts::new(false);
        opts.tls = TlsPlan { sni: Some("LolCatho.st".into()), alpn: vec!["h2".into(), "http/1.1".into()], versions: super::tls::TlsVersions::Tls12, max_fragment_size: Some(512) };
        let o = demo_run(seed, &opts, false);
        let line = demo_check(&o, false).map_err(|e| format!("[tls1.2] {e}"))?;
        report += &format!("[tls1.2 h1 backend] ok {}\n", &line[..line.len().min(90)]);
    }
    for (c, b) in [(None, Some(1000u32)), (Some(20_000u32), Some(30_000u32))] {
        let mut opts = DemoOpts::new(true);
        opts.max_concurrent = 1;
        opts.client_iws = c;
        opts.backend_iws = b;
        let o = demo_run(seed, &opts, false);
        let verdict = match demo_check(&o, true) { Ok(_) => "completed, ledgers clean".to_string(), Err(e) => e };
        report += &format!("[probe client_iws={c:?} backend_iws={b:?}] {verdict}\n");
    }
    Ok(report)
}

/// Randomised client shapes (framing, padding, CONTINUATION, priorities, trailers, HPACK styles,
/// window policies, pacing) for requests 1 (GET, 40 kB answer) and 2 (POST 100 kB, 3 kB answer)
/// through sozu to the HTTP/1.1 backend of the demo. Returns the failures.
pub fn demo_shapes(seed: u64, n: u64) -> Vec<String> {
    let mut fails = Vec::new();
    for k in 0..n {
        let mut rng = Prng::derive(seed + k, "h2/shapes");
        let host = "lolcatho.st";
        let mut get = H2ReqSpec::get(1, host, "/download");
        let mut post = H2ReqSpec::post(2, host, "/upload", 100_000);
        for r in [&mut get, &mut post] {
            if rng.below(2) == 0 { r.cont_split = (0..rng.below(4)).map(|_| rng.below(40) as usize).collect(); }
            // (non-zero HEADERS padding together with CONTINUATION is refused by sozu: see the report)
            if rng.below(3) == 0 { r.headers_pad = Some(if r.cont_split.is_empty() { rng.below(256) as u8 } else { 0 }); }
            if rng.below(3) == 0 { r.priority = Some(Priority { exclusive: rng.below(2) == 0, dep: 0, weight: rng.below(256) as u8 }); }
            if rng.below(2) == 0 { r.headers.push(("x-extra".into(), "e".repeat(rng.below(3000) as usize))); }
            if rng.below(3) == 0 { r.headers.push(("cookie".into(), "a=1".into())); r.headers.push(("cookie".into(), "b=2".into())); }
        }
        post.body.frames = (0..rng.below(6)).map(|_| *rng.pick(&[0usize, 1, 9, 100, 16_384, 16_383, 5000])).collect();
        post.body.pad = (0..rng.below(3)).map(|_| if rng.below(2) == 0 { None } else { Some(rng.below(256) as u8) }).collect();
        post.body.end = match rng.below(3) { 0 => EndMode::Auto, 1 => EndMode::EmptyData, _ => EndMode::Trailers(vec![("x-t".into(), "v".into())]) };
        post.body.content_length = rng.below(2) == 0;
        let mut c = H2ClientPlan::simple("shape", "192.0.2.7:40001".parse().unwrap(), "10.0.0.1:443".parse().unwrap(), None, vec![get, post]);
        c.pace = Pace::random(&mut rng, 150_000);
        c.max_concurrent = 1 + rng.below(2) as u32;
        c.conn.settings = SettingsSpec {
            initial_window_size: *rng.pick(&[None, Some(0), Some(1000), Some(65_535), Some(1 << 20), Some(0x7fff_ffff)]),
            max_frame_size: *rng.pick(&[None, Some(16_384), Some(20_000), Some(0xff_ffff)]),
            header_table_size: *rng.pick(&[None, Some(0), Some(100), Some(4096), Some(65_536)]),
            max_concurrent_streams: *rng.pick(&[None, Some(100)]),
            enable_push: Some(0),
            ..Default::default()
        };
        c.conn.conn_window_bonus = *rng.pick(&[0u32, 0, 1, 100_000]);
        let modes = [WuMode::Eager, WuMode::Drip(1 + rng.below(3000) as u32), WuMode::Threshold(1 + rng.below(30_000) as u32), WuMode::WhenExhausted, WuMode::Late(rng.below(3_000_000))];
        c.conn.wu = WuPolicy { stream: rng.pick(&modes).clone(), conn: rng.pick(&modes).clone(), fallback_ns: 20_000_000 };
        if c.conn.settings.initial_window_size == Some(0) { c.conn.wu.stream = WuMode::Eager; c.conn.changes.push(SettingsChange { when: When::AfterNs(1_000_000), settings: SettingsSpec { initial_window_size: Some(30_000), ..Default::default() } }); }
        c.conn.hpack = HpackStyle { repr: *rng.pick(&[Repr::NoIndex, Repr::NeverIndex, Repr::IncrIndex]), incr_every: rng.below(4) as u32, static_names: rng.below(2) == 0, static_full: rng.below(2) == 0, huffman: rng.below(2) == 0, dynamic_refs: rng.below(2) == 0, table_size: *rng.pick(&[None, Some(0), Some(100), Some(4096)]) };
        c.conn.batch = 1 + rng.below(4) as u32;
        c.give_up_ns = 30 * crate::world::SEC;
        let mut opts = DemoOpts::new(false);
        opts.client = Some(c.clone());
        let o = demo_run(seed + k, &opts, false);
        if let Err(e) = demo_check(&o, false) {
            if std::env::var("H2SHAPE_VERBOSE").is_ok() { if let Some(r) = &o.client { fails.push(format!("{}\nscript={:?}", summarize_record(r), c.script)); } }
            fails.push(format!("seed {}: {e}\n   settings={:?} wu={:?} hpack={:?} pace={:?} bonus={} conc={}", seed + k, c.conn.settings, c.conn.wu, c.conn.hpack, c.pace, c.conn.conn_window_bonus, c.max_concurrent));
        }
    }
    fails
}
