//! Independent HTTP/2 wire codec for the simulated peers (RFC 9113 framing, RFC 7541 HPACK).
//!
//! Nothing here calls into sozu. Frames are decoded from / encoded to plain byte vectors; the
//! incremental [`FrameReader`] accepts input split at any byte. The HPACK *encoder* is written for
//! the harness (literal representations, optional static-table name indices, optional Huffman,
//! optional dynamic-table references, table-size updates); HPACK *decoding* of what sozu sends
//! goes through `loona_hpack::Decoder` configured with the table size this peer advertised.
//!
//! Abuse tests build [`RawFrame`]s directly: type, flags, stream id, declared length and payload
//! are all free (the declared length need not match the payload).
#![allow(dead_code)]

use std::collections::VecDeque;

use serde::{Deserialize, Serialize};

pub const PREFACE: &[u8] = b"PRI * HTTP/2.0\r\n\r\nSM\r\n\r\n";
pub const MAX_WINDOW: i64 = 0x7fff_ffff;
pub const DEFAULT_WINDOW: u32 = 65_535;
pub const DEFAULT_MAX_FRAME: u32 = 16_384;
pub const DEFAULT_TABLE_SIZE: u32 = 4_096;

/// Frame types (RFC 9113 §6).
pub mod ftype {
    pub const DATA: u8 = 0;
    pub const HEADERS: u8 = 1;
    pub const PRIORITY: u8 = 2;
    pub const RST_STREAM: u8 = 3;
    pub const SETTINGS: u8 = 4;
    pub const PUSH_PROMISE: u8 = 5;
    pub const PING: u8 = 6;
    pub const GOAWAY: u8 = 7;
    pub const WINDOW_UPDATE: u8 = 8;
    pub const CONTINUATION: u8 = 9;
}
pub fn type_name(t: u8) -> &'static str {
    match t {
        0 => "DATA", 1 => "HEADERS", 2 => "PRIORITY", 3 => "RST_STREAM", 4 => "SETTINGS", 5 => "PUSH_PROMISE",
        6 => "PING", 7 => "GOAWAY", 8 => "WINDOW_UPDATE", 9 => "CONTINUATION", _ => "UNKNOWN",
    }
}
pub mod flag {
    pub const END_STREAM: u8 = 0x1;
    pub const ACK: u8 = 0x1;
    pub const END_HEADERS: u8 = 0x4;
    pub const PADDED: u8 = 0x8;
    pub const PRIORITY: u8 = 0x20;
}
/// Error codes (RFC 9113 §7).
pub mod ecode {
    pub const NO_ERROR: u32 = 0;
    pub const PROTOCOL_ERROR: u32 = 1;
    pub const INTERNAL_ERROR: u32 = 2;
    pub const FLOW_CONTROL_ERROR: u32 = 3;
    pub const SETTINGS_TIMEOUT: u32 = 4;
    pub const STREAM_CLOSED: u32 = 5;
    pub const FRAME_SIZE_ERROR: u32 = 6;
    pub const REFUSED_STREAM: u32 = 7;
    pub const CANCEL: u32 = 8;
    pub const COMPRESSION_ERROR: u32 = 9;
    pub const CONNECT_ERROR: u32 = 10;
    pub const ENHANCE_YOUR_CALM: u32 = 11;
    pub const INADEQUATE_SECURITY: u32 = 12;
    pub const HTTP_1_1_REQUIRED: u32 = 13;
}
pub fn ecode_name(c: u32) -> &'static str {
    match c {
        0 => "NO_ERROR", 1 => "PROTOCOL_ERROR", 2 => "INTERNAL_ERROR", 3 => "FLOW_CONTROL_ERROR", 4 => "SETTINGS_TIMEOUT",
        5 => "STREAM_CLOSED", 6 => "FRAME_SIZE_ERROR", 7 => "REFUSED_STREAM", 8 => "CANCEL", 9 => "COMPRESSION_ERROR",
        10 => "CONNECT_ERROR", 11 => "ENHANCE_YOUR_CALM", 12 => "INADEQUATE_SECURITY", 13 => "HTTP_1_1_REQUIRED", _ => "UNKNOWN_ERROR",
    }
}
/// SETTINGS identifiers (RFC 9113 §6.5.2, RFC 8441, RFC 9218).
pub mod sid {
    pub const HEADER_TABLE_SIZE: u16 = 1;
    pub const ENABLE_PUSH: u16 = 2;
    pub const MAX_CONCURRENT_STREAMS: u16 = 3;
    pub const INITIAL_WINDOW_SIZE: u16 = 4;
    pub const MAX_FRAME_SIZE: u16 = 5;
    pub const MAX_HEADER_LIST_SIZE: u16 = 6;
    pub const ENABLE_CONNECT_PROTOCOL: u16 = 8;
    pub const NO_RFC7540_PRIORITIES: u16 = 9;
}

// ------------------------------------------------------------------------------- frame header

#[derive(Clone, Copy, Debug, PartialEq, Eq, Serialize, Deserialize)]
pub struct FrameHeader {
    /// declared payload length (24 bits on the wire)
    pub len: u32,
    pub ty: u8,
    pub flags: u8,
    /// reserved bit preceding the stream identifier
    pub r: bool,
    /// 31-bit stream identifier
    pub stream: u32,
}
impl FrameHeader {
    pub fn encode(&self) -> [u8; 9] {
        let l = self.len & 0x00ff_ffff;
        let s = (self.stream & 0x7fff_ffff) | if self.r { 0x8000_0000 } else { 0 };
        [(l >> 16) as u8, (l >> 8) as u8, l as u8, self.ty, self.flags, (s >> 24) as u8, (s >> 16) as u8, (s >> 8) as u8, s as u8]
    }
    pub fn decode(b: &[u8]) -> FrameHeader {
        assert!(b.len() >= 9);
        let s = u32::from_be_bytes([b[5], b[6], b[7], b[8]]);
        FrameHeader {
            len: ((b[0] as u32) << 16) | ((b[1] as u32) << 8) | b[2] as u32,
            ty: b[3],
            flags: b[4],
            r: s & 0x8000_0000 != 0,
            stream: s & 0x7fff_ffff,
        }
    }
}

/// A frame as it travels: header plus payload bytes. When built by hand (abuse tests) the
/// payload length may differ from `head.len`; [`RawFrame::encode`] writes both as given.
#[derive(Clone, Debug, PartialEq, Eq, Serialize, Deserialize)]
pub struct RawFrame {
    pub head: FrameHeader,
    pub payload: Vec<u8>,
    /// offset of the first header byte in the inbound byte stream (reader output only)
    pub at: u64,
}
impl RawFrame {
    pub fn new(ty: u8, flags: u8, stream: u32, payload: Vec<u8>) -> RawFrame {
        RawFrame { head: FrameHeader { len: payload.len() as u32, ty, flags, r: false, stream }, payload, at: 0 }
    }
    /// arbitrary declared length
    pub fn with_declared_len(mut self, len: u32) -> RawFrame {
        self.head.len = len;
        self
    }
    pub fn encode(&self) -> Vec<u8> {
        let mut v = Vec::with_capacity(9 + self.payload.len());
        v.extend_from_slice(&self.head.encode());
        v.extend_from_slice(&self.payload);
        v
    }
    pub fn has(&self, f: u8) -> bool {
        self.head.flags & f != 0
    }
}

// ------------------------------------------------------------------------------- typed frames

#[derive(Clone, Copy, Debug, PartialEq, Eq, Serialize, Deserialize)]
pub struct Priority {
    pub exclusive: bool,
    pub dep: u32,
    /// wire value (weight - 1)
    pub weight: u8,
}
impl Priority {
    fn put(&self, v: &mut Vec<u8>) {
        let d = (self.dep & 0x7fff_ffff) | if self.exclusive { 0x8000_0000 } else { 0 };
        v.extend_from_slice(&d.to_be_bytes());
        v.push(self.weight);
    }
    fn get(b: &[u8]) -> Priority {
        let d = u32::from_be_bytes([b[0], b[1], b[2], b[3]]);
        Priority { exclusive: d & 0x8000_0000 != 0, dep: d & 0x7fff_ffff, weight: b[4] }
    }
}

/// Why a received frame is malformed, with the RFC 9113 error code a receiver would answer.
#[derive(Clone, Debug, PartialEq, Eq, Serialize, Deserialize)]
pub struct FrameError {
    pub code: u32,
    /// connection error (true) or stream error (false)
    pub conn: bool,
    pub why: String,
}
fn ferr<T>(code: u32, conn: bool, why: &str) -> Result<T, FrameError> {
    Err(FrameError { code, conn, why: why.to_string() })
}

#[derive(Clone, Debug, PartialEq, Eq, Serialize, Deserialize)]
pub enum Frame {
    /// `pad`: `Some(n)` sets PADDED with n bytes of zero padding
    Data { stream: u32, end_stream: bool, data: Vec<u8>, pad: Option<u8> },
    Headers { stream: u32, end_stream: bool, end_headers: bool, priority: Option<Priority>, fragment: Vec<u8>, pad: Option<u8> },
    Priority { stream: u32, pri: Priority },
    RstStream { stream: u32, code: u32 },
    Settings { ack: bool, params: Vec<(u16, u32)> },
    PushPromise { stream: u32, promised: u32, end_headers: bool, fragment: Vec<u8>, pad: Option<u8> },
    Ping { ack: bool, data: [u8; 8] },
    GoAway { last_stream: u32, code: u32, debug: Vec<u8> },
    WindowUpdate { stream: u32, increment: u32 },
    Continuation { stream: u32, end_headers: bool, fragment: Vec<u8> },
    Unknown { ty: u8, flags: u8, stream: u32, payload: Vec<u8> },
}

/// Strip the padding of a PADDED payload: returns (content, pad length).
fn unpad(p: &[u8], padded: bool) -> Result<(&[u8], Option<u8>), FrameError> {
    if !padded {
        return Ok((p, None));
    }
    if p.is_empty() {
        return ferr(ecode::FRAME_SIZE_ERROR, true, "PADDED frame without pad length octet");
    }
    let n = p[0] as usize;
    if n > p.len() - 1 {
        return ferr(ecode::PROTOCOL_ERROR, true, "padding longer than the frame payload");
    }
    Ok((&p[1..p.len() - n], Some(p[0])))
}
fn pad_wrap(v: &mut Vec<u8>, pad: Option<u8>, body: impl FnOnce(&mut Vec<u8>)) {
    if let Some(n) = pad {
        v.push(n);
    }
    body(v);
    if let Some(n) = pad {
        v.resize(v.len() + n as usize, 0);
    }
}

impl Frame {
    pub fn to_raw(&self) -> RawFrame {
        match self {
            Frame::Data { stream, end_stream, data, pad } => {
                let mut p = Vec::with_capacity(data.len() + 1 + pad.unwrap_or(0) as usize);
                pad_wrap(&mut p, *pad, |p| p.extend_from_slice(data));
                let fl = if *end_stream { flag::END_STREAM } else { 0 } | if pad.is_some() { flag::PADDED } else { 0 };
                RawFrame::new(ftype::DATA, fl, *stream, p)
            }
            Frame::Headers { stream, end_stream, end_headers, priority, fragment, pad } => {
                let mut p = Vec::with_capacity(fragment.len() + 6 + pad.unwrap_or(0) as usize);
                pad_wrap(&mut p, *pad, |p| {
                    if let Some(pr) = priority {
                        pr.put(p);
                    }
                    p.extend_from_slice(fragment);
                });
                let fl = if *end_stream { flag::END_STREAM } else { 0 }
                    | if *end_headers { flag::END_HEADERS } else { 0 }
                    | if pad.is_some() { flag::PADDED } else { 0 }
                    | if priority.is_some() { flag::PRIORITY } else { 0 };
                RawFrame::new(ftype::HEADERS, fl, *stream, p)
            }
            Frame::Priority { stream, pri } => {
                let mut p = Vec::new();
                pri.put(&mut p);
                RawFrame::new(ftype::PRIORITY, 0, *stream, p)
            }
            Frame::RstStream { stream, code } => RawFrame::new(ftype::RST_STREAM, 0, *stream, code.to_be_bytes().to_vec()),
            Frame::Settings { ack, params } => {
                let mut p = Vec::with_capacity(params.len() * 6);
                for (id, v) in params {
                    p.extend_from_slice(&id.to_be_bytes());
                    p.extend_from_slice(&v.to_be_bytes());
                }
                RawFrame::new(ftype::SETTINGS, if *ack { flag::ACK } else { 0 }, 0, p)
            }
            Frame::PushPromise { stream, promised, end_headers, fragment, pad } => {
                let mut p = Vec::new();
                pad_wrap(&mut p, *pad, |p| {
                    p.extend_from_slice(&(promised & 0x7fff_ffff).to_be_bytes());
                    p.extend_from_slice(fragment);
                });
                let fl = if *end_headers { flag::END_HEADERS } else { 0 } | if pad.is_some() { flag::PADDED } else { 0 };
                RawFrame::new(ftype::PUSH_PROMISE, fl, *stream, p)
            }
            Frame::Ping { ack, data } => RawFrame::new(ftype::PING, if *ack { flag::ACK } else { 0 }, 0, data.to_vec()),
            Frame::GoAway { last_stream, code, debug } => {
                let mut p = Vec::with_capacity(8 + debug.len());
                p.extend_from_slice(&(last_stream & 0x7fff_ffff).to_be_bytes());
                p.extend_from_slice(&code.to_be_bytes());
                p.extend_from_slice(debug);
                RawFrame::new(ftype::GOAWAY, 0, 0, p)
            }
            Frame::WindowUpdate { stream, increment } => RawFrame::new(ftype::WINDOW_UPDATE, 0, *stream, increment.to_be_bytes().to_vec()),
            Frame::Continuation { stream, end_headers, fragment } => {
                RawFrame::new(ftype::CONTINUATION, if *end_headers { flag::END_HEADERS } else { 0 }, *stream, fragment.clone())
            }
            Frame::Unknown { ty, flags, stream, payload } => RawFrame::new(*ty, *flags, *stream, payload.clone()),
        }
    }
    pub fn encode(&self) -> Vec<u8> {
        self.to_raw().encode()
    }

    /// Decode a complete frame (payload length == declared length) with the per-type size and
    /// stream-id rules of RFC 9113 §6. Semantic rules that depend on connection state (stream
    /// states, CONTINUATION sequencing, limits) are the peer's business, not the codec's.
    pub fn parse(raw: &RawFrame) -> Result<Frame, FrameError> {
        let h = &raw.head;
        let p = &raw.payload[..];
        let s = h.stream;
        let need_stream = |what: &str| -> Result<(), FrameError> { if s == 0 { ferr(ecode::PROTOCOL_ERROR, true, &format!("{what} on stream 0")) } else { Ok(()) } };
        let need_zero = |what: &str| -> Result<(), FrameError> { if s != 0 { ferr(ecode::PROTOCOL_ERROR, true, &format!("{what} on a non-zero stream")) } else { Ok(()) } };
        match h.ty {
            ftype::DATA => {
                need_stream("DATA")?;
                let (d, pad) = unpad(p, raw.has(flag::PADDED))?;
                Ok(Frame::Data { stream: s, end_stream: raw.has(flag::END_STREAM), data: d.to_vec(), pad })
            }
            ftype::HEADERS => {
                need_stream("HEADERS")?;
                let (mut d, pad) = unpad(p, raw.has(flag::PADDED))?;
                let mut priority = None;
                if raw.has(flag::PRIORITY) {
                    if d.len() < 5 {
                        return ferr(ecode::FRAME_SIZE_ERROR, true, "HEADERS with PRIORITY flag shorter than 5 octets");
                    }
                    priority = Some(Priority::get(d));
                    d = &d[5..];
                }
                Ok(Frame::Headers { stream: s, end_stream: raw.has(flag::END_STREAM), end_headers: raw.has(flag::END_HEADERS), priority, fragment: d.to_vec(), pad })
            }
            ftype::PRIORITY => {
                need_stream("PRIORITY")?;
                if p.len() != 5 {
                    return ferr(ecode::FRAME_SIZE_ERROR, false, "PRIORITY length != 5");
                }
                Ok(Frame::Priority { stream: s, pri: Priority::get(p) })
            }
            ftype::RST_STREAM => {
                need_stream("RST_STREAM")?;
                if p.len() != 4 {
                    return ferr(ecode::FRAME_SIZE_ERROR, true, "RST_STREAM length != 4");
                }
                Ok(Frame::RstStream { stream: s, code: u32::from_be_bytes([p[0], p[1], p[2], p[3]]) })
            }
            ftype::SETTINGS => {
                need_zero("SETTINGS")?;
                let ack = raw.has(flag::ACK);
                if ack && !p.is_empty() {
                    return ferr(ecode::FRAME_SIZE_ERROR, true, "SETTINGS ACK with payload");
                }
                if p.len() % 6 != 0 {
                    return ferr(ecode::FRAME_SIZE_ERROR, true, "SETTINGS length not a multiple of 6");
                }
                let params = p.chunks(6).map(|c| (u16::from_be_bytes([c[0], c[1]]), u32::from_be_bytes([c[2], c[3], c[4], c[5]]))).collect();
                Ok(Frame::Settings { ack, params })
            }
            ftype::PUSH_PROMISE => {
                need_stream("PUSH_PROMISE")?;
                let (d, pad) = unpad(p, raw.has(flag::PADDED))?;
                if d.len() < 4 {
                    return ferr(ecode::FRAME_SIZE_ERROR, true, "PUSH_PROMISE shorter than 4 octets");
                }
                let promised = u32::from_be_bytes([d[0], d[1], d[2], d[3]]) & 0x7fff_ffff;
                Ok(Frame::PushPromise { stream: s, promised, end_headers: raw.has(flag::END_HEADERS), fragment: d[4..].to_vec(), pad })
            }
            ftype::PING => {
                need_zero("PING")?;
                if p.len() != 8 {
                    return ferr(ecode::FRAME_SIZE_ERROR, true, "PING length != 8");
                }
                let mut data = [0u8; 8];
                data.copy_from_slice(p);
                Ok(Frame::Ping { ack: raw.has(flag::ACK), data })
            }
            ftype::GOAWAY => {
                need_zero("GOAWAY")?;
                if p.len() < 8 {
                    return ferr(ecode::FRAME_SIZE_ERROR, true, "GOAWAY shorter than 8 octets");
                }
                Ok(Frame::GoAway {
                    last_stream: u32::from_be_bytes([p[0], p[1], p[2], p[3]]) & 0x7fff_ffff,
                    code: u32::from_be_bytes([p[4], p[5], p[6], p[7]]),
                    debug: p[8..].to_vec(),
                })
            }
            ftype::WINDOW_UPDATE => {
                if p.len() != 4 {
                    return ferr(ecode::FRAME_SIZE_ERROR, true, "WINDOW_UPDATE length != 4");
                }
                Ok(Frame::WindowUpdate { stream: s, increment: u32::from_be_bytes([p[0], p[1], p[2], p[3]]) & 0x7fff_ffff })
            }
            ftype::CONTINUATION => {
                need_stream("CONTINUATION")?;
                Ok(Frame::Continuation { stream: s, end_headers: raw.has(flag::END_HEADERS), fragment: p.to_vec() })
            }
            ty => Ok(Frame::Unknown { ty, flags: h.flags, stream: s, payload: p.to_vec() }),
        }
    }
}

// ------------------------------------------------------------------------------- frame reader

/// Incremental frame reader: feed bytes as they arrive (split anywhere), pull complete frames.
/// No limit is enforced here — the peer judges lengths against what it advertised.
#[derive(Clone, Debug, Default)]
pub struct FrameReader {
    buf: Vec<u8>,
    pos: usize,
    /// bytes consumed so far (offset of `buf[pos]` in the inbound stream)
    pub offset: u64,
    /// a client connection preface is expected first (server role)
    want_preface: bool,
    pub preface_seen: bool,
    pub bad_preface: bool,
}
impl FrameReader {
    pub fn new(expect_client_preface: bool) -> FrameReader {
        FrameReader { want_preface: expect_client_preface, ..Default::default() }
    }
    pub fn feed(&mut self, data: &[u8]) {
        if self.pos > 0 && self.pos == self.buf.len() {
            self.buf.clear();
            self.pos = 0;
        } else if self.pos > (1 << 16) {
            self.buf.drain(..self.pos);
            self.pos = 0;
        }
        self.buf.extend_from_slice(data);
    }
    /// bytes buffered but not yet returned as a frame
    pub fn pending(&self) -> usize {
        self.buf.len() - self.pos
    }
    /// header of the frame currently being assembled, if its 9 header octets have arrived
    pub fn partial_header(&self) -> Option<FrameHeader> {
        if self.want_preface || self.pending() < 9 { None } else { Some(FrameHeader::decode(&self.buf[self.pos..self.pos + 9])) }
    }
    pub fn next(&mut self) -> Option<RawFrame> {
        if self.bad_preface {
            return None;
        }
        if self.want_preface {
            let have = self.pending().min(PREFACE.len());
            if self.buf[self.pos..self.pos + have] != PREFACE[..have] {
                self.bad_preface = true;
                return None;
            }
            if have < PREFACE.len() {
                return None;
            }
            self.pos += PREFACE.len();
            self.offset += PREFACE.len() as u64;
            self.want_preface = false;
            self.preface_seen = true;
        }
        if self.pending() < 9 {
            return None;
        }
        let head = FrameHeader::decode(&self.buf[self.pos..self.pos + 9]);
        let total = 9 + head.len as usize;
        if self.pending() < total {
            return None;
        }
        let payload = self.buf[self.pos + 9..self.pos + total].to_vec();
        let at = self.offset;
        self.pos += total;
        self.offset += total as u64;
        Some(RawFrame { head, payload, at })
    }
}

// ------------------------------------------------------------------------------- HPACK encoder

/// RFC 7541 Appendix A.
pub static STATIC_TABLE: [(&str, &str); 61] = [
    (":authority", ""), (":method", "GET"), (":method", "POST"), (":path", "/"), (":path", "/index.html"),
    (":scheme", "http"), (":scheme", "https"), (":status", "200"), (":status", "204"), (":status", "206"),
    (":status", "304"), (":status", "400"), (":status", "404"), (":status", "500"), ("accept-charset", ""),
    ("accept-encoding", "gzip, deflate"), ("accept-language", ""), ("accept-ranges", ""), ("accept", ""),
    ("access-control-allow-origin", ""), ("age", ""), ("allow", ""), ("authorization", ""), ("cache-control", ""),
    ("content-disposition", ""), ("content-encoding", ""), ("content-language", ""), ("content-length", ""),
    ("content-location", ""), ("content-range", ""), ("content-type", ""), ("cookie", ""), ("date", ""), ("etag", ""),
    ("expect", ""), ("expires", ""), ("from", ""), ("host", ""), ("if-match", ""), ("if-modified-since", ""),
    ("if-none-match", ""), ("if-range", ""), ("if-unmodified-since", ""), ("last-modified", ""), ("link", ""),
    ("location", ""), ("max-forwards", ""), ("proxy-authenticate", ""), ("proxy-authorization", ""), ("range", ""),
    ("referer", ""), ("refresh", ""), ("retry-after", ""), ("server", ""), ("set-cookie", ""),
    ("strict-transport-security", ""), ("transfer-encoding", ""), ("user-agent", ""), ("vary", ""), ("via", ""),
    ("www-authenticate", ""),
];

/// RFC 7541 Appendix B: (code, bit length) for symbols 0..=255 and EOS (256).
static HUFFMAN: [(u32, u8); 257] = [
    (0x1ff8, 13), (0x7fffd8, 23), (0xfffffe2, 28), (0xfffffe3, 28), (0xfffffe4, 28), (0xfffffe5, 28), 
    (0xfffffe6, 28), (0xfffffe7, 28), (0xfffffe8, 28), (0xffffea, 24), (0x3ffffffc, 30), (0xfffffe9, 28), 
    (0xfffffea, 28), (0x3ffffffd, 30), (0xfffffeb, 28), (0xfffffec, 28), (0xfffffed, 28), (0xfffffee, 28), 
    (0xfffffef, 28), (0xffffff0, 28), (0xffffff1, 28), (0xffffff2, 28), (0x3ffffffe, 30), (0xffffff3, 28), 
    (0xffffff4, 28), (0xffffff5, 28), (0xffffff6, 28), (0xffffff7, 28), (0xffffff8, 28), (0xffffff9, 28), 
    (0xffffffa, 28), (0xffffffb, 28), (0x14, 6), (0x3f8, 10), (0x3f9, 10), (0xffa, 12), 
    (0x1ff9, 13), (0x15, 6), (0xf8, 8), (0x7fa, 11), (0x3fa, 10), (0x3fb, 10), 
    (0xf9, 8), (0x7fb, 11), (0xfa, 8), (0x16, 6), (0x17, 6), (0x18, 6), 
    (0x0, 5), (0x1, 5), (0x2, 5), (0x19, 6), (0x1a, 6), (0x1b, 6), 
    (0x1c, 6), (0x1d, 6), (0x1e, 6), (0x1f, 6), (0x5c, 7), (0xfb, 8), 
    (0x7ffc, 15), (0x20, 6), (0xffb, 12), (0x3fc, 10), (0x1ffa, 13), (0x21, 6), 
    (0x5d, 7), (0x5e, 7), (0x5f, 7), (0x60, 7), (0x61, 7), (0x62, 7), 
    (0x63, 7), (0x64, 7), (0x65, 7), (0x66, 7), (0x67, 7), (0x68, 7), 
    (0x69, 7), (0x6a, 7), (0x6b, 7), (0x6c, 7), (0x6d, 7), (0x6e, 7), 
    (0x6f, 7), (0x70, 7), (0x71, 7), (0x72, 7), (0xfc, 8), (0x73, 7), 
    (0xfd, 8), (0x1ffb, 13), (0x7fff0, 19), (0x1ffc, 13), (0x3ffc, 14), (0x22, 6), 
    (0x7ffd, 15), (0x3, 5), (0x23, 6), (0x4, 5), (0x24, 6), (0x5, 5), 
    (0x25, 6), (0x26, 6), (0x27, 6), (0x6, 5), (0x74, 7), (0x75, 7), 
    (0x28, 6), (0x29, 6), (0x2a, 6), (0x7, 5), (0x2b, 6), (0x76, 7), 
    (0x2c, 6), (0x8, 5), (0x9, 5), (0x2d, 6), (0x77, 7), (0x78, 7), 
    (0x79, 7), (0x7a, 7), (0x7b, 7), (0x7ffe, 15), (0x7fc, 11), (0x3ffd, 14), 
    (0x1ffd, 13), (0xffffffc, 28), (0xfffe6, 20), (0x3fffd2, 22), (0xfffe7, 20), (0xfffe8, 20), 
    (0x3fffd3, 22), (0x3fffd4, 22), (0x3fffd5, 22), (0x7fffd9, 23), (0x3fffd6, 22), (0x7fffda, 23), 
    (0x7fffdb, 23), (0x7fffdc, 23), (0x7fffdd, 23), (0x7fffde, 23), (0xffffeb, 24), (0x7fffdf, 23), 
    (0xffffec, 24), (0xffffed, 24), (0x3fffd7, 22), (0x7fffe0, 23), (0xffffee, 24), (0x7fffe1, 23), 
    (0x7fffe2, 23), (0x7fffe3, 23), (0x7fffe4, 23), (0x1fffdc, 21), (0x3fffd8, 22), (0x7fffe5, 23), 
    (0x3fffd9, 22), (0x7fffe6, 23), (0x7fffe7, 23), (0xffffef, 24), (0x3fffda, 22), (0x1fffdd, 21), 
    (0xfffe9, 20), (0x3fffdb, 22), (0x3fffdc, 22), (0x7fffe8, 23), (0x7fffe9, 23), (0x1fffde, 21), 
    (0x7fffea, 23), (0x3fffdd, 22), (0x3fffde, 22), (0xfffff0, 24), (0x1fffdf, 21), (0x3fffdf, 22), 
    (0x7fffeb, 23), (0x7fffec, 23), (0x1fffe0, 21), (0x1fffe1, 21), (0x3fffe0, 22), (0x1fffe2, 21), 
    (0x7fffed, 23), (0x3fffe1, 22), (0x7fffee, 23), (0x7fffef, 23), (0xfffea, 20), (0x3fffe2, 22), 
    (0x3fffe3, 22), (0x3fffe4, 22), (0x7ffff0, 23), (0x3fffe5, 22), (0x3fffe6, 22), (0x7ffff1, 23), 
    (0x3ffffe0, 26), (0x3ffffe1, 26), (0xfffeb, 20), (0x7fff1, 19), (0x3fffe7, 22), (0x7ffff2, 23), 
    (0x3fffe8, 22), (0x1ffffec, 25), (0x3ffffe2, 26), (0x3ffffe3, 26), (0x3ffffe4, 26), (0x7ffffde, 27), 
    (0x7ffffdf, 27), (0x3ffffe5, 26), (0xfffff1, 24), (0x1ffffed, 25), (0x7fff2, 19), (0x1fffe3, 21), 
    (0x3ffffe6, 26), (0x7ffffe0, 27), (0x7ffffe1, 27), (0x3ffffe7, 26), (0x7ffffe2, 27), (0xfffff2, 24), 
    (0x1fffe4, 21), (0x1fffe5, 21), (0x3ffffe8, 26), (0x3ffffe9, 26), (0xffffffd, 28), (0x7ffffe3, 27), 
    (0x7ffffe4, 27), (0x7ffffe5, 27), (0xfffec, 20), (0xfffff3, 24), (0xfffed, 20), (0x1fffe6, 21), 
    (0x3fffe9, 22), (0x1fffe7, 21), (0x1fffe8, 21), (0x7ffff3, 23), (0x3fffea, 22), (0x3fffeb, 22), 
    (0x1ffffee, 25), (0x1ffffef, 25), (0xfffff4, 24), (0xfffff5, 24), (0x3ffffea, 26), (0x7ffff4, 23), 
    (0x3ffffeb, 26), (0x7ffffe6, 27), (0x3ffffec, 26), (0x3ffffed, 26), (0x7ffffe7, 27), (0x7ffffe8, 27), 
    (0x7ffffe9, 27), (0x7ffffea, 27), (0x7ffffeb, 27), (0xffffffe, 28), (0x7ffffec, 27), (0x7ffffed, 27), 
    (0x7ffffee, 27), (0x7ffffef, 27), (0x7fffff0, 27), (0x3ffffee, 26), (0x3fffffff, 30),
];

/// HPACK integer (RFC 7541 §5.1): `prefix_bits` in 1..=8, `high` holds the bits above the prefix.
pub fn encode_int(out: &mut Vec<u8>, value: u64, prefix_bits: u8, high: u8) {
    let max = (1u64 << prefix_bits) - 1;
    if value < max {
        out.push(high | value as u8);
        return;
    }
    out.push(high | max as u8);
    let mut v = value - max;
    while v >= 128 {
        out.push((v & 0x7f) as u8 | 0x80);
        v >>= 7;
    }
    out.push(v as u8);
}
/// Decode an HPACK integer; returns (value, octets consumed).
pub fn decode_int(b: &[u8], prefix_bits: u8) -> Option<(u64, usize)> {
    let max = (1u64 << prefix_bits) - 1;
    let first = *b.first()? as u64 & max;
    if first < max {
        return Some((first, 1));
    }
    let (mut v, mut shift, mut i) = (max, 0u32, 1usize);
    loop {
        let o = *b.get(i)? as u64;
        i += 1;
        if shift > 56 {
            return None;
        }
        v = v.checked_add((o & 0x7f) << shift)?;
        shift += 7;
        if o & 0x80 == 0 {
            return Some((v, i));
        }
    }
}
pub fn huffman_encode(s: &[u8]) -> Vec<u8> {
    let mut out = Vec::with_capacity(s.len());
    let (mut acc, mut nbits) = (0u64, 0u32);
    for b in s {
        let (code, len) = HUFFMAN[*b as usize];
        acc = (acc << len) | code as u64;
        nbits += len as u32;
        while nbits >= 8 {
            nbits -= 8;
            out.push((acc >> nbits) as u8);
        }
        acc &= (1u64 << nbits) - 1;
    }
    if nbits > 0 {
        // pad with the most significant bits of EOS (all ones)
        out.push(((acc << (8 - nbits)) as u8) | (0xffu8 >> nbits));
    }
    out
}
/// HPACK string literal (RFC 7541 §5.2).
pub fn encode_str(out: &mut Vec<u8>, s: &[u8], huffman: bool) {
    if huffman {
        let h = huffman_encode(s);
        encode_int(out, h.len() as u64, 7, 0x80);
        out.extend_from_slice(&h);
    } else {
        encode_int(out, s.len() as u64, 7, 0);
        out.extend_from_slice(s);
    }
}

/// Header field representation (RFC 7541 §6.2).
#[derive(Clone, Copy, Debug, PartialEq, Eq, Serialize, Deserialize)]
pub enum Repr {
    /// literal without indexing (0000xxxx)
    NoIndex,
    /// literal never indexed (0001xxxx)
    NeverIndex,
    /// literal with incremental indexing (01xxxxxx): enters the receiver's dynamic table
    IncrIndex,
}

/// How this peer encodes its header blocks.
#[derive(Clone, Debug, PartialEq, Serialize, Deserialize)]
pub struct HpackStyle {
    pub repr: Repr,
    /// every n-th field uses `IncrIndex` regardless of `repr` (0 = never)
    pub incr_every: u32,
    /// name given as static-table index when the table has it
    pub static_names: bool,
    /// fully indexed representation for exact static-table matches (":method: GET", ...)
    pub static_full: bool,
    pub huffman: bool,
    /// refer to dynamic-table entries this encoder inserted earlier (exact name+value matches)
    pub dynamic_refs: bool,
    /// dynamic table size the encoder wants (capped by what the receiver advertised); announced
    /// with a table-size update at the start of the next block when it differs from the current
    pub table_size: Option<u32>,
}
impl Default for HpackStyle {
    fn default() -> Self {
        HpackStyle { repr: Repr::NoIndex, incr_every: 0, static_names: true, static_full: false, huffman: false, dynamic_refs: false, table_size: None }
    }
}

/// The harness's own HPACK encoder. It mirrors the receiver's dynamic table only as far as it
/// inserted entries itself (literal with incremental indexing), so that size accounting, evictions
/// and optional back-references stay exact.
#[derive(Clone, Debug)]
pub struct HpackEncoder {
    pub style: HpackStyle,
    /// newest first: index 62 is `table[0]`
    table: VecDeque<(Vec<u8>, Vec<u8>)>,
    table_bytes: usize,
    /// current maximum as last signalled to (or assumed by) the receiver
    table_max: usize,
    /// receiver's SETTINGS_HEADER_TABLE_SIZE
    peer_max: usize,
    /// smallest maximum reached since the last emitted block (RFC 7541 §4.2), if a signal is owed
    owed_min: Option<usize>,
    fields_emitted: u64,
}
impl HpackEncoder {
    pub fn new(style: HpackStyle) -> HpackEncoder {
        let mut e = HpackEncoder {
            style,
            table: VecDeque::new(),
            table_bytes: 0,
            table_max: DEFAULT_TABLE_SIZE as usize,
            peer_max: DEFAULT_TABLE_SIZE as usize,
            owed_min: None,
            fields_emitted: 0,
        };
        e.retarget();
        e
    }
    fn evict_to(&mut self, max: usize) {
        while self.table_bytes > max {
            match self.table.pop_back() {
                Some((n, v)) => self.table_bytes -= n.len() + v.len() + 32,
                None => break,
            }
        }
    }
    fn set_max(&mut self, m: usize) {
        if m != self.table_max {
            self.owed_min = Some(self.owed_min.map_or(m, |x| x.min(m)));
            self.table_max = m;
            self.evict_to(m);
        }
    }
    fn retarget(&mut self) {
        let want = self.style.table_size.map_or(self.table_max.min(self.peer_max), |t| (t as usize).min(self.peer_max));
        self.set_max(want);
    }
    /// The receiver advertised SETTINGS_HEADER_TABLE_SIZE = n (call when its SETTINGS arrive).
    pub fn on_peer_table_size(&mut self, n: u32) {
        self.peer_max = n as usize;
        if self.table_max > self.peer_max {
            self.set_max(n as usize);
        }
        self.retarget();
    }
    pub fn dynamic_entries(&self) -> usize {
        self.table.len()
    }
    fn insert(&mut self, name: &[u8], value: &[u8]) {
        let sz = name.len() + value.len() + 32;
        if sz > self.table_max {
            self.table.clear();
            self.table_bytes = 0;
            return;
        }
        self.evict_to(self.table_max - sz);
        self.table.push_front((name.to_vec(), value.to_vec()));
        self.table_bytes += sz;
    }

    /// Dynamic table size update (001xxxxx). Raw: no bookkeeping (abuse tests).
    pub fn size_update(out: &mut Vec<u8>, size: u64) {
        encode_int(out, size, 5, 0x20);
    }
    /// Indexed header field (1xxxxxxx). Raw.
    pub fn indexed(out: &mut Vec<u8>, index: u64) {
        encode_int(out, index, 7, 0x80);
    }
    /// One literal field in the given representation. Raw with respect to the dynamic table
    /// (the caller must call `note_inserted` for IncrIndex if it cares about the mirror).
    pub fn literal(out: &mut Vec<u8>, name: &[u8], value: &[u8], repr: Repr, name_index: Option<u64>, huffman: bool) {
        let (bits, high) = match repr {
            Repr::IncrIndex => (6, 0x40),
            Repr::NoIndex => (4, 0x00),
            Repr::NeverIndex => (4, 0x10),
        };
        match name_index {
            Some(i) => encode_int(out, i, bits, high),
            None => {
                encode_int(out, 0, bits, high);
                encode_str(out, name, huffman);
            }
        }
        encode_str(out, value, huffman);
    }

    fn static_name(name: &[u8]) -> Option<u64> {
        STATIC_TABLE.iter().position(|(n, _)| n.as_bytes() == name).map(|i| i as u64 + 1)
    }
    fn static_full(name: &[u8], value: &[u8]) -> Option<u64> {
        STATIC_TABLE.iter().position(|(n, v)| !v.is_empty() && n.as_bytes() == name && v.as_bytes() == value).map(|i| i as u64 + 1)
    }

    /// Encode one field according to the style (and keep the table mirror exact).
    pub fn field(&mut self, out: &mut Vec<u8>, name: &[u8], value: &[u8], repr: Repr) {
        self.fields_emitted += 1;
        if self.style.static_full {
            if let Some(i) = Self::static_full(name, value) {
                Self::indexed(out, i);
                return;
            }
        }
        if self.style.dynamic_refs {
            if let Some(p) = self.table.iter().position(|(n, v)| n == name && v == value) {
                Self::indexed(out, 62 + p as u64);
                return;
            }
        }
        let idx = if self.style.static_names { Self::static_name(name) } else { None };
        Self::literal(out, name, value, repr, idx, self.style.huffman);
        if repr == Repr::IncrIndex {
            self.insert(name, value);
        }
    }

    /// Owed table-size updates; must open the next header block.
    pub fn block_prefix(&mut self, out: &mut Vec<u8>) {
        if let Some(min) = self.owed_min.take() {
            if min < self.table_max {
                Self::size_update(out, min as u64);
            }
            Self::size_update(out, self.table_max as u64);
        }
    }

    /// A complete header block for this header list.
    pub fn encode_block(&mut self, headers: &[(String, String)]) -> Vec<u8> {
        let mut out = Vec::new();
        self.block_prefix(&mut out);
        for (n, v) in headers {
            let nth = self.fields_emitted + 1;
            let repr = if self.style.incr_every > 0 && nth % self.style.incr_every as u64 == 0 { Repr::IncrIndex } else { self.style.repr };
            self.field(&mut out, n.as_bytes(), v.as_bytes(), repr);
        }
        out
    }
}

// ------------------------------------------------------------------------------- HPACK decoding

#[derive(Clone, Debug, Default, PartialEq, Serialize, Deserialize)]
pub struct DecodedBlock {
    pub fields: Vec<(String, String)>,
    /// table-size updates that opened the block
    pub size_updates: Vec<u64>,
    /// a reduction of our advertised table size was acknowledged, yet this block (the first after
    /// it) did not start with a table-size update (RFC 7541 §4.2 MUST)
    pub missing_size_update: bool,
    /// a table-size update exceeded what we advertised
    pub update_exceeds_advertised: bool,
    /// some name or value was not valid UTF-8 (stored lossily)
    pub non_utf8: bool,
}

/// Decoder for what sozu sends: `loona_hpack::Decoder` held to the table size this peer
/// advertised *and sozu acknowledged*.
pub struct HpackDecoder {
    inner: loona_hpack::Decoder<'static>,
    /// our advertised SETTINGS_HEADER_TABLE_SIZE in force (acknowledged)
    pub allowed: u64,
    /// the encoder's current maximum as we know it (last size update, or the initial 4096)
    pub cur_max: u64,
    must_update: bool,
    pub blocks: u64,
    /// after a decoding error the shared state is lost; later blocks are not decoded
    pub broken: Option<String>,
}
impl HpackDecoder {
    pub fn new() -> HpackDecoder {
        let mut inner = loona_hpack::Decoder::new();
        inner.set_max_allowed_table_size(DEFAULT_TABLE_SIZE as usize);
        HpackDecoder { inner, allowed: DEFAULT_TABLE_SIZE as u64, cur_max: DEFAULT_TABLE_SIZE as u64, must_update: false, blocks: 0, broken: None }
    }
    /// sozu acknowledged our SETTINGS carrying HEADER_TABLE_SIZE = n.
    pub fn on_settings_acked(&mut self, n: u32) {
        let n = n as u64;
        if n < self.cur_max {
            // the encoder must shrink: entries beyond n are gone for both sides
            self.inner.set_max_table_size(n as usize);
            self.cur_max = n;
            self.must_update = true;
        }
        self.inner.set_max_allowed_table_size(n as usize);
        self.allowed = n;
    }
    pub fn decode(&mut self, block: &[u8]) -> Result<DecodedBlock, String> {
        if let Some(e) = &self.broken {
            return Err(format!("decoder state lost earlier: {e}"));
        }
        self.blocks += 1;
        let mut out = DecodedBlock::default();
        // leading table-size updates (001xxxxx), read independently of the decoder
        let mut i = 0;
        while i < block.len() && block[i] & 0xe0 == 0x20 {
            match decode_int(&block[i..], 5) {
                Some((v, n)) => {
                    out.size_updates.push(v);
                    if v > self.allowed {
                        out.update_exceeds_advertised = true;
                    }
                    self.cur_max = v;
                    i += n;
                }
                None => break,
            }
        }
        if self.must_update {
            self.must_update = false;
            out.missing_size_update = out.size_updates.is_empty();
        }
        match self.inner.decode(block) {
            Ok(list) => {
                for (n, v) in list {
                    let (ns, vs) = (String::from_utf8_lossy(&n).into_owned(), String::from_utf8_lossy(&v).into_owned());
                    if ns.as_bytes() != &n[..] || vs.as_bytes() != &v[..] {
                        out.non_utf8 = true;
                    }
                    out.fields.push((ns, vs));
                }
                Ok(out)
            }
            Err(e) => {
                let msg = format!("{e:?}");
                self.broken = Some(msg.clone());
                Err(msg)
            }
        }
    }
}

// ------------------------------------------------------------------------------- self-check

/// Codec-only checks (no sockets): RFC test vectors and round trips through the decoder.
pub fn codec_selftest() -> Result<(), String> {
    // frame header
    let h = FrameHeader { len: 0x01_02_03, ty: 9, flags: 0x25, r: true, stream: 0x7fff_fffe };
    if FrameHeader::decode(&h.encode()) != h {
        return Err("frame header round trip".into());
    }
    // integer vectors (RFC 7541 C.1)
    let mut v = Vec::new();
    encode_int(&mut v, 10, 5, 0);
    encode_int(&mut v, 1337, 5, 0);
    encode_int(&mut v, 42, 8, 0);
    if v != [0x0a, 0x1f, 0x9a, 0x0a, 0x2a] {
        return Err(format!("integer encoding {v:x?}"));
    }
    if decode_int(&[0x1f, 0x9a, 0x0a], 5) != Some((1337, 3)) {
        return Err("integer decoding".into());
    }
    // Huffman vector (RFC 7541 C.4.1)
    if huffman_encode(b"www.example.com") != [0xf1, 0xe3, 0xc2, 0xe5, 0xf2, 0x3a, 0x6b, 0xa0, 0xab, 0x90, 0xf4, 0xff] {
        return Err("huffman vector".into());
    }
    // every frame type survives encode -> split feeding -> parse
    let frames = vec![
        Frame::Data { stream: 1, end_stream: true, data: b"hello".to_vec(), pad: Some(7) },
        Frame::Data { stream: 3, end_stream: false, data: vec![], pad: None },
        Frame::Headers { stream: 5, end_stream: false, end_headers: false, priority: Some(Priority { exclusive: true, dep: 3, weight: 200 }), fragment: vec![0x82, 0x86], pad: Some(0) },
        Frame::Continuation { stream: 5, end_headers: true, fragment: vec![0x84] },
        Frame::Priority { stream: 7, pri: Priority { exclusive: false, dep: 0, weight: 15 } },
        Frame::RstStream { stream: 7, code: ecode::CANCEL },
        Frame::Settings { ack: false, params: vec![(sid::INITIAL_WINDOW_SIZE, 0x7fff_ffff), (sid::MAX_FRAME_SIZE, 0xff_ffff), (0xabcd, 7)] },
        Frame::Settings { ack: true, params: vec![] },
        Frame::PushPromise { stream: 1, promised: 2, end_headers: true, fragment: vec![0x82], pad: Some(3) },
        Frame::Ping { ack: true, data: [1, 2, 3, 4, 5, 6, 7, 8] },
        Frame::GoAway { last_stream: 9, code: ecode::ENHANCE_YOUR_CALM, debug: b"calm".to_vec() },
        Frame::WindowUpdate { stream: 0, increment: 0x7fff_ffff },
        Frame::Unknown { ty: 0xee, flags: 0xff, stream: 11, payload: vec![9; 20] },
    ];
    let mut wire = Vec::new();
    for f in &frames {
        wire.extend_from_slice(&f.encode());
    }
    for split in [1usize, 2, 3, 8, 9, 10, 17, 1000] {
        let mut r = FrameReader::new(false);
        let mut got = Vec::new();
        for chunk in wire.chunks(split) {
            r.feed(chunk);
            while let Some(raw) = r.next() {
                got.push(Frame::parse(&raw).map_err(|e| format!("parse: {e:?}"))?);
            }
        }
        if got != frames {
            return Err(format!("frame round trip with split {split}"));
        }
    }
    // malformed frames are recognised
    let bad = [
        RawFrame::new(ftype::DATA, flag::PADDED, 1, vec![5, 1, 2]),
        RawFrame::new(ftype::PING, 0, 0, vec![0; 7]),
        RawFrame::new(ftype::SETTINGS, 0, 0, vec![0; 5]),
        RawFrame::new(ftype::SETTINGS, flag::ACK, 0, vec![0; 6]),
        RawFrame::new(ftype::WINDOW_UPDATE, 0, 0, vec![0; 3]),
        RawFrame::new(ftype::RST_STREAM, 0, 0, vec![0; 4]),
        RawFrame::new(ftype::HEADERS, 0, 0, vec![]),
        RawFrame::new(ftype::GOAWAY, 0, 1, vec![0; 8]),
    ];
    for b in &bad {
        if Frame::parse(b).is_ok() {
            return Err(format!("malformed frame accepted: {:?}", b.head));
        }
    }
    // preface handling
    let mut r = FrameReader::new(true);
    r.feed(&PREFACE[..10]);
    if r.next().is_some() || r.bad_preface {
        return Err("partial preface".into());
    }
    r.feed(&PREFACE[10..]);
    r.feed(&Frame::Settings { ack: false, params: vec![] }.encode());
    if r.next().is_none() || !r.preface_seen {
        return Err("preface + settings".into());
    }
    let mut r = FrameReader::new(true);
    r.feed(b"GET / HTTP/1.1\r\n");
    if r.next().is_some() || !r.bad_preface {
        return Err("bad preface not flagged".into());
    }
    // HPACK: every style decodes to the same list through the reference decoder
    let list: Vec<(String, String)> = vec![
        (":method".into(), "GET".into()), (":scheme".into(), "https".into()), (":path".into(), "/a/b?c=d".into()),
        (":authority".into(), "localhost".into()), ("x-sim-id".into(), "42".into()), ("cookie".into(), "a=b; c=d".into()),
        ("x-long".into(), "v".repeat(300)), ("x-bin".into(), "\u{7f}~!\"#$%&'()*+,-./:;<=>?@[\\]^_`{|}".into()),
    ];
    for huffman in [false, true] {
        for repr in [Repr::NoIndex, Repr::NeverIndex, Repr::IncrIndex] {
            for variant in 0..4 {
                let style = HpackStyle { repr, incr_every: if variant == 1 { 2 } else { 0 }, static_names: variant != 2, static_full: variant == 3, huffman, dynamic_refs: variant == 3, table_size: if variant == 3 { Some(200) } else { None } };
                let mut enc = HpackEncoder::new(style.clone());
                let mut dec = HpackDecoder::new();
                for round in 0..4 {
                    if round == 2 {
                        // the receiver shrinks its table, then restores it
                        enc.on_peer_table_size(64);
                        dec.on_settings_acked(64);
                        enc.on_peer_table_size(4096);
                        dec.on_settings_acked(4096);
                    }
                    let block = enc.encode_block(&list);
                    let d = dec.decode(&block).map_err(|e| format!("hpack decode ({style:?}, round {round}): {e}"))?;
                    if d.fields != list {
                        return Err(format!("hpack round trip differs ({style:?}, round {round})"));
                    }
                    if d.missing_size_update || d.update_exceeds_advertised {
                        return Err(format!("hpack size-update bookkeeping ({style:?}, round {round}): {d:?}"));
                    }
                }
            }
        }
    }
    // a decoder that was told about a shrink notices the missing update
    let mut dec = HpackDecoder::new();
    dec.on_settings_acked(0);
    let mut enc = HpackEncoder::new(HpackStyle::default());
    let d = dec.decode(&enc.encode_block(&list)).map_err(|e| e.to_string())?;
    if !d.missing_size_update {
        return Err("missing size update not noticed".into());
    }
    // ... and an update beyond the advertised size
    let mut dec = HpackDecoder::new();
    let mut block = Vec::new();
    HpackEncoder::size_update(&mut block, 8192);
    HpackEncoder::indexed(&mut block, 2);
    if dec.decode(&block).is_ok() {
        return Err("oversized table-size update accepted".into());
    }
    Ok(())
}
