//! Independent, incremental HTTP/1.1 message reader used by the simulated peers. It is
//! deliberately simple and strict about framing (it is also the basis of the C03 strict reader).
#![allow(dead_code)]

use std::collections::VecDeque;

use serde::{Deserialize, Serialize};

use super::BodyCheck;

#[derive(Clone, Copy, Debug, PartialEq, Serialize, Deserialize)]
pub enum Kind {
    Request,
    Response,
}

#[derive(Clone, Debug, PartialEq, Serialize, Deserialize)]
pub enum BodyMode {
    None,
    Cl(u64),
    Chunked,
    Close,
}

#[derive(Clone, Debug, Serialize, Deserialize)]
pub struct Msg {
    pub start: String,
    pub headers: Vec<(String, String)>,
    pub raw_head: Vec<u8>,
    pub mode: BodyMode,
    /// id carried in `x-sim-id`, if any
    pub sim_id: Option<u64>,
    pub check: BodyCheck,
    /// decoded body length
    pub body_len: u64,
    /// first bytes of the decoded body (for proxy-generated answers)
    pub body_head: Vec<u8>,
    pub chunks: u32,
    pub trailers: Vec<(String, String)>,
    /// terminator seen (CL met / last chunk+trailers / EOF for close-delimited)
    pub complete: bool,
    /// virtual time of first head byte / completion
    pub t_start: u64,
    pub t_head: u64,
    pub t_end: u64,
}
impl Msg {
    pub fn header(&self, name: &str) -> Option<&str> {
        self.headers.iter().find(|(n, _)| n.eq_ignore_ascii_case(name)).map(|(_, v)| v.as_str())
    }
    pub fn header_all(&self, name: &str) -> Vec<&str> {
        self.headers.iter().filter(|(n, _)| n.eq_ignore_ascii_case(name)).map(|(_, v)| v.as_str()).collect()
    }
    pub fn status(&self) -> u16 {
        self.start.split(' ').nth(1).and_then(|s| s.parse().ok()).unwrap_or(0)
    }
    pub fn method(&self) -> &str {
        self.start.split(' ').next().unwrap_or("")
    }
    pub fn target(&self) -> &str {
        self.start.split(' ').nth(1).unwrap_or("")
    }
    pub fn body_ok(&self) -> bool {
        self.check.first_bad.is_none()
    }
}

#[derive(Clone, Debug, PartialEq)]
enum St {
    Head,
    BodyCl(u64),
    ChunkSize,
    ChunkData(u64),
    ChunkCrlf,
    Trailers,
    BodyClose,
    Dead,
}

pub struct Parser {
    pub kind: Kind,
    buf: Vec<u8>,
    st: St,
    pub cur: Option<Msg>,
    pub done: Vec<Msg>,
    pub error: Option<String>,
    /// methods of the requests whose responses are expected (Response parser only)
    pub expect: VecDeque<String>,
    /// key derivation: body key = sim_id*2 + key_bit
    pub key_bit: u64,
    pub now: u64,
    pub eof: bool,
    /// bytes received in total
    pub total: u64,
    /// number of 1xx interim responses skipped
    pub interim: u32,
}

fn find(hay: &[u8], needle: &[u8]) -> Option<usize> {
    hay.windows(needle.len()).position(|w| w == needle)
}

impl Parser {
    pub fn new(kind: Kind) -> Parser {
        Parser {
            kind,
            buf: Vec::new(),
            st: St::Head,
            cur: None,
            done: Vec::new(),
            error: None,
            expect: VecDeque::new(),
            key_bit: if kind == Kind::Request { 0 } else { 1 },
            now: 0,
            eof: false,
            total: 0,
            interim: 0,
        }
    }
    pub fn in_message(&self) -> bool {
        self.cur.is_some() || !self.buf.is_empty()
    }
    pub fn pending_bytes(&self) -> usize {
        self.buf.len()
    }

    fn fail(&mut self, why: String) {
        if self.error.is_none() {
            self.error = Some(why);
        }
        self.st = St::Dead;
    }

    fn finish(&mut self, complete: bool) {
        if let Some(mut m) = self.cur.take() {
            m.complete = complete;
            m.t_end = self.now;
            self.done.push(m);
        }
        self.st = St::Head;
    }

    fn body_data(&mut self, n: usize) {
        let data: Vec<u8> = self.buf.drain(..n).collect();
        if let Some(m) = self.cur.as_mut() {
            if m.sim_id.is_some() {
                m.check.feed(&data);
            }
            if m.body_head.len() < 512 {
                let k = (512 - m.body_head.len()).min(data.len());
                m.body_head.extend_from_slice(&data[..k]);
            }
            m.body_len += data.len() as u64;
        }
    }

    pub fn feed(&mut self, data: &[u8], now: u64) {
        self.now = now;
        self.total += data.len() as u64;
        self.buf.extend_from_slice(data);
        loop {
            match self.st.clone() {
                St::Dead => return,
                St::Head => {
                    if self.buf.is_empty() {
                        return;
                    }
                    let Some(pos) = find(&self.buf, b"\r\n\r\n") else {
                        if self.buf.len() > 256 * 1024 {
                            self.fail("head too large".into());
                        }
                        return;
                    };
                    let raw: Vec<u8> = self.buf.drain(..pos + 4).collect();
                    if let Err(e) = self.parse_head(raw) {
                        self.fail(e);
                        return;
                    }
                }
                St::BodyCl(left) => {
                    if left == 0 {
                        self.finish(true);
                        continue;
                    }
                    if self.buf.is_empty() {
                        return;
                    }
                    let n = (self.buf.len() as u64).min(left) as usize;
                    self.body_data(n);
                    self.st = St::BodyCl(left - n as u64);
                }
                St::ChunkSize => {
                    let Some(pos) = find(&self.buf, b"\r\n") else {
                        if self.buf.len() > 4096 {
                            self.fail("chunk size line too long".into());
                        }
                        return;
                    };
                    let line: Vec<u8> = self.buf.drain(..pos + 2).collect();
                    let line = &line[..pos];
                    let hex_end = line.iter().position(|c| *c == b';').unwrap_or(line.len());
                    let hex = std::str::from_utf8(&line[..hex_end]).unwrap_or("").trim();
                    if hex.is_empty() || !hex.bytes().all(|c| c.is_ascii_hexdigit()) || hex.len() > 15 {
                        self.fail(format!("bad chunk size {:?}", String::from_utf8_lossy(line)));
                        return;
                    }
                    let n = u64::from_str_radix(hex, 16).unwrap();
                    if let Some(m) = self.cur.as_mut() {
                        m.chunks += 1;
                    }
                    self.st = if n == 0 { St::Trailers } else { St::ChunkData(n) };
                }
                St::ChunkData(left) => {
                    if left == 0 {
                        self.st = St::ChunkCrlf;
                        continue;
                    }
                    if self.buf.is_empty() {
                        return;
                    }
                    let n = (self.buf.len() as u64).min(left) as usize;
                    self.body_data(n);
                    self.st = St::ChunkData(left - n as u64);
                }
                St::ChunkCrlf => {
                    if self.buf.len() < 2 {
                        return;
                    }
                    if &self.buf[..2] != b"\r\n" {
                        self.fail("missing CRLF after chunk data".into());
                        return;
                    }
                    self.buf.drain(..2);
                    self.st = St::ChunkSize;
                }
                St::Trailers => {
                    let Some(pos) = find(&self.buf, b"\r\n") else {
                        return;
                    };
                    let line: Vec<u8> = self.buf.drain(..pos + 2).collect();
                    if pos == 0 {
                        self.finish(true);
                        continue;
                    }
                    let s = String::from_utf8_lossy(&line[..pos]).to_string();
                    if let Some((n, v)) = s.split_once(':') {
                        if let Some(m) = self.cur.as_mut() {
                            m.trailers.push((n.to_string(), v.trim().to_string()));
                        }
                    } else {
                        self.fail(format!("bad trailer line {s:?}"));
                        return;
                    }
                }
                St::BodyClose => {
                    if self.buf.is_empty() {
                        return;
                    }
                    let n = self.buf.len();
                    self.body_data(n);
                }
            }
        }
    }

    /// The peer closed its sending side.
    pub fn on_eof(&mut self, now: u64) {
        self.now = now;
        self.eof = true;
        match self.st {
            St::BodyClose => self.finish(true),
            St::Head if self.buf.is_empty() => {}
            St::Dead => {}
            _ => {
                // truncated message
                if self.cur.is_some() {
                    self.finish(false);
                }
            }
        }
    }

    fn parse_head(&mut self, raw: Vec<u8>) -> Result<(), String> {
        let text = std::str::from_utf8(&raw[..raw.len() - 4]).map_err(|_| "non-utf8 head".to_string())?;
        let mut lines = text.split("\r\n");
        let start = lines.next().unwrap_or("").to_string();
        let mut headers = Vec::new();
        for l in lines {
            let (n, v) = l.split_once(':').ok_or_else(|| format!("header line without colon {l:?}"))?;
            headers.push((n.to_string(), v.trim_matches(|c| c == ' ' || c == '\t').to_string()));
        }
        let get = |name: &str| -> Vec<&str> {
            headers.iter().filter(|(n, _)| n.eq_ignore_ascii_case(name)).map(|(_, v)| v.as_str()).collect()
        };
        let te = get("transfer-encoding");
        let cl = get("content-length");
        let chunked = te.iter().any(|v| v.split(',').any(|t| t.trim().eq_ignore_ascii_case("chunked")));
        let mut mode;
        if chunked {
            mode = BodyMode::Chunked;
        } else if !cl.is_empty() {
            let v: u64 = cl[0].trim().parse().map_err(|_| format!("bad content-length {:?}", cl[0]))?;
            if cl.iter().any(|c| c.trim() != cl[0].trim()) {
                return Err("conflicting content-length".into());
            }
            mode = BodyMode::Cl(v);
        } else {
            mode = if self.kind == Kind::Request { BodyMode::None } else { BodyMode::Close };
        }
        let mut interim = false;
        if self.kind == Kind::Response {
            let status: u16 = start.split(' ').nth(1).and_then(|s| s.parse().ok()).ok_or_else(|| format!("bad status line {start:?}"))?;
            if !start.starts_with("HTTP/1.") {
                return Err(format!("bad status line {start:?}"));
            }
            if (100..200).contains(&status) && status != 101 {
                interim = true;
                mode = BodyMode::None;
            } else {
                let method = self.expect.pop_front().unwrap_or_default();
                if method == "HEAD" || status == 204 || status == 304 {
                    mode = BodyMode::None;
                }
                if status == 101 {
                    mode = BodyMode::Close;
                }
            }
        } else {
            let mut p = start.split(' ');
            let (m, t, v) = (p.next(), p.next(), p.next());
            if m.is_none() || t.is_none() || !v.map_or(false, |v| v.starts_with("HTTP/1.")) || p.next().is_some() {
                return Err(format!("bad request line {start:?}"));
            }
        }
        if interim {
            self.interim += 1;
            return Ok(());
        }
        let sim_id = get("x-sim-id").first().and_then(|v| v.trim().parse::<u64>().ok());
        let key = sim_id.map(|i| i * 2 + self.key_bit).unwrap_or(0);
        let m = Msg {
            start,
            headers,
            raw_head: raw,
            mode: mode.clone(),
            sim_id,
            check: BodyCheck::new(key),
            body_len: 0,
            body_head: Vec::new(),
            chunks: 0,
            trailers: Vec::new(),
            complete: false,
            t_start: self.now,
            t_head: self.now,
            t_end: 0,
        };
        self.cur = Some(m);
        self.st = match mode {
            BodyMode::None => St::BodyCl(0),
            BodyMode::Cl(n) => St::BodyCl(n),
            BodyMode::Chunked => St::ChunkSize,
            BodyMode::Close => St::BodyClose,
        };
        Ok(())
    }
}
