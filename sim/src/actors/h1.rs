//! Scripted HTTP/1.1 client and backend peers.
#![allow(dead_code)]

use std::any::Any;
use std::collections::{BTreeMap, VecDeque};
use std::net::SocketAddr;

use serde::{Deserialize, Serialize};

use super::h1codec::{Kind, Msg, Parser};
use super::{gen_body, rd, wr, Io, Pace};
use crate::prng::Prng;
use crate::sys;
use crate::world::{Actor, Step, World};

#[derive(Clone, Debug, Serialize, Deserialize, PartialEq)]
pub enum BodySpec {
    None,
    Cl(usize),
    /// chunk sizes (a final 0-chunk is added)
    Chunked(Vec<usize>),
    /// close-delimited (responses only)
    Close(usize),
}
impl BodySpec {
    pub fn len(&self) -> usize {
        match self {
            BodySpec::None => 0,
            BodySpec::Cl(n) | BodySpec::Close(n) => *n,
            BodySpec::Chunked(v) => v.iter().sum(),
        }
    }
    pub fn render(&self, key: u64, head: &mut Vec<u8>, out: &mut Vec<u8>) {
        match self {
            BodySpec::None => {}
            BodySpec::Cl(n) => {
                head.extend_from_slice(format!("Content-Length: {n}\r\n").as_bytes());
                out.extend_from_slice(&gen_body(key, *n));
            }
            BodySpec::Close(n) => out.extend_from_slice(&gen_body(key, *n)),
            BodySpec::Chunked(sizes) => {
                head.extend_from_slice(b"Transfer-Encoding: chunked\r\n");
                let total: usize = sizes.iter().sum();
                let body = gen_body(key, total);
                let mut off = 0;
                for s in sizes {
                    if *s == 0 { continue; }
                    out.extend_from_slice(format!("{s:x}\r\n").as_bytes());
                    out.extend_from_slice(&body[off..off + s]);
                    out.extend_from_slice(b"\r\n");
                    off += s;
                }
                out.extend_from_slice(b"0\r\n\r\n");
            }
        }
    }
}

#[derive(Clone, Debug, Serialize, Deserialize)]
pub struct ReqSpec {
    pub id: u64,
    pub method: String,
    pub host: String,
    pub path: String,
    pub headers: Vec<(String, String)>,
    pub body: BodySpec,
    /// send these exact bytes instead of a rendered request (C03/C13 generators)
    pub raw: Option<Vec<u8>>,
}
impl ReqSpec {
    pub fn get(id: u64, host: &str, path: &str) -> ReqSpec {
        ReqSpec { id, method: "GET".into(), host: host.into(), path: path.into(), headers: vec![], body: BodySpec::None, raw: None }
    }
    pub fn render(&self) -> Vec<u8> {
        if let Some(r) = &self.raw { return r.clone(); }
        let mut head = Vec::new();
        head.extend_from_slice(format!("{} {} HTTP/1.1\r\nHost: {}\r\nx-sim-id: {}\r\n", self.method, self.path, self.host, self.id).as_bytes());
        for (n, v) in &self.headers {
            head.extend_from_slice(format!("{n}: {v}\r\n").as_bytes());
        }
        let mut body = Vec::new();
        self.body.render(self.id * 2, &mut head, &mut body);
        if self.body == BodySpec::None && (self.method == "POST" || self.method == "PUT") {
            head.extend_from_slice(b"Content-Length: 0\r\n");
        }
        head.extend_from_slice(b"\r\n");
        head.extend_from_slice(&body);
        head
    }
}

#[derive(Clone, Debug, Serialize, Deserialize)]
pub enum ClientAbort {
    /// close after having written this many bytes in total
    CloseAtSent(usize),
    /// close after having received this many bytes in total
    CloseAtRecv(usize),
    /// shutdown(SHUT_WR) after the last request byte
    HalfCloseAfterSend,
    /// stop writing after this many bytes and stay silent (client stall)
    StallAtSent(usize),
}

#[derive(Clone, Debug, Serialize, Deserialize)]
pub struct ClientPlan {
    pub name: String,
    pub src: SocketAddr,
    pub dst: SocketAddr,
    pub start_ns: u64,
    pub pace: Pace,
    pub pipeline: bool,
    pub requests: Vec<ReqSpec>,
    pub abort: Option<ClientAbort>,
    pub sndbuf: Option<i32>,
    /// virtual think time between sequential requests
    pub think_ns: u64,
    /// keep the connection open (idle) this long after the last response
    pub linger_ns: u64,
    /// give up (close, record `gave_up`) this long after connecting; 0 = wait forever
    #[serde(default)]
    pub give_up_ns: u64,
    /// do not start before `board[key] >= 1`
    #[serde(default)]
    pub wait_board: Option<String>,
}

#[derive(Clone, Debug, Default, Serialize, Deserialize)]
pub struct ClientRecord {
    pub connect_err: Option<i32>,
    pub sent_bytes: usize,
    pub recv_bytes: u64,
    /// (request id, virtual time its last byte was written)
    pub sent_done: Vec<(u64, u64)>,
    pub eof: bool,
    pub reset: bool,
    pub io_err: Option<i32>,
    pub aborted: bool,
    pub t_connect: u64,
    pub t_close_seen: u64,
    pub parse_error: Option<String>,
    #[serde(default)]
    pub gave_up: bool,
    /// (request id, virtual time its first byte was written)
    #[serde(default)]
    pub sent_start: Vec<(u64, u64)>,
    #[serde(default)]
    pub t_end: u64,
}

pub struct H1Client {
    pub plan: ClientPlan,
    pub rec: ClientRecord,
    pub parser: Parser,
    fd: i32,
    out: Vec<u8>,
    out_pos: usize,
    /// byte offset in `out` where each request ends
    req_ends: VecDeque<(u64, usize)>,
    req_starts: VecDeque<(u64, usize)>,
    next_req: usize,
    rng: Prng,
    state: u8, // 0 not started, 1 running, 2 lingering, 3 done
    linger_until: u64,
    think_until: u64,
    half_closed: bool,
    start_at: u64,
}

impl H1Client {
    pub fn new(plan: ClientPlan, rng: Prng) -> H1Client {
        H1Client {
            plan,
            rec: ClientRecord::default(),
            parser: Parser::new(Kind::Response),
            fd: -1,
            out: Vec::new(),
            out_pos: 0,
            req_ends: VecDeque::new(),
            req_starts: VecDeque::new(),
            next_req: 0,
            rng,
            state: 0,
            linger_until: 0,
            think_until: 0,
            half_closed: false,
            start_at: 0,
        }
    }
    pub fn responses(&self) -> &Vec<Msg> { &self.parser.done }
    /// the response being received when the connection ended, if any
    pub fn partial(&self) -> Option<&Msg> { self.parser.cur.as_ref() }

    fn queue_next(&mut self) {
        if self.next_req < self.plan.requests.len() {
            let r = &self.plan.requests[self.next_req];
            let bytes = r.render();
            self.req_starts.push_back((r.id, self.out.len()));
            self.out.extend_from_slice(&bytes);
            self.req_ends.push_back((r.id, self.out.len()));
            self.parser.expect.push_back(r.method.clone());
            self.next_req += 1;
        }
    }
    fn finish(&mut self, w: &mut World) -> Step {
        if self.fd >= 0 { sys::close(self.fd); self.fd = -1; }
        self.state = 3;
        self.rec.t_end = w.now;
        w.board_add("clients_done", 1);
        Step::Done
    }
}

impl Actor for H1Client {
    fn name(&self) -> String { self.plan.name.clone() }
    fn as_any(&mut self) -> &mut dyn Any { self }
    fn as_any_ref(&self) -> &dyn Any { self }

    fn step(&mut self, w: &mut World) -> Step {
        match self.state {
            0 => {
                if w.board_get("configured") == 0 { return Step::Blocked; }
                if let Some(k) = &self.plan.wait_board { if w.board_get(k) == 0 { return Step::Blocked; } }
                if self.plan.start_ns > 0 && self.start_at == 0 { self.start_at = w.now + self.plan.start_ns; }
                if w.now < self.start_at { return Step::Sleep(self.start_at); }
                match w.peer_connect(&self.plan.src.clone(), &self.plan.dst.clone(), self.plan.sndbuf) {
                    Ok(fd) => {
                        self.fd = fd;
                        self.rec.t_connect = w.now;
                        self.state = 1;
                        if self.plan.pipeline {
                            while self.next_req < self.plan.requests.len() { self.queue_next(); }
                        } else {
                            self.queue_next();
                        }
                        Step::Progress
                    }
                    Err(e) => { self.rec.connect_err = Some(e); self.finish(w) }
                }
            }
            1 => {
                let mut progressed = false;
                let deadline = if self.plan.give_up_ns > 0 { self.rec.t_connect + self.plan.give_up_ns } else { u64::MAX };
                if w.now >= deadline {
                    self.rec.gave_up = true;
                    self.parser.on_eof(w.now);
                    return self.finish(w);
                }
                // --- read side
                let want = self.plan.pace.rq.draw(&mut self.rng).min(1 << 20);
                let mut buf = vec![0u8; want.min(262144)];
                match rd(self.fd, &mut buf) {
                    Io::N(n) => {
                        progressed = true;
                        self.rec.recv_bytes += n as u64;
                        let before = self.parser.done.len();
                        self.parser.feed(&buf[..n], w.now);
                        if self.parser.done.len() > before && !self.plan.pipeline && self.next_req < self.plan.requests.len() {
                            // sequential mode: previous response complete -> next request (after think time)
                            if self.parser.done.len() >= self.next_req {
                                self.think_until = w.now + self.plan.think_ns;
                                self.queue_next();
                            }
                        }
                        if let Some(ClientAbort::CloseAtRecv(k)) = self.plan.abort {
                            if self.rec.recv_bytes as usize >= k {
                                self.rec.aborted = true;
                                w.stats.fault("client_close_at_recv");
                                return self.finish(w);
                            }
                        }
                    }
                    Io::WouldBlock => {}
                    Io::Eof => {
                        self.rec.eof = true;
                        self.rec.t_close_seen = w.now;
                        self.parser.on_eof(w.now);
                        return self.finish(w);
                    }
                    Io::Err(e) => {
                        self.rec.reset = e == libc::ECONNRESET;
                        self.rec.io_err = Some(e);
                        self.rec.t_close_seen = w.now;
                        self.parser.on_eof(w.now);
                        return self.finish(w);
                    }
                }
                if self.parser.error.is_some() {
                    self.rec.parse_error = self.parser.error.clone();
                    return self.finish(w);
                }
                // --- all responses in?
                if self.parser.done.len() >= self.plan.requests.len() && self.out_pos >= self.out.len() {
                    self.state = 2;
                    self.linger_until = w.now + self.plan.linger_ns;
                    return Step::Progress;
                }
                // --- write side
                let stalled = matches!(self.plan.abort, Some(ClientAbort::StallAtSent(k)) if self.rec.sent_bytes >= k);
                if self.out_pos < self.out.len() && !stalled && w.now >= self.think_until {
                    let mut q = self.plan.pace.wq.draw(&mut self.rng).min(self.out.len() - self.out_pos);
                    match self.plan.abort {
                        Some(ClientAbort::CloseAtSent(k)) | Some(ClientAbort::StallAtSent(k)) => {
                            q = q.min(k.saturating_sub(self.rec.sent_bytes)).max(if k > self.rec.sent_bytes { 1 } else { 0 });
                        }
                        _ => {}
                    }
                    if q > 0 {
                        match wr(self.fd, &self.out[self.out_pos..self.out_pos + q]) {
                            Io::N(n) => {
                                progressed = true;
                                while let Some((id, st)) = self.req_starts.front().copied() {
                                    if st < self.out_pos + n { self.rec.sent_start.push((id, w.now)); self.req_starts.pop_front(); } else { break; }
                                }
                                self.out_pos += n;
                                self.rec.sent_bytes += n;
                                while let Some((id, end)) = self.req_ends.front().copied() {
                                    if self.out_pos >= end { self.rec.sent_done.push((id, w.now)); self.req_ends.pop_front(); } else { break; }
                                }
                            }
                            Io::WouldBlock => {}
                            Io::Eof => {}
                            Io::Err(e) => {
                                // EPIPE/ECONNRESET: keep reading what is left, stop writing
                                self.rec.io_err = Some(e);
                                self.out_pos = self.out.len();
                                progressed = true;
                            }
                        }
                    }
                    if let Some(ClientAbort::CloseAtSent(k)) = self.plan.abort {
                        if self.rec.sent_bytes >= k {
                            self.rec.aborted = true;
                            w.stats.fault("client_close_at_sent");
                            return self.finish(w);
                        }
                    }
                    if let Some(ClientAbort::StallAtSent(k)) = self.plan.abort {
                        if self.rec.sent_bytes >= k { w.stats.fault("client_stall"); }
                    }
                } else if self.out_pos < self.out.len() && !stalled && w.now < self.think_until {
                    if !progressed { return Step::Sleep(self.think_until); }
                }
                if self.out_pos >= self.out.len() && self.next_req >= self.plan.requests.len() && !self.half_closed {
                    if let Some(ClientAbort::HalfCloseAfterSend) = self.plan.abort {
                        let _ = sys::shutdown(self.fd, libc::SHUT_WR);
                        self.half_closed = true;
                        w.stats.fault("client_half_close");
                        progressed = true;
                    }
                }
                if progressed {
                    if let Some(t) = self.plan.pace.gap(w, &mut self.rng) { return Step::Sleep(t); }
                    Step::Progress
                } else if deadline != u64::MAX {
                    Step::Idle(deadline)
                } else {
                    Step::Blocked
                }
            }
            2 => {
                // idle keep-alive: watch for close by sozu
                let mut buf = [0u8; 4096];
                match rd(self.fd, &mut buf) {
                    Io::N(n) => { self.rec.recv_bytes += n as u64; self.parser.feed(&buf[..n], w.now); return Step::Progress; }
                    Io::Eof => { self.rec.eof = true; self.rec.t_close_seen = w.now; return self.finish(w); }
                    Io::Err(e) => { self.rec.io_err = Some(e); self.rec.t_close_seen = w.now; return self.finish(w); }
                    Io::WouldBlock => {}
                }
                if w.now >= self.linger_until { return self.finish(w); }
                Step::Idle(self.linger_until)
            }
            _ => Step::Done,
        }
    }
}

// ------------------------------------------------------------------------------------ backend

#[derive(Clone, Debug, Serialize, Deserialize, PartialEq)]
pub enum RespFault {
    /// close the connection after this many bytes of the raw response
    CloseAt(usize),
    /// stop sending after this many bytes, keep the connection open
    StallAt(usize),
    /// send these bytes instead of a response
    Garbage(Vec<u8>),
}

#[derive(Clone, Debug, Serialize, Deserialize)]
pub struct RespSpec {
    pub status: u16,
    pub headers: Vec<(String, String)>,
    pub body: BodySpec,
    pub fault: Option<RespFault>,
    /// close the connection after this response (sends `Connection: close`)
    pub close_after: bool,
    /// close after the response without announcing it
    pub silent_close_after: bool,
    pub delay_ns: u64,
    /// send exactly these bytes as the response
    pub raw: Option<Vec<u8>>,
    /// *early response* (C03 `early_response` family): answer as soon as the request head plus this many
    /// decoded body bytes have been read, instead of waiting for the end of the request. Everything else
    /// of the spec applies as usual: `close_after` (announced) / `silent_close_after` close the connection
    /// once the answer is written, otherwise the backend keeps reading (the rest of the request is read
    /// and discarded, it is not answered a second time, and whatever follows is a new request);
    /// `fault: CloseAt(0)` = read that many body bytes, then close without answering. A request that is
    /// already complete when it is noticed is answered the ordinary way.
    #[serde(default)]
    pub early_after_body: Option<u64>,
}
impl RespSpec {
    pub fn ok(body: BodySpec) -> RespSpec {
        RespSpec { status: 200, headers: vec![], body, fault: None, close_after: false, silent_close_after: false, delay_ns: 0, raw: None, early_after_body: None }
    }
    pub fn render(&self, id: u64) -> Vec<u8> {
        if let Some(r) = &self.raw { return r.clone(); }
        if let Some(RespFault::Garbage(g)) = &self.fault { return g.clone(); }
        let reason = match self.status { 200 => "OK", 201 => "Created", 204 => "No Content", 304 => "Not Modified", 404 => "Not Found", 500 => "Internal Server Error", _ => "Status" };
        let mut head = Vec::new();
        head.extend_from_slice(format!("HTTP/1.1 {} {}\r\nx-sim-id: {}\r\n", self.status, reason, id).as_bytes());
        for (n, v) in &self.headers { head.extend_from_slice(format!("{n}: {v}\r\n").as_bytes()); }
        if self.close_after || matches!(self.body, BodySpec::Close(_)) { head.extend_from_slice(b"Connection: close\r\n"); }
        let mut body = Vec::new();
        self.body.render(id * 2 + 1, &mut head, &mut body);
        if self.body == BodySpec::None && self.status != 204 && self.status != 304 { head.extend_from_slice(b"Content-Length: 0\r\n"); }
        head.extend_from_slice(b"\r\n");
        head.extend_from_slice(&body);
        head
    }
}

#[derive(Clone, Debug, Serialize, Deserialize)]
pub struct BackendPlan {
    pub name: String,
    pub addr: SocketAddr,
    pub pace: Pace,
    pub responses: BTreeMap<u64, RespSpec>,
    pub default: RespSpec,
    /// close every accepted connection immediately, without reading (counts per connection index)
    pub close_on_accept: Vec<usize>,
    /// do not listen at all until this virtual time (connection refused before)
    pub listen_from_ns: u64,
    /// stop listening (close the listener) at this virtual time; 0 = never
    pub listen_until_ns: u64,
}

#[derive(Clone, Debug, Default, Serialize, Deserialize)]
pub struct BackConnRecord {
    pub idx: usize,
    pub t_accept: u64,
    pub requests: Vec<Msg>,
    pub partial: Option<Msg>,
    pub raw_in: Vec<u8>,
    pub raw_in_total: u64,
    pub eof: bool,
    pub io_err: Option<i32>,
    pub closed_by_us: bool,
    pub parse_error: Option<String>,
    /// bytes received that the strict reader has not been able to attribute to a message yet
    #[serde(default)]
    pub pending: usize,
    /// (request id, bytes of the response written, total)
    pub responded: Vec<(u64, usize, usize)>,
    pub t_close: u64,
    /// early responses: (request id, bytes received on this connection when the answer was decided)
    #[serde(default)]
    pub early: Vec<(u64, u64)>,
}

struct BConn {
    fd: i32,
    parser: Parser,
    rec: BackConnRecord,
    out: Vec<u8>,
    out_pos: usize,
    limit: Option<usize>,
    after: u8, // 0 keep, 1 close after out, 2 stall after limit
    answered: usize,
    ready_at: u64,
    cur_id: u64,
    dead: bool,
    stalled: bool,
    /// index (in `parser.done`) the request that was answered early will take once it is complete
    early_idx: Option<usize>,
}

pub struct H1Backend {
    pub plan: BackendPlan,
    lfd: i32,
    conns: Vec<BConn>,
    pub records: Vec<BackConnRecord>,
    rng: Prng,
    accepted: usize,
    listening: bool,
}

impl H1Backend {
    pub fn new(plan: BackendPlan, rng: Prng) -> H1Backend {
        H1Backend { plan, lfd: -1, conns: Vec::new(), records: Vec::new(), rng, accepted: 0, listening: false }
    }
    /// snapshot of all connection records (finished and live)
    pub fn all_records(&self) -> Vec<BackConnRecord> {
        let mut v = self.records.clone();
        for c in &self.conns {
            let mut r = c.rec.clone();
            r.requests = c.parser.done.clone();
            r.partial = c.parser.cur.clone();
            r.parse_error = c.parser.error.clone();
            r.pending = c.parser.pending_bytes();
            v.push(r);
        }
        v.sort_by_key(|r| r.idx);
        v
    }
    fn retire(&mut self, i: usize, now: u64) {
        let mut c = self.conns.remove(i);
        if c.fd >= 0 { sys::close(c.fd); }
        c.rec.requests = std::mem::take(&mut c.parser.done);
        c.rec.partial = c.parser.cur.take();
        c.rec.parse_error = c.parser.error.clone();
        c.rec.pending = c.parser.pending_bytes();
        c.rec.t_close = now;
        self.records.push(c.rec);
    }
    pub fn shutdown(&mut self, now: u64) {
        while !self.conns.is_empty() { self.retire(0, now); }
        if self.lfd >= 0 { sys::close(self.lfd); self.lfd = -1; }
    }

    fn step_conn(&mut self, i: usize, w: &mut World) -> bool {
        let now = w.now;
        let pace = self.plan.pace.clone();
        let c = &mut self.conns[i];
        let mut progressed = false;
        // read
        if !c.rec.eof {
            let want = pace.rq.draw(&mut self.rng).min(262144);
            let mut buf = vec![0u8; want];
            let r = rd(c.fd, &mut buf);
            w.logf(|| format!("backend conn fd={} read want={} -> {}", c.fd, want, match &r { Io::N(n) => format!("{n}"), Io::WouldBlock => "EAGAIN".into(), Io::Eof => "EOF".into(), Io::Err(e) => format!("err {e}") }));
            match r {
                Io::N(n) => {
                    progressed = true;
                    c.rec.raw_in_total += n as u64;
                    if c.rec.raw_in.len() < 1 << 20 {
                        let k = ((1 << 20) - c.rec.raw_in.len()).min(n);
                        c.rec.raw_in.extend_from_slice(&buf[..k]);
                    }
                    c.parser.feed(&buf[..n], now);
                }
                Io::WouldBlock => {}
                Io::Eof => { c.rec.eof = true; c.parser.on_eof(now); progressed = true; }
                Io::Err(e) => { c.rec.io_err = Some(e); c.rec.eof = true; c.parser.on_eof(now); progressed = true; }
            }
        }
        // pick up the next request to answer
        // a request that was answered early is not answered again when its last byte arrives
        if c.early_idx.is_some_and(|i| i == c.answered && i < c.parser.done.len()) { c.answered += 1; c.early_idx = None; progressed = true; }
        // early response: every complete request is answered, the one in progress has reached its mark
        if c.out_pos >= c.out.len() && !c.stalled && !c.dead && c.early_idx.is_none() && c.answered == c.parser.done.len() {
            if let Some(cur) = c.parser.cur.as_ref() {
                let id = cur.sim_id.unwrap_or(u64::MAX);
                let spec = self.plan.responses.get(&id).unwrap_or(&self.plan.default);
                if let Some(k) = spec.early_after_body { if cur.body_len >= k {
                    let spec = spec.clone();
                    if c.ready_at == 0 { c.ready_at = now + spec.delay_ns; }
                    if now >= c.ready_at {
                        c.out = spec.render(id);
                        c.out_pos = 0;
                        c.cur_id = id;
                        c.limit = None;
                        c.after = if spec.close_after || spec.silent_close_after || matches!(spec.body, BodySpec::Close(_)) { 1 } else { 0 };
                        match &spec.fault {
                            Some(RespFault::CloseAt(k)) => { c.limit = Some((*k).min(c.out.len())); c.after = 1; w.stats.fault("backend_close_at"); }
                            Some(RespFault::StallAt(k)) => { c.limit = Some((*k).min(c.out.len())); c.after = 2; w.stats.fault("backend_stall_at"); }
                            Some(RespFault::Garbage(_)) => { c.after = 1; w.stats.fault("backend_garbage"); }
                            None => {}
                        }
                        w.stats.fault("backend_early_response");
                        c.early_idx = Some(c.parser.done.len());
                        c.ready_at = 0;
                        c.rec.responded.push((id, 0, c.out.len()));
                        c.rec.early.push((id, c.rec.raw_in_total));
                        progressed = true;
                    }
                } }
            }
        }
        if c.out_pos >= c.out.len() && !c.stalled && c.answered < c.parser.done.len() {
            let req = &c.parser.done[c.answered];
            let id = req.sim_id.unwrap_or(u64::MAX);
            let spec = self.plan.responses.get(&id).unwrap_or(&self.plan.default).clone();
            if c.ready_at == 0 { c.ready_at = req.t_end + spec.delay_ns; }
            if now >= c.ready_at {
                c.out = spec.render(id);
                c.out_pos = 0;
                c.cur_id = id;
                c.limit = None;
                c.after = if spec.close_after || spec.silent_close_after || matches!(spec.body, BodySpec::Close(_)) { 1 } else { 0 };
                match &spec.fault {
                    Some(RespFault::CloseAt(k)) => { c.limit = Some((*k).min(c.out.len())); c.after = 1; w.stats.fault("backend_close_at"); }
                    Some(RespFault::StallAt(k)) => { c.limit = Some((*k).min(c.out.len())); c.after = 2; w.stats.fault("backend_stall_at"); }
                    Some(RespFault::Garbage(_)) => { c.after = 1; w.stats.fault("backend_garbage"); }
                    None => {}
                }
                c.answered += 1;
                c.ready_at = 0;
                c.rec.responded.push((id, 0, c.out.len()));
                progressed = true;
            }
        }
        // write
        let end = c.limit.unwrap_or(c.out.len());
        if c.out_pos < end {
            let q = pace.wq.draw(&mut self.rng).min(end - c.out_pos);
            match wr(c.fd, &c.out[c.out_pos..c.out_pos + q]) {
                Io::N(n) => {
                    progressed = true;
                    c.out_pos += n;
                    if let Some(l) = c.rec.responded.last_mut() { l.1 = c.out_pos; }
                }
                Io::WouldBlock => {}
                Io::Eof => {}
                Io::Err(e) => { c.rec.io_err = Some(e); c.dead = true; progressed = true; }
            }
        }
        if c.out_pos >= end && !c.out.is_empty() {
            match c.after {
                1 => { c.dead = true; c.rec.closed_by_us = true; progressed = true; }
                2 => { if !c.stalled { c.stalled = true; progressed = true; } }
                _ => { c.out.clear(); c.out_pos = 0; c.limit = None; }
            }
        }
        if c.rec.eof && c.out_pos >= end && c.answered >= c.parser.done.len() && !c.stalled {
            c.dead = true;
        }
        if c.rec.eof && c.stalled { c.dead = true; }
        if c.parser.error.is_some() && c.out_pos >= end { c.dead = true; c.rec.closed_by_us = true; }
        progressed
    }
}

impl Actor for H1Backend {
    fn name(&self) -> String { self.plan.name.clone() }
    fn as_any(&mut self) -> &mut dyn Any { self }
    fn as_any_ref(&self) -> &dyn Any { self }
    fn class(&self) -> u8 { 1 }

    fn step(&mut self, w: &mut World) -> Step {
        if !self.listening && self.lfd < 0 {
            if w.now < self.plan.listen_from_ns { return Step::Sleep(self.plan.listen_from_ns); }
            match w.peer_listen(&self.plan.addr.clone()) {
                Ok(fd) => { self.lfd = fd; self.listening = true; return Step::Progress; }
                Err(e) => panic!("backend listen failed: errno {e}"),
            }
        }
        if self.listening && self.plan.listen_until_ns > 0 && w.now >= self.plan.listen_until_ns {
            sys::close(self.lfd);
            self.lfd = -1;
            self.listening = false;
            w.stats.fault("backend_listener_closed");
        }
        let mut progressed = false;
        if self.listening {
            if let Ok((fd, _peer)) = sys::accept_unix(self.lfd, libc::SOCK_NONBLOCK | libc::SOCK_CLOEXEC) {
                w.logf(|| format!("backend accepted fd={fd}"));
                let idx = self.accepted;
                self.accepted += 1;
                progressed = true;
                if self.plan.close_on_accept.contains(&idx) {
                    w.stats.fault("backend_close_on_accept");
                    sys::close(fd);
                    self.records.push(BackConnRecord { idx, t_accept: w.now, closed_by_us: true, t_close: w.now, ..Default::default() });
                } else {
                    self.conns.push(BConn {
                        fd, parser: Parser::new(Kind::Request),
                        rec: BackConnRecord { idx, t_accept: w.now, ..Default::default() },
                        out: Vec::new(), out_pos: 0, limit: None, after: 0, answered: 0, ready_at: 0, cur_id: 0, dead: false, stalled: false, early_idx: None,
                    });
                }
            }
        }
        let n = self.conns.len();
        if n > 0 {
            let start = self.rng.below(n as u64) as usize;
            for k in 0..n {
                let i = (start + k) % n;
                if self.step_conn(i, w) { progressed = true; break; }
            }
            let mut i = 0;
            while i < self.conns.len() {
                if self.conns[i].dead { self.retire(i, w.now); progressed = true; } else { i += 1; }
            }
        }
        if progressed {
            if let Some(t) = self.plan.pace.gap(w, &mut self.rng) { return Step::Sleep(t); }
            return Step::Progress;
        }
        // wake for delayed responses / listener close
        let mut wake: Option<u64> = None;
        for c in &self.conns { if c.ready_at > w.now { wake = Some(wake.map_or(c.ready_at, |t: u64| t.min(c.ready_at))); } }
        if self.listening && self.plan.listen_until_ns > w.now { wake = Some(wake.map_or(self.plan.listen_until_ns, |t| t.min(self.plan.listen_until_ns))); }
        match wake { Some(t) => Step::Idle(t), None => Step::Blocked }
    }
}

impl Drop for H1Client {
    fn drop(&mut self) { if self.fd >= 0 { sys::close(self.fd); self.fd = -1; } }
}
impl Drop for H1Backend {
    fn drop(&mut self) { self.shutdown(0); }
}
