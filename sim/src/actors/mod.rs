//! Simulated peers. Each actor is a deterministic state machine that moves bytes on real
//! AF_UNIX sockets with raw syscalls, only when the scheduler picks it.
#![allow(dead_code)]

pub mod h1;
pub mod h1codec;
pub mod master;
pub mod tcp;
pub mod h2;
pub mod h2codec;
pub mod tls;

use serde::{Deserialize, Serialize};

use crate::prng::Prng;
use crate::sys;
use crate::world::World;

#[derive(Clone, Debug, Serialize, Deserialize, PartialEq)]
pub enum Quantum {
    All,
    Fixed(usize),
    Uniform(usize, usize),
}
impl Quantum {
    pub fn draw(&self, rng: &mut Prng) -> usize {
        match self {
            Quantum::All => usize::MAX,
            Quantum::Fixed(n) => (*n).max(1),
            Quantum::Uniform(a, b) => rng.range(*a as u64, *b as u64).max(1) as usize,
        }
    }
    pub fn random(rng: &mut Prng) -> Quantum {
        match rng.below(10) {
            0..=2 => Quantum::All,
            3 => Quantum::Fixed(1),
            4 => Quantum::Fixed(rng.range(2, 64) as usize),
            5 => Quantum::Fixed(*rng.pick(&[9usize, 16384, 16393, 4096, 1460, 65535])),
            6 => Quantum::Uniform(1, 16),
            7 => Quantum::Uniform(1, 2000),
            8 => Quantum::Uniform(1000, 20000),
            _ => Quantum::Uniform(1, 70000),
        }
    }
}

#[derive(Clone, Debug, Serialize, Deserialize, PartialEq)]
pub struct Pace {
    pub wq: Quantum,
    pub rq: Quantum,
    /// per-mille chance to pause (virtual sleep) after an I/O operation
    pub gap_pm: u32,
    /// maximum pause, ns
    pub gap_ns: u64,
}
impl Pace {
    pub fn greedy() -> Pace {
        Pace { wq: Quantum::All, rq: Quantum::All, gap_pm: 0, gap_ns: 0 }
    }
    /// `bytes_hint`: how many bytes this peer is expected to move; pauses are scaled so the
    /// whole transfer stays well below sozu's timeouts (slow peers are a separate, explicit fault).
    pub fn random(rng: &mut Prng, bytes_hint: usize) -> Pace { Pace::random_budget(rng, bytes_hint, 1_500_000_000) }
    pub fn random_budget(rng: &mut Prng, bytes_hint: usize, budget_ns: u64) -> Pace {
        let gap_pm = *rng.pick(&[0u32, 0, 0, 50, 200, 500]);
        let mut wq = Quantum::random(rng);
        let mut rq = Quantum::random(rng);
        // byte-at-a-time pacing of large transfers costs wall time without adding schedules
        let tiny = |q: &Quantum| matches!(q, Quantum::Fixed(n) if *n < 64) || matches!(q, Quantum::Uniform(_, b) if *b <= 16);
        if bytes_hint > 48 * 1024 {
            if tiny(&wq) { wq = Quantum::Uniform(1, 2000); }
            if tiny(&rq) { rq = Quantum::Uniform(1, 2000); }
        }
        let avg = |q: &Quantum| -> u64 { match q { Quantum::All => 1 << 20, Quantum::Fixed(n) => *n as u64, Quantum::Uniform(a, b) => ((*a + *b) / 2) as u64 } };
        let ops = (bytes_hint as u64 / avg(&wq).max(1)).max(bytes_hint as u64 / avg(&rq).max(1)).max(1);
        // budget: at most ~1.5 virtual seconds of pauses in total
        let mut gap_ns = *rng.pick(&[1_000u64, 100_000, 1_000_000, 20_000_000]);
        if gap_pm > 0 {
            let pauses = ops * gap_pm as u64 / 1000 + 1;
            gap_ns = gap_ns.min(budget_ns / pauses).max(1);
        }
        Pace { wq, rq, gap_pm, gap_ns }
    }
    pub fn is_greedy(&self) -> bool {
        *self == Pace::greedy()
    }
    /// Returns Some(wake time) if the actor should pause now.
    pub fn gap(&self, w: &World, rng: &mut Prng) -> Option<u64> {
        if self.gap_pm > 0 && rng.below(1000) < self.gap_pm as u64 {
            Some(w.now + 1 + rng.below(self.gap_ns.max(1)))
        } else {
            None
        }
    }
}

/// Position-keyed body bytes: every byte of every message is attributable.
#[inline]
pub fn gen_byte(key: u64, i: u64) -> u8 {
    let mut z = key.wrapping_mul(0x9E3779B97F4A7C15) ^ (i >> 3).wrapping_mul(0xD6E8FEB86659FD93);
    z = (z ^ (z >> 32)).wrapping_mul(0xD6E8FEB86659FD93);
    z = z ^ (z >> 29);
    (z >> ((i & 7) * 8)) as u8
}
pub fn gen_body(key: u64, len: usize) -> Vec<u8> {
    (0..len as u64).map(|i| gen_byte(key, i)).collect()
}

/// Streaming verifier of a generated body.
#[derive(Clone, Debug, Default, Serialize, Deserialize)]
pub struct BodyCheck {
    pub key: u64,
    pub received: u64,
    pub first_bad: Option<u64>,
    /// the bytes received at `first_bad` (up to 32), for diagnosis
    #[serde(default)]
    pub bad_bytes: Vec<u8>,
}
impl BodyCheck {
    pub fn new(key: u64) -> Self {
        BodyCheck { key, received: 0, first_bad: None, bad_bytes: Vec::new() }
    }
    pub fn feed(&mut self, data: &[u8]) {
        if self.first_bad.is_none() {
            for (j, b) in data.iter().enumerate() {
                let i = self.received + j as u64;
                if *b != gen_byte(self.key, i) {
                    self.first_bad = Some(i);
                    self.bad_bytes = data[j..data.len().min(j + 32)].to_vec();
                    break;
                }
            }
        }
        self.received += data.len() as u64;
    }
}

/// Outcome of a nonblocking socket operation by an actor.
pub enum Io {
    N(usize),
    WouldBlock,
    Eof,
    Err(i32),
}
pub fn rd(fd: i32, buf: &mut [u8]) -> Io {
    match sys::read(fd, buf) {
        Ok(0) => Io::Eof,
        Ok(n) => Io::N(n),
        Err(e) if e == libc::EAGAIN => Io::WouldBlock,
        Err(e) => Io::Err(e),
    }
}
pub fn wr(fd: i32, buf: &[u8]) -> Io {
    match sys::write(fd, buf) {
        Ok(n) => Io::N(n),
        Err(e) if e == libc::EAGAIN => Io::WouldBlock,
        Err(e) => Io::Err(e),
    }
}
/// Close with unread data pending => the peer sees ECONNRESET on AF_UNIX, like a TCP RST.
pub fn reset(fd: i32) {
    sys::close(fd);
}

/// Diagnosis: where do the bytes observed at a mismatch come from? Searches the generators of the
/// given keys for the 16-byte window; returns (key, offset) of the first match.
pub fn locate_bytes(sample: &[u8], keys: &[u64], max_len: u64) -> Option<(u64, u64)> {
    if sample.len() < 12 { return None; }
    let w = &sample[..12];
    for k in keys {
        let body = gen_body(*k, max_len as usize);
        if let Some(p) = body.windows(w.len()).position(|x| x == w) { return Some((*k, p as u64)); }
    }
    None
}
