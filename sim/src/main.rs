mod sys;
mod prng;
mod world;
mod hooks;
mod actors;
mod netsim;

use std::net::SocketAddr;
use sozu_command_lib::{
    config::ListenerBuilder,
    proto::command::{request::RequestType, ActivateListener, AddBackend, Cluster, ListenerType, LoadBalancingParams, PathRule, Request, RequestHttpFrontend, RulePosition},
    scm_socket::Listeners, state::ConfigState,
};
use actors::{h1::*, master::*, Pace};
use prng::Prng;
use world::*;

fn smoke(seed: u64, log: bool) -> (u64, String) {
    netsim::on_fresh_thread(move || {
        let mut rng = Prng::derive(seed, "plan");
        let mut w = World::new(seed, netsim::default_sched(&mut rng, false));
        w.log_on = log;
        let knobs = netsim::Knobs::default();
        let front: SocketAddr = "10.0.0.1:80".parse().unwrap();
        let back: SocketAddr = "10.1.0.1:8000".parse().unwrap();
        let mut cid = 0; let mut bid = 0;
        let (end, mid) = netsim::run_worker(&mut w, knobs.server_config(), ConfigState::new(), Listeners::default(), |w, m| {
            m.send_all(vec![
                RequestType::AddHttpListener(ListenerBuilder::new_http(front.into()).to_http(None).unwrap()).into(),
                RequestType::ActivateListener(ActivateListener { address: front.into(), proxy: ListenerType::Http.into(), from_scm: false }).into(),
                RequestType::AddCluster(Cluster { cluster_id: "c0".into(), ..Default::default() }).into(),
                RequestType::AddHttpFrontend(RequestHttpFrontend { cluster_id: Some("c0".into()), address: front.into(), hostname: "a.test".into(), path: PathRule::prefix("/".to_string()), position: RulePosition::Tree.into(), ..Default::default() }).into(),
                RequestType::AddBackend(AddBackend { cluster_id: "c0".into(), backend_id: "b0".into(), address: back.into(), load_balancing_parameters: Some(LoadBalancingParams::default()), sticky_id: None, backup: None }).into(),
            ]);
            m.push(MOp::Barrier);
            m.push(MOp::SetBoard("configured".into(), 1));
            m.push(MOp::WaitBoard("clients_done".into(), 1));
            m.push(MOp::HardStop);
            w.topo.insert(back, ConnectMode::Listen { delay_ns: 0 });
            let mut resp = std::collections::BTreeMap::new();
            resp.insert(1, RespSpec::ok(BodySpec::Cl(20000)));
            resp.insert(2, RespSpec::ok(BodySpec::Chunked(vec![5, 16384, 1])));
            bid = w.add_actor(Box::new(H1Backend::new(BackendPlan { name: "b0".into(), addr: back, pace: Pace::random(&mut rng, 40000), responses: resp, default: RespSpec::ok(BodySpec::Cl(3)), close_on_accept: vec![], listen_from_ns: 0, listen_until_ns: 0 }, Prng::derive(seed, "b0"))));
            let mut r1 = ReqSpec::get(1, "a.test", "/one"); r1.method = "POST".into(); r1.body = BodySpec::Chunked(vec![100, 17000]);
            let r2 = ReqSpec::get(2, "a.test", "/two");
            cid = w.add_actor(Box::new(H1Client::new(ClientPlan { name: "cl0".into(), src: "192.0.2.7:40001".parse().unwrap(), dst: front, start_ns: 5 * MS, pace: Pace::random(&mut rng, 40000), pipeline: false, requests: vec![r1, r2], abort: None, sndbuf: None, think_ns: 0, linger_ns: 0 }, Prng::derive(seed, "cl0"))));
        });
        let mut out = String::new();
        out += &format!("end: panic={:?} abort={:?} boot={:?}\n", end.panicked, end.aborted, end.boot_error);
        let m: &Master = w.actor_ref(mid);
        out += &format!("master: sent={} finals={:?} eof={}\n", m.data.sent.len(), m.data.finals, m.data.eof);
        let c: &H1Client = w.actor_ref(cid);
        for r in c.responses() { out += &format!("resp: {} len={} ok={} complete={} mode={:?}\n", r.start, r.body_len, r.body_ok(), r.complete, r.mode); }
        out += &format!("client rec: {:?}\n", c.rec);
        let b: &H1Backend = w.actor_ref(bid);
        for rec in b.all_records() { for q in &rec.requests { out += &format!("backend got: {} len={} ok={} complete={}\n{}", q.start, q.body_len, q.body_ok(), q.complete, String::from_utf8_lossy(&q.raw_head)); } }
        out += &format!("stats: {}\n", serde_json::to_string(&w.stats).unwrap());
        if log { for l in &w.log { out += l; out += "\n"; } }
        (w.trace.0, out)
    })
}

fn main() {
    let args: Vec<String> = std::env::args().collect();
    let seed: u64 = args.get(1).and_then(|s| s.parse().ok()).unwrap_or(1);
    let t0 = std::time::Instant::now();
    println!("fds before: {:?}", netsim::open_fds());
    let (h, out) = smoke(seed, true);
    println!("{out}hash={h:016x} wall={:?}", t0.elapsed());
    let (h2, out2) = smoke(seed, true);
    println!("again hash={h2:016x}");
    println!("fds after: {:?}", netsim::open_fds());
    std::fs::write("/tmp/o1.txt", &out).unwrap(); std::fs::write("/tmp/o2.txt", &out2).unwrap();
}
