mod sys;
mod prng;
mod world;
mod hooks;
mod actors;
mod netsim;
mod hubsim;
mod clustersim;
mod framework;
mod scenario;
mod muxscn;
mod props;

use framework::Tier;

fn usage() -> ! {
    eprintln!("usage: simk check <ID> [--tier quick|thorough] [--seed N] [--jobs N] [--runs N]\n       simk replay <ID> <file>\n       simk work <ID> <tier> <seed> <from> <to>\n       simk runplan <ID> <file>\n       simk show <ID> <seed> [tier]   (run one seeded plan with logging)");
    std::process::exit(2)
}

fn main() {
    let args: Vec<String> = std::env::args().collect();
    if args.len() >= 2 && args[1] == "h2selftest" {
        match actors::h2::selftest() { Ok(()) => { println!("h2 selftest ok"); return; } Err(e) => { eprintln!("h2 selftest FAILED: {e}"); std::process::exit(2); } }
    }
    if args.len() >= 2 && args[1] == "h2demo" {
        let seed: u64 = args.get(2).and_then(|s| s.parse().ok()).unwrap_or(1);
        match actors::h2::demo_through_sozu(seed) { Ok(s) => println!("{s}"), Err(e) => { eprintln!("h2demo FAILED: {e}"); std::process::exit(2); } }
        return;
    }
    if args.len() < 3 { usage(); }
    let cmd = args[1].as_str();
    let id = args[2].as_str();
    let Some(prop) = props::get(id) else { eprintln!("unknown property {id}"); std::process::exit(2) };
    if args[1] != "plan" { props::warm_up(id); }
    let opt = |name: &str| -> Option<String> { args.iter().position(|a| a == name).and_then(|i| args.get(i + 1).cloned()) };
    let tier_of = |s: &str| if s == "thorough" { Tier::Thorough } else { Tier::Quick };
    match cmd {
        "check" => {
            let tier = tier_of(&opt("--tier").or_else(|| std::env::var("VERIF_TIER").ok()).unwrap_or_else(|| "quick".into()));
            let seed: u64 = opt("--seed").or_else(|| std::env::var("VERIF_SEED").ok()).and_then(|s| s.parse().ok()).unwrap_or(1);
            let jobs: usize = opt("--jobs").and_then(|s| s.parse().ok()).unwrap_or(16);
            let runs: Option<u64> = opt("--runs").and_then(|s| s.parse().ok());
            let out = framework::check(prop.as_ref(), tier, seed, jobs, runs);
            std::process::exit(out.exit);
        }
        "work" => {
            if args.len() < 7 { usage(); }
            framework::work(prop.as_ref(), tier_of(&args[3]), args[4].parse().unwrap(), args[5].parse().unwrap(), args[6].parse().unwrap(), args.get(7).and_then(|s| s.parse().ok()).unwrap_or(1));
        }
        "runplan" => {
            let rep = framework::run_plan_file(prop.as_ref(), &args[3]);
            println!("{}", serde_json::to_string(&rep).unwrap());
        }
        "replay" => {
            std::process::exit(framework::replay(prop.as_ref(), &args[3]));
        }
        "shrink" => {
            framework::shrink_file(prop.as_ref(), &args[3], &args[4], &args[5], &args[6]);
        }
        "debug" => {
            let s = std::fs::read_to_string(&args[3]).expect("read");
            let v: serde_json::Value = serde_json::from_str(&s).expect("json");
            let plan = v.get("plan").cloned().unwrap_or(v);
            println!("{}", prop.debug_plan(&plan));
        }
        "plan" => {
            let seed: u64 = args.get(3).and_then(|s| s.parse().ok()).unwrap_or(1);
            let tier = tier_of(args.get(4).map(|s| s.as_str()).unwrap_or("quick"));
            println!("{}", serde_json::to_string(&serde_json::json!({"plan": prop.gen_plan(seed, tier)})).unwrap());
        }
        "show" => {
            let seed: u64 = args.get(3).and_then(|s| s.parse().ok()).unwrap_or(1);
            let tier = tier_of(args.get(4).map(|s| s.as_str()).unwrap_or("quick"));
            let plan = prop.gen_plan(seed, tier);
            let rep = framework::run_guarded(prop.as_ref(), &plan);
            println!("{}", serde_json::to_string_pretty(&rep).unwrap());
        }
        _ => usage(),
    }
}
