//! HTTP scenario: plan (topology + actors + schedule), runner on netsim and the recorded outcome.
//! Shared by the traffic-level properties (C01, C02, C03, C13, C16, ...).
#![allow(dead_code)]

use std::collections::BTreeMap;
use std::net::SocketAddr;

use serde::{Deserialize, Serialize};
use sozu_command_lib::{
    config::ListenerBuilder,
    proto::command::{
        request::RequestType, ActivateListener, AddBackend, Cluster, ListenerType, LoadBalancingParams, PathRule, Request,
        RequestHttpFrontend, RulePosition, WorkerResponse,
    },
    scm_socket::Listeners,
    state::ConfigState,
};

use crate::actors::h1::*;
use crate::actors::h1codec::Msg;
use crate::actors::master::{MOp, Master};
use crate::netsim::{self, Knobs};
use crate::prng::Prng;
use crate::world::{ConnectMode, SchedCfg, Stats, World};

#[derive(Clone, Debug, Serialize, Deserialize)]
pub enum BackendMode {
    Listen { delay_ns: u64 },
    Refuse { delay_ns: u64 },
    Blackhole,
}

#[derive(Clone, Debug, Serialize, Deserialize)]
pub struct ClusterPlan {
    pub id: String,
    pub host: String,
    pub backends: Vec<(BackendPlan, BackendMode)>,
}

#[derive(Clone, Debug, Serialize, Deserialize)]
pub struct HttpPlan {
    pub seed: u64,
    pub family: String,
    pub knobs: Knobs,
    pub sched: SchedCfg,
    pub front: SocketAddr,
    pub clusters: Vec<ClusterPlan>,
    pub clients: Vec<ClientPlan>,
    pub sndbufs: Option<Vec<i32>>,
    /// extra virtual time to keep the worker running after all clients are done (lets timeouts fire)
    pub settle_ns: u64,
    /// additional frontends: (hostname, cluster id or None = deny/401)
    #[serde(default)]
    pub extra_frontends: Vec<(String, Option<String>)>,
}

#[derive(Clone, Debug, Default, Serialize, Deserialize)]
pub struct ClientOutcome {
    pub rec: ClientRecord,
    pub responses: Vec<Msg>,
    pub partial: Option<Msg>,
    pub interim: u32,
}

#[derive(Clone, Debug, Default)]
pub struct HttpOutcome {
    pub clients: Vec<ClientOutcome>,
    /// per cluster, per backend
    pub backends: Vec<Vec<Vec<BackConnRecord>>>,
    pub config_finals: BTreeMap<String, u32>,
    pub responses: Vec<(u64, WorkerResponse)>,
    pub panicked: Option<String>,
    pub aborted: Option<String>,
    pub boot_error: Option<String>,
    pub stats: Stats,
    pub trace_hash: u64,
    pub t_end: u64,
    pub log: Vec<String>,
    pub board: BTreeMap<String, i64>,
    pub max_served: usize,
    pub max_open_accepted: usize,
    /// ids of the requests the master sent, in order
    pub sent_ids: Vec<String>,
}

pub fn config_requests(plan: &HttpPlan) -> Vec<Request> {
    let mut v: Vec<Request> = Vec::new();
    let mut lb = ListenerBuilder::new_http(plan.front.into());
    lb.with_front_timeout(Some(plan.knobs.front_timeout))
        .with_back_timeout(Some(plan.knobs.back_timeout))
        .with_connect_timeout(Some(plan.knobs.connect_timeout))
        .with_request_timeout(Some(plan.knobs.request_timeout));
    v.push(RequestType::AddHttpListener(lb.to_http(None).unwrap()).into());
    v.push(RequestType::ActivateListener(ActivateListener { address: plan.front.into(), proxy: ListenerType::Http.into(), from_scm: false }).into());
    for c in &plan.clusters {
        v.push(RequestType::AddCluster(Cluster { cluster_id: c.id.clone(), ..Default::default() }).into());
        v.push(RequestType::AddHttpFrontend(RequestHttpFrontend {
            cluster_id: Some(c.id.clone()),
            address: plan.front.into(),
            hostname: c.host.clone(),
            path: PathRule::prefix("/".to_string()),
            position: RulePosition::Tree.into(),
            ..Default::default()
        }).into());
        for (i, (b, _)) in c.backends.iter().enumerate() {
            v.push(RequestType::AddBackend(AddBackend {
                cluster_id: c.id.clone(),
                backend_id: format!("{}-{}", c.id, i),
                address: b.addr.into(),
                load_balancing_parameters: Some(LoadBalancingParams::default()),
                sticky_id: None,
                backup: None,
            }).into());
        }
    }
    for (host, cluster) in &plan.extra_frontends {
        v.push(RequestType::AddHttpFrontend(RequestHttpFrontend {
            cluster_id: cluster.clone(),
            address: plan.front.into(),
            hostname: host.clone(),
            path: PathRule::prefix("/".to_string()),
            position: RulePosition::Tree.into(),
            ..Default::default()
        }).into());
    }
    v
}

/// Run the plan on a fresh thread; returns what every party observed.
pub fn run_http(plan: &HttpPlan, log: bool) -> HttpOutcome {
    run_http_script(plan, log, None)
}

pub type MasterScript = Box<dyn FnOnce(&mut Master, Vec<Request>, i64) + Send>;

/// Like `run_http` but with a caller-supplied master script (gets the configuration requests and the
/// number of clients; must itself set board "configured" and finish with a stop).
pub fn run_http_script(plan: &HttpPlan, log: bool, script: Option<MasterScript>) -> HttpOutcome {
    let plan = plan.clone();
    netsim::on_fresh_thread(move || {
        let mut w = World::new(plan.seed, plan.sched.clone());
        // enter simulation mode before anything can create a HashMap on this thread: std draws the
        // per-thread RandomState keys from getrandom() on first use, and they must come from the run's PRNG
        World::install(&mut w);
        w.log_on = log;
        w.sndbuf_choices = plan.sndbufs.clone();
        let mut client_ids = Vec::new();
        let mut backend_ids: Vec<Vec<usize>> = Vec::new();
        let nclients = plan.clients.len() as i64;
        let settle = plan.settle_ns;
        let reqs = config_requests(&plan);
        let (end, mid) = netsim::run_worker(&mut w, plan.knobs.server_config(), ConfigState::new(), Listeners::default(), |w, m: &mut Master| {
            if let Some(script) = script {
                script(m, reqs, nclients);
            } else {
                m.send_all(reqs);
                m.push(MOp::Barrier);
                m.push(MOp::SetBoard("configured".into(), 1));
                m.push(MOp::WaitBoard("clients_done".into(), nclients));
                if settle > 0 { m.push(MOp::Sleep(settle)); }
                m.push(MOp::HardStop);
            }
            for c in &plan.clusters {
                let mut ids = Vec::new();
                for (b, mode) in &c.backends {
                    match mode {
                        BackendMode::Listen { delay_ns } => { w.topo.insert(b.addr, ConnectMode::Listen { delay_ns: *delay_ns }); }
                        BackendMode::Refuse { delay_ns } => { w.topo.insert(b.addr, ConnectMode::Refuse { delay_ns: *delay_ns }); }
                        BackendMode::Blackhole => { w.topo.insert(b.addr, ConnectMode::Blackhole); }
                    }
                    let rng = Prng::derive(plan.seed, &format!("backend/{}", b.name));
                    ids.push(w.add_actor(Box::new(H1Backend::new(b.clone(), rng))));
                }
                backend_ids.push(ids);
            }
            for c in &plan.clients {
                let rng = Prng::derive(plan.seed, &format!("client/{}", c.name));
                client_ids.push(w.add_actor(Box::new(H1Client::new(c.clone(), rng))));
            }
        });
        let mut out = HttpOutcome::default();
        out.panicked = end.panicked;
        out.aborted = end.aborted;
        out.boot_error = end.boot_error;
        {
            let m: &Master = w.actor_ref(mid);
            out.config_finals = m.data.finals.clone();
            out.responses = m.data.responses.clone();
            out.sent_ids = m.data.sent.iter().map(|(id, _, _)| id.clone()).collect();
        }
        for id in &client_ids {
            let c: &H1Client = w.actor_ref(*id);
            out.clients.push(ClientOutcome { rec: c.rec.clone(), responses: c.responses().clone(), partial: c.partial().cloned(), interim: c.parser.interim });
        }
        for ids in &backend_ids {
            let mut v = Vec::new();
            for id in ids {
                let b: &H1Backend = w.actor_ref(*id);
                v.push(b.all_records());
            }
            out.backends.push(v);
        }
        out.stats = w.stats.clone();
        out.trace_hash = w.trace.0;
        out.t_end = w.now;
        out.board = w.board.clone();
        out.max_served = w.max_served;
        out.max_open_accepted = w.max_open_accepted;
        out.log = std::mem::take(&mut w.log);
        out
    })
}

/// Body sizes biased toward the boundaries named in C01.
pub fn boundary_size(rng: &mut Prng, buffer_size: usize, max: usize) -> usize {
    let bases = [0usize, 1, 9, 16384, 16393, buffer_size, 2 * buffer_size, 3 * buffer_size, 65535, 65536, 32768, 16384 * 2, 16384 * 3, 131072, 1 << 20];
    let v = match rng.below(10) {
        0 => rng.below(64) as usize,
        1 => rng.below(4096) as usize,
        2 => rng.below(70000) as usize,
        3 => rng.below(max as u64 + 1) as usize,
        _ => {
            let b = *rng.pick(&bases);
            let d = *rng.pick(&[0i64, 0, 1, -1, 2, -2, 8, -8, 9, -9, 10, -10, 17, -17]);
            (b as i64 + d).max(0) as usize
        }
    };
    v.min(max)
}

pub fn random_chunks(rng: &mut Prng, total: usize) -> Vec<usize> {
    if total == 0 { return vec![]; }
    let mut left = total;
    let mut v = Vec::new();
    let style = rng.below(5);
    while left > 0 && v.len() < 400 {
        let n = match style {
            0 => left,
            1 => 1 + rng.below(16) as usize,
            2 => 1 + rng.below(4096) as usize,
            3 => *rng.pick(&[1usize, 9, 15, 16, 17, 255, 256, 4095, 4096, 16383, 16384, 16385, 16393]),
            _ => 1 + rng.below(left as u64) as usize,
        }.min(left);
        v.push(n);
        left -= n;
    }
    if left > 0 { v.push(left); }
    v
}

pub fn random_body(rng: &mut Prng, buffer_size: usize, max: usize, response: bool) -> BodySpec {
    let n = boundary_size(rng, buffer_size, max);
    match rng.below(if response { 10 } else { 8 }) {
        0 => BodySpec::None,
        1..=4 => BodySpec::Cl(n),
        5..=7 => BodySpec::Chunked(random_chunks(rng, n)),
        _ => BodySpec::Close(n),
    }
}
