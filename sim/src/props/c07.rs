//! C07 — a rejected configuration command leaves no trace; an accepted one changes only what it names.
//!
//! Two tiers, chosen per seed: the model tier below (master-side `ConfigState`), and for one seed in `WORKER_ONE_IN`
//! (plus the systematic plans of `enumerated`) the worker tier of c07_net.rs: a real worker under the libc seam, observed
//! through its query verbs and a fixed probe set before and after every command (plan field `worker`).
//!
//! modelsim tier on `sozu_command_lib::state::ConfigState::dispatch`: seeded command histories (cfggen)
//! with a high rate of *partly* invalid commands. After every command the whole configuration is compared
//! structurally with its pre-image.
//!
//! Reference model (independent of the code under test):
//! * `Err`  ⇒ every map except `request_counts` equals its pre-image, including bucket presence.
//! * `Ok`   ⇒ frame rule: with the command's *footprint* (the object(s) the command names, derived from the
//!   request alone) masked out of both pre- and post-state, the two are equal; for listener patches and
//!   (de)activation the footprint is field-level (only fields present in the patch may differ); plus the
//!   verb's documented postcondition (added object present as given, removed object absent, …).
#![allow(dead_code)]
use std::collections::{BTreeMap, BTreeSet};
use std::net::SocketAddr;

use serde_json::{json, Value};
use sozu_command_lib::proto::command::{request::RequestType, PathRule, Request, SocketAddress};
use sozu_command_lib::state::{ConfigState, StateError};

use super::cfggen::{self, delta_sig, state_delta, to_sockaddr, GenOpts};
use crate::framework::*;
use crate::prng::{Prng, TraceHash};
use crate::world::{SchedCfg, World};

pub struct C07;

pub fn err_name(e: &StateError) -> String {
    match e {
        StateError::EmptyRequest => "EmptyRequest".into(),
        StateError::NoChange => "NoChange".into(),
        StateError::UndispatchableRequest => "UndispatchableRequest".into(),
        StateError::NotFound { kind, .. } => format!("NotFound:{kind:?}"),
        StateError::Exists { kind, .. } => format!("Exists:{kind:?}"),
        StateError::WrongFieldValue(_) => "WrongFieldValue".into(),
        StateError::AddCertificate(c) => format!("AddCertificate:{}", cert_err(c)),
        StateError::RemoveCertificate(_) => "RemoveCertificate".into(),
        StateError::ReplaceCertificate(_) => "ReplaceCertificate".into(),
        StateError::FrontendConversion { .. } => "FrontendConversion".into(),
        StateError::FileError(_) => "FileError".into(),
        StateError::InvalidValue { field, .. } => format!("InvalidValue:{field}"),
    }
}
fn cert_err(c: &sozu_command_lib::certificate::CertificateError) -> &'static str {
    use sozu_command_lib::certificate::CertificateError as E;
    match c { E::ParsePEMCertificate(_) => "pem", E::ParseX509Certificate(_) => "x509", E::InvalidTlsVersion(_) => "tls_version", E::InvalidFingerprint(_) => "fingerprint", E::LoadFile { .. } => "file", E::DecodeError(_) => "hex" }
}

// ------------------------------------------------------------------------------ reference model

/// What a command names (derived from the request only).
#[derive(Clone, Debug)]
enum Foot {
    Nothing,
    Cluster(String),
    /// kind: 0 http, 1 https, 2 tcp, 3 udp
    Listener(i32, SocketAddr),
    HttpFront { https: bool, address: SocketAddr, hostname: String, path: PathRule, method: Option<String> },
    L4Front { udp: bool, cluster: String, address: SocketAddr },
    Backend { cluster: String, id: String, address: SocketAddr },
    /// certificates of one address (item-level rules are checked separately)
    Certs(SocketAddr),
}

fn footprint(t: &RequestType) -> Foot {
    let a = |s: &SocketAddress| to_sockaddr(s);
    match t {
        RequestType::AddCluster(c) => Foot::Cluster(c.cluster_id.clone()),
        RequestType::RemoveCluster(id) | RequestType::RemoveHealthCheck(id) => Foot::Cluster(id.clone()),
        RequestType::SetHealthCheck(s) => Foot::Cluster(s.cluster_id.clone()),
        RequestType::AddHttpListener(l) => Foot::Listener(0, a(&l.address)),
        RequestType::AddHttpsListener(l) => Foot::Listener(1, a(&l.address)),
        RequestType::AddTcpListener(l) => Foot::Listener(2, a(&l.address)),
        RequestType::AddUdpListener(l) => Foot::Listener(3, a(&l.address)),
        RequestType::RemoveListener(r) => Foot::Listener(r.proxy, a(&r.address)),
        RequestType::ActivateListener(r) => Foot::Listener(r.proxy, a(&r.address)),
        RequestType::DeactivateListener(r) => Foot::Listener(r.proxy, a(&r.address)),
        RequestType::UpdateHttpListener(p) => Foot::Listener(0, a(&p.address)),
        RequestType::UpdateHttpsListener(p) => Foot::Listener(1, a(&p.address)),
        RequestType::UpdateTcpListener(p) => Foot::Listener(2, a(&p.address)),
        RequestType::UpdateUdpListener(p) => Foot::Listener(3, a(&p.address)),
        RequestType::AddHttpFrontend(f) | RequestType::RemoveHttpFrontend(f) => Foot::HttpFront { https: false, address: a(&f.address), hostname: f.hostname.clone(), path: f.path.clone(), method: f.method.clone() },
        RequestType::AddHttpsFrontend(f) | RequestType::RemoveHttpsFrontend(f) => Foot::HttpFront { https: true, address: a(&f.address), hostname: f.hostname.clone(), path: f.path.clone(), method: f.method.clone() },
        RequestType::AddTcpFrontend(f) | RequestType::RemoveTcpFrontend(f) => Foot::L4Front { udp: false, cluster: f.cluster_id.clone(), address: a(&f.address) },
        RequestType::AddUdpFrontend(f) | RequestType::RemoveUdpFrontend(f) => Foot::L4Front { udp: true, cluster: f.cluster_id.clone(), address: a(&f.address) },
        RequestType::AddBackend(b) => Foot::Backend { cluster: b.cluster_id.clone(), id: b.backend_id.clone(), address: a(&b.address) },
        RequestType::RemoveBackend(b) => Foot::Backend { cluster: b.cluster_id.clone(), id: b.backend_id.clone(), address: a(&b.address) },
        RequestType::AddCertificate(c) => Foot::Certs(a(&c.address)),
        RequestType::RemoveCertificate(c) => Foot::Certs(a(&c.address)),
        RequestType::ReplaceCertificate(c) => Foot::Certs(a(&c.address)),
        _ => Foot::Nothing,
    }
}

/// Copy of `s` with the footprint's objects removed (and the footprint's bucket dropped when left empty).
fn mask(s: &ConfigState, f: &Foot) -> ConfigState {
    let mut m = s.clone();
    match f {
        Foot::Nothing => {}
        Foot::Cluster(id) => { m.clusters.remove(id); }
        Foot::Listener(k, a) => match k { 0 => { m.http_listeners.remove(a); } 1 => { m.https_listeners.remove(a); } 2 => { m.tcp_listeners.remove(a); } 3 => { m.udp_listeners.remove(a); } _ => {} },
        Foot::HttpFront { https, address, hostname, path, method } => {
            let map = if *https { &mut m.https_fronts } else { &mut m.http_fronts };
            map.retain(|_, v| !(v.address == *address && v.hostname == *hostname && v.path == *path && v.method == *method));
        }
        Foot::L4Front { udp, cluster, address } => {
            if *udp {
                if let Some(b) = m.udp_fronts.get_mut(cluster) { b.retain(|x| x.address != *address); if b.is_empty() { m.udp_fronts.remove(cluster); } }
            } else if let Some(b) = m.tcp_fronts.get_mut(cluster) { b.retain(|x| x.address != *address); if b.is_empty() { m.tcp_fronts.remove(cluster); } }
        }
        Foot::Backend { cluster, id, address } => {
            if let Some(b) = m.backends.get_mut(cluster) { b.retain(|x| !(x.backend_id == *id && x.address == *address)); if b.is_empty() { m.backends.remove(cluster); } }
        }
        Foot::Certs(a) => { m.certificates.remove(a); }
    }
    m
}

fn set_fields<T: serde::Serialize>(patch: &T) -> BTreeSet<String> {
    let v = serde_json::to_value(patch).unwrap_or_default();
    let mut out = BTreeSet::new();
    if let Some(m) = v.as_object() {
        for (k, x) in m {
            if k == "address" { continue; }
            let unset = x.is_null() || x.as_object().is_some_and(|o| o.is_empty());
            if !unset { out.insert(k.clone()); }
        }
    }
    out
}
fn json_fields_changed<T: serde::Serialize>(a: &T, b: &T) -> BTreeSet<String> {
    let (va, vb) = (serde_json::to_value(a).unwrap_or_default(), serde_json::to_value(b).unwrap_or_default());
    let mut out = BTreeSet::new();
    if let (Some(ma), Some(mb)) = (va.as_object(), vb.as_object()) {
        for k in ma.keys().chain(mb.keys()) { if ma.get(k) != mb.get(k) { out.insert(k.clone()); } }
    }
    out
}

/// Documented patch semantics ("only fields that are `Some` in the patch will be applied"): every field the
/// patch names must hold the patch's value afterwards. Returns the names of fields that do not.
fn patch_fields_not_stored<P: serde::Serialize, L: serde::Serialize>(patch: &P, post: &L) -> Vec<String> {
    let (pv, lv) = (serde_json::to_value(patch).unwrap_or_default(), serde_json::to_value(post).unwrap_or_default());
    let mut out = Vec::new();
    let Some(pm) = pv.as_object() else { return out };
    for (k, x) in pm {
        if k == "address" || x.is_null() { continue; }
        let ok = match k.as_str() {
            // per status: an empty value preserves, a non-empty value replaces
            "answers" => x.as_object().is_none_or(|m| m.iter().all(|(code, body)| body.as_str().is_some_and(|b| b.is_empty()) || lv["answers"].get(code) == Some(body))),
            // per field merge
            "http_answers" => {
                if let Some(m) = x.as_object() { for (f, v) in m { if !v.is_null() && lv["http_answers"].get(f) != Some(v) { out.push(format!("http_answers.{f}")); } } }
                true
            }
            "alpn_protocols" => lv["alpn_protocols"] == x["values"],
            _ => lv.get(k) == Some(x),
        };
        if !ok { out.push(k.clone()); }
    }
    out
}

/// Checks on an accepted command. Returns (class, key, detail) triples.
fn check_accepted(t: &RequestType, verb0: &str, pre: &ConfigState, post: &ConfigState) -> Vec<(String, String, String)> {
    let mut v: Vec<(String, String, String)> = Vec::new();
    // plan-side trigger feature: a frontend whose path rule kind is not a known enum value
    let verb_s = match t {
        RequestType::AddHttpFrontend(f) | RequestType::RemoveHttpFrontend(f) | RequestType::AddHttpsFrontend(f) | RequestType::RemoveHttpsFrontend(f) if !(0..=2).contains(&f.path.kind) => format!("{verb0}+unknown_path_kind"),
        _ => verb0.to_string(),
    };
    let verb = verb_s.as_str();
    let foot = footprint(t);
    // frame rule
    let d = state_delta(&mask(pre, &foot), &mask(post, &foot), true);
    if !d.is_empty() {
        v.push(("accepted_outside_footprint".into(), format!("{verb}|{}", delta_sig(&d)), format!("accepted {verb} changed objects it does not name: {}", d.iter().take(4).map(|x| x.describe()).collect::<Vec<_>>().join("; "))));
    }
    let wrong = |what: &str, detail: String| ("accepted_wrong_effect".to_string(), format!("{verb}|{what}"), detail);
    // field-level footprint of patches / activation; postconditions
    macro_rules! patch_check { ($map:ident, $p:expr) => {{
        let a = to_sockaddr(&$p.address);
        match (pre.$map.get(&a), post.$map.get(&a)) {
            (Some(x), Some(y)) => {
                let named = set_fields($p);
                let changed = json_fields_changed(x, y);
                let extra: Vec<&String> = changed.iter().filter(|f| !named.contains(*f)).collect();
                if !extra.is_empty() { v.push(("accepted_field_outside_patch".into(), format!("{verb}|{}", extra.iter().map(|s| s.as_str()).collect::<Vec<_>>().join(",")), format!("patch names {named:?} but fields {extra:?} changed"))); }
                for f in patch_fields_not_stored($p, y) { v.push(("accepted_wrong_effect".into(), format!("{verb}|patch_field_not_stored:{f}"), format!("accepted patch of listener {a} names field `{f}` but the stored listener does not hold the patch's value"))); }
            }
            (None, _) => v.push(wrong("patched_missing_listener", format!("patch of absent listener {a} accepted"))),
            (Some(_), None) => v.push(wrong("patch_removed_listener", format!("listener {a} vanished"))),
        }
    }}; }
    macro_rules! added_listener { ($map:ident, $l:expr) => {{
        let a = to_sockaddr(&$l.address);
        if pre.$map.contains_key(&a) { v.push(wrong("duplicate_listener_accepted", format!("{a} existed"))); }
        if post.$map.get(&a) != Some($l) { v.push(wrong("listener_not_stored_as_given", format!("{a}"))); }
    }}; }
    macro_rules! activation { ($r:expr, $want:expr) => {{
        let a = to_sockaddr(&$r.address);
        macro_rules! one { ($map:ident) => {{
            match (pre.$map.get(&a), post.$map.get(&a)) {
                (Some(x), Some(y)) => {
                    if y.active != $want { v.push(wrong("active_flag", format!("{a} active={}", y.active))); }
                    let ch = json_fields_changed(x, y);
                    if ch.iter().any(|f| f != "active") { v.push(("accepted_field_outside_patch".into(), format!("{verb}|{}", ch.into_iter().collect::<Vec<_>>().join(",")), "activation changed other fields".into())); }
                }
                _ => v.push(wrong("missing_listener", format!("{a}"))),
            }
        }}; }
        match $r.proxy { 0 => one!(http_listeners), 1 => one!(https_listeners), 2 => one!(tcp_listeners), 3 => one!(udp_listeners), _ => v.push(wrong("unknown_listener_type_accepted", format!("proxy={}", $r.proxy))) }
    }}; }
    match t {
        RequestType::AddCluster(c) => { if post.clusters.get(&c.cluster_id) != Some(c) { v.push(wrong("cluster_not_stored_as_given", c.cluster_id.clone())); } }
        RequestType::RemoveCluster(id) => { if post.clusters.contains_key(id) || !pre.clusters.contains_key(id) { v.push(wrong("remove_cluster", id.clone())); } }
        RequestType::SetHealthCheck(s) => match (pre.clusters.get(&s.cluster_id), post.clusters.get(&s.cluster_id)) {
            (Some(x), Some(y)) => {
                if y.health_check.as_ref() != Some(&s.config) { v.push(wrong("health_check_not_stored", s.cluster_id.clone())); }
                let ch = json_fields_changed(x, y);
                if ch.iter().any(|f| f != "health_check") { v.push(("accepted_field_outside_patch".into(), format!("{verb}|{}", ch.into_iter().collect::<Vec<_>>().join(",")), "SetHealthCheck changed other cluster fields".into())); }
            }
            _ => v.push(wrong("missing_cluster", s.cluster_id.clone())),
        },
        RequestType::RemoveHealthCheck(id) => match (pre.clusters.get(id), post.clusters.get(id)) {
            (Some(x), Some(y)) => {
                if y.health_check.is_some() { v.push(wrong("health_check_not_removed", id.clone())); }
                let ch = json_fields_changed(x, y);
                if ch.iter().any(|f| f != "health_check") { v.push(("accepted_field_outside_patch".into(), format!("{verb}|{}", ch.into_iter().collect::<Vec<_>>().join(",")), "RemoveHealthCheck changed other cluster fields".into())); }
            }
            _ => v.push(wrong("missing_cluster", id.clone())),
        },
        RequestType::AddHttpListener(l) => added_listener!(http_listeners, l),
        RequestType::AddHttpsListener(l) => added_listener!(https_listeners, l),
        RequestType::AddTcpListener(l) => added_listener!(tcp_listeners, l),
        RequestType::AddUdpListener(l) => added_listener!(udp_listeners, l),
        RequestType::RemoveListener(r) => {
            let a = to_sockaddr(&r.address);
            let (was, is) = match r.proxy { 0 => (pre.http_listeners.contains_key(&a), post.http_listeners.contains_key(&a)), 1 => (pre.https_listeners.contains_key(&a), post.https_listeners.contains_key(&a)), 2 => (pre.tcp_listeners.contains_key(&a), post.tcp_listeners.contains_key(&a)), 3 => (pre.udp_listeners.contains_key(&a), post.udp_listeners.contains_key(&a)), _ => (false, true) };
            if !was || is { v.push(wrong("remove_listener", format!("{a} proxy={} was={was} is={is}", r.proxy))); }
        }
        RequestType::ActivateListener(r) => activation!(r, true),
        RequestType::DeactivateListener(r) => activation!(r, false),
        RequestType::UpdateHttpListener(p) => patch_check!(http_listeners, p),
        RequestType::UpdateHttpsListener(p) => patch_check!(https_listeners, p),
        RequestType::UpdateTcpListener(p) => patch_check!(tcp_listeners, p),
        RequestType::UpdateUdpListener(p) => patch_check!(udp_listeners, p),
        RequestType::AddHttpFrontend(f) | RequestType::AddHttpsFrontend(f) => {
            let https = matches!(t, RequestType::AddHttpsFrontend(_));
            let (mp, mq) = if https { (&pre.https_fronts, &post.https_fronts) } else { (&pre.http_fronts, &post.http_fronts) };
            let a = to_sockaddr(&f.address);
            let same = |x: &&sozu_command_lib::response::HttpFrontend| x.address == a && x.hostname == f.hostname && x.path == f.path && x.method == f.method;
            if mp.values().any(|x| same(&x)) { v.push(wrong("duplicate_frontend_accepted", f.to_string())); }
            let stored: Vec<_> = mq.values().filter(same).collect();
            if stored.len() != 1 || stored[0].cluster_id != f.cluster_id || stored[0].tags.clone().unwrap_or_default() != f.tags || stored[0].headers != f.headers || stored[0].required_auth != f.required_auth || stored[0].redirect != f.redirect || stored[0].hsts != f.hsts {
                v.push(wrong("frontend_not_stored_as_given", f.to_string()));
            }
        }
        RequestType::RemoveHttpFrontend(f) | RequestType::RemoveHttpsFrontend(f) => {
            let https = matches!(t, RequestType::RemoveHttpsFrontend(_));
            let (mp, mq) = if https { (&pre.https_fronts, &post.https_fronts) } else { (&pre.http_fronts, &post.http_fronts) };
            let a = to_sockaddr(&f.address);
            let same = |x: &sozu_command_lib::response::HttpFrontend| x.address == a && x.hostname == f.hostname && x.path == f.path && x.method == f.method;
            if !mp.values().any(same) || mq.values().any(same) { v.push(wrong("remove_frontend", f.to_string())); }
        }
        RequestType::AddTcpFrontend(f) => {
            let a = to_sockaddr(&f.address);
            let n = post.tcp_fronts.get(&f.cluster_id).map(|b| b.iter().filter(|x| x.address == a && x.tags == f.tags && x.cluster_id == f.cluster_id).count()).unwrap_or(0);
            if n != 1 { v.push(wrong("tcp_frontend_not_stored_once", format!("{n} copies"))); }
        }
        RequestType::AddUdpFrontend(f) => {
            let a = to_sockaddr(&f.address);
            let n = post.udp_fronts.get(&f.cluster_id).map(|b| b.iter().filter(|x| x.address == a && x.tags == f.tags && x.cluster_id == f.cluster_id).count()).unwrap_or(0);
            if n != 1 { v.push(wrong("udp_frontend_not_stored_once", format!("{n} copies"))); }
        }
        RequestType::RemoveTcpFrontend(f) => {
            let a = to_sockaddr(&f.address);
            let was = pre.tcp_fronts.get(&f.cluster_id).is_some_and(|b| b.iter().any(|x| x.address == a));
            let is = post.tcp_fronts.get(&f.cluster_id).is_some_and(|b| b.iter().any(|x| x.address == a));
            if !was || is { v.push(wrong("remove_tcp_frontend", format!("was={was} is={is}"))); }
        }
        RequestType::RemoveUdpFrontend(f) => {
            let a = to_sockaddr(&f.address);
            let was = pre.udp_fronts.get(&f.cluster_id).is_some_and(|b| b.iter().any(|x| x.address == a));
            let is = post.udp_fronts.get(&f.cluster_id).is_some_and(|b| b.iter().any(|x| x.address == a));
            if !was || is { v.push(wrong("remove_udp_frontend", format!("was={was} is={is}"))); }
        }
        RequestType::AddBackend(b) => {
            let a = to_sockaddr(&b.address);
            let m: Vec<_> = post.backends.get(&b.cluster_id).map(|l| l.iter().filter(|x| x.backend_id == b.backend_id && x.address == a).collect()).unwrap_or_default();
            if m.len() != 1 || m[0].sticky_id != b.sticky_id || m[0].load_balancing_parameters != b.load_balancing_parameters || m[0].backup != b.backup || m[0].cluster_id != b.cluster_id {
                v.push(wrong("backend_not_stored_once_as_given", format!("{} copies", m.len())));
            }
        }
        RequestType::RemoveBackend(b) => {
            let a = to_sockaddr(&b.address);
            let was = pre.backends.get(&b.cluster_id).is_some_and(|l| l.iter().any(|x| x.backend_id == b.backend_id && x.address == a));
            let is = post.backends.get(&b.cluster_id).is_some_and(|l| l.iter().any(|x| x.backend_id == b.backend_id && x.address == a));
            if !was || is { v.push(wrong("remove_backend", format!("was={was} is={is}"))); }
        }
        RequestType::AddCertificate(c) => {
            let a = to_sockaddr(&c.address);
            let (p, q) = (pre.certificates.get(&a), post.certificates.get(&a));
            // nothing that was there may go or change; at most one new entry, carrying the given PEM
            let pk: BTreeMap<_, _> = p.map(|m| m.iter().collect()).unwrap_or_default();
            let qk: BTreeMap<_, _> = q.map(|m| m.iter().collect()).unwrap_or_default();
            if pk.iter().any(|(k, x)| qk.get(k) != Some(x)) { v.push(wrong("add_certificate_touched_existing", a.to_string())); }
            let new: Vec<_> = qk.iter().filter(|(k, _)| !pk.contains_key(*k)).collect();
            if new.len() > 1 || new.iter().any(|(_, x)| x.certificate != c.certificate.certificate || x.key != c.certificate.key) { v.push(wrong("add_certificate_stored_other", a.to_string())); }
            if !qk.values().any(|x| x.certificate == c.certificate.certificate) { v.push(wrong("add_certificate_not_stored", a.to_string())); }
        }
        RequestType::RemoveCertificate(c) => {
            let a = to_sockaddr(&c.address);
            let fp = c.fingerprint.to_lowercase();
            let pk: BTreeMap<String, _> = pre.certificates.get(&a).map(|m| m.iter().map(|(k, x)| (k.to_string(), x)).collect()).unwrap_or_default();
            let qk: BTreeMap<String, _> = post.certificates.get(&a).map(|m| m.iter().map(|(k, x)| (k.to_string(), x)).collect()).unwrap_or_default();
            if qk.contains_key(&fp) { v.push(wrong("remove_certificate_still_there", a.to_string())); }
            if pk.iter().any(|(k, x)| *k != fp && qk.get(k) != Some(x)) || qk.keys().any(|k| !pk.contains_key(k)) { v.push(wrong("remove_certificate_touched_others", a.to_string())); }
        }
        RequestType::ReplaceCertificate(c) => {
            let a = to_sockaddr(&c.address);
            let old = c.old_fingerprint.to_lowercase();
            let pk: BTreeMap<String, _> = pre.certificates.get(&a).map(|m| m.iter().map(|(k, x)| (k.to_string(), x)).collect()).unwrap_or_default();
            let qk: BTreeMap<String, _> = post.certificates.get(&a).map(|m| m.iter().map(|(k, x)| (k.to_string(), x)).collect()).unwrap_or_default();
            let newk: Vec<&String> = qk.iter().filter(|(_, x)| x.certificate == c.new_certificate.certificate).map(|(k, _)| k).collect();
            if newk.is_empty() { v.push(wrong("replace_certificate_new_not_stored", a.to_string())); }
            if qk.contains_key(&old) && !newk.contains(&&old) { v.push(wrong("replace_certificate_old_still_there", a.to_string())); }
            if pk.iter().any(|(k, x)| *k != old && !newk.contains(&k) && qk.get(k) != Some(x)) { v.push(wrong("replace_certificate_touched_others", a.to_string())); }
        }
        _ => {}
    }
    v
}

// ------------------------------------------------------------------------------------ the property

/// one seed in `WORKER_ONE_IN` is a worker-tier plan (`{"worker": NetPlan}`, c07_net.rs); SIMK_C07_ONLY=worker|model
/// restricts a batch to one tier (development / sensitivity runs)
pub const WORKER_ONE_IN: u64 = 16;
/// (thorough tier: one seed in 64, the histories are longer)
pub fn is_worker_seed(seed: u64, tier: Tier) -> bool {
    let n = match tier { Tier::Quick => WORKER_ONE_IN, Tier::Thorough => 4 * WORKER_ONE_IN };
    match std::env::var("SIMK_C07_ONLY").as_deref() { Ok("worker") => true, Ok("model") => false, _ => (seed >> 9) % n == 0 }
}
fn worker_of(plan: &Value) -> Option<Result<super::c07_net::NetPlan, RunReport>> {
    let t = plan.get("worker")?;
    Some(serde_json::from_value(t.clone()).map_err(|e| RunReport { harness_error: Some(format!("bad worker plan: {e}")), ..Default::default() }))
}

pub fn generate(seed: u64, tier: Tier) -> Value {
    if is_worker_seed(seed, tier) { return json!({"worker": super::c07_net::generate(seed, tier)}); }
    let mut rng = Prng::derive(seed, "c07/plan");
    let mut o = GenOpts::swarm(&mut rng);
    o.symbolic_certs = true;
    // C07 wants many partly invalid commands
    let fam = match rng.below(4) { 0 => { o.partial_pm = 700; o.invalid_pm = 60; "partial_heavy" } 1 => { o.partial_pm = 350; o.invalid_pm = 250; "invalid_heavy" } 2 => { o.reuse_pm = 900; o.partial_pm = 400; "collision_heavy" } _ => "swarm" };
    let max = match tier { Tier::Quick => 40, Tier::Thorough => 120 };
    let len = *rng.pick(&[6usize, 12, 20, max]);
    let ops = cfggen::gen_history(&mut rng, len, &o);
    json!({"seed": seed, "family": fam, "hash_seed": rng.next_u64(), "ops": cfggen::ops_to_value(&ops)})
}

struct Out { violations: Vec<Violation>, hash: u64, probes: BTreeMap<String, u64>, rejected: u64, accepted: u64 }

fn run(ops: Vec<Request>, hash_seed: u64) -> Out {
    crate::netsim::on_fresh_thread(move || {
        let mut w = World::new(hash_seed, SchedCfg::default());
        World::install(&mut w);
        let mut th = TraceHash::new();
        let mut violations: Vec<Violation> = Vec::new();
        let mut probes: BTreeMap<String, u64> = BTreeMap::new();
        let (mut rejected, mut accepted) = (0u64, 0u64);
        let mut state = ConfigState::new();
        for (i, r) in ops.iter().enumerate() {
            let verb = cfggen::verb_name(r);
            let pre = state.clone();
            let res = state.dispatch(r);
            th.mix(i as u64); th.mix_bytes(verb.as_bytes());
            match &res {
                Err(e) => {
                    rejected += 1;
                    let en = err_name(e);
                    th.mix_bytes(en.as_bytes());
                    *probes.entry(format!("rejected/{verb}/{en}")).or_insert(0) += 1;
                    let d = state_delta(&pre, &state, true);
                    if !d.is_empty() {
                        violations.push(Violation::new("rejected_but_mutated", format!("{verb}|{en}|{}", delta_sig(&d)), format!("op #{i} {verb} answered Err({e}) but the configuration changed: {}", d.iter().take(4).map(|x| x.describe()).collect::<Vec<_>>().join("; "))));
                    }
                }
                Ok(()) => {
                    accepted += 1;
                    th.mix(1);
                    *probes.entry(format!("accepted/{verb}")).or_insert(0) += 1;
                    if let Some(t) = &r.request_type {
                        for (class, key, detail) in check_accepted(t, verb, &pre, &state) { violations.push(Violation::new(&class, key, format!("op #{i}: {detail}"))); }
                    }
                }
            }
            th.mix(state_delta(&pre, &state, true).len() as u64);
        }
        cfggen::state_hash(&state, &mut th);
        probes.insert("objects_final".into(), cfggen::count_objects(&state) as u64);
        World::uninstall();
        Out { violations, hash: th.0, probes, rejected, accepted }
    })
}

impl Property for C07 {
    fn id(&self) -> &'static str { "C07" }
    fn runs(&self, tier: Tier) -> u64 { match tier { Tier::Quick => 60_000, Tier::Thorough => 1_200_000 } }
    fn gen_plan(&self, seed: u64, tier: Tier) -> Value {
        if let Some(p) = super::hubcfg::dispatch_gen("C07", seed, tier) { return p; } // hubcfg: main-process tier
        generate(seed, tier)
    }
    fn run_plan(&self, plan: &Value) -> RunReport {
        if let Some(t) = worker_of(plan) { return match t { Ok(p) => super::c07_net::run_report(&p), Err(r) => r }; }
        if let Some(r) = super::hubcfg::dispatch_run(plan) { return r; } // hubcfg
        let ops = match cfggen::ops_from_value(&plan["ops"]) { Ok(o) => o, Err(e) => return RunReport { harness_error: Some(format!("bad plan: {e}")), ..Default::default() } };
        let summary = cfggen::summarize_ops(&ops);
        let o = run(ops, plan["hash_seed"].as_u64().unwrap_or(0));
        let mut violations = o.violations;
        let mut seen = BTreeSet::new();
        violations.retain(|x| seen.insert((x.class.clone(), x.key.clone())));
        let mut rep = RunReport { seed: plan["seed"].as_u64().unwrap_or(0), family: plan["family"].as_str().unwrap_or("").into(), violations, trace_hash: o.hash, summary, ..Default::default() };
        rep.nontrivial = o.rejected >= 1 && o.accepted >= 1;
        rep.probes = o.probes;
        rep.probes.insert("commands_rejected".into(), o.rejected);
        rep.probes.insert("commands_accepted".into(), o.accepted);
        rep
    }
    fn enumerated(&self, _tier: Tier) -> Vec<Value> {
        if std::env::var("SIMK_C07_ONLY").as_deref() == Ok("model") { return vec![]; }
        super::c07_net::systematic().into_iter().map(|p| json!({"worker": p})).collect()
    }
    fn shrink(&self, plan: &Value) -> Vec<Value> {
        if let Some(t) = worker_of(plan) { return match t { Ok(p) => super::c07_net::shrink(&p).into_iter().map(|q| json!({"worker": q})).collect(), Err(_) => vec![] }; }
        if let Some(c) = super::hubcfg::dispatch_shrink(plan) { return c; } // hubcfg
        cfggen::shrink_ops(&plan["ops"]).into_iter().map(|ops| { let mut p = plan.clone(); p["ops"] = ops; p }).collect()
    }
    fn debug_plan(&self, plan: &Value) -> String {
        if let Some(t) = worker_of(plan) { return match t { Ok(p) => super::c07_net::debug(&p), Err(r) => format!("{:?}", r.harness_error) }; }
        if let Some(d) = super::hubcfg::dispatch_debug(plan) { return d; } // hubcfg
        let Ok(ops) = cfggen::ops_from_value(&plan["ops"]) else { return "bad plan".into() };
        let mut s = String::new();
        let mut st = ConfigState::new();
        for (i, r) in ops.iter().enumerate() {
            let pre = st.clone();
            let res = st.dispatch(r);
            let d = state_delta(&pre, &st, true);
            s += &format!("#{i} {} -> {:?}\n   delta: {}\n", cfggen::verb_name(r), res.as_ref().map_err(|e| e.to_string()), d.iter().map(|x| x.describe()).collect::<Vec<_>>().join("; "));
        }
        s
    }
    fn descr(&self) -> Descr {
        Descr {
            level: "exploration",
            rule: "two tiers, chosen per seed (1 seed in 16 is a worker-tier plan; plan field `worker`). MODEL TIER: seeded command histories over every mutating ConfigState verb (swarm: alphabet sizes, verb mix, invalid / partly-invalid / collision rates, hash seed); after every command the full configuration is compared with its pre-image; a run is non-trivial when >=1 command was rejected and >=1 accepted. WORKER TIER (c07_net.rs, c07_probe.rs): a real worker (Server::try_new_from_config + run under the libc seam) is given a valid base by a scripted master (1-2 HTTP listeners, optionally an HTTPS and a TCP listener, 2-3 clusters with their own backends, answer templates whose bodies name their origin - per listener and per cluster -, a cluster without backend, a frontend behind basic auth, certificates), then a history of 3-10 (thorough: 4-20) commands, one at a time over a fragmented command stream, 30-70% of them with exactly one defect only a worker notices (listener patches with an unparsable answer template / legacy template / bad sozu_id_header / zero flood knob / bad ALPN / HSTS without `enabled` beside good fields, clusters with unparsable templates or an invalid health check, frontends on an address without listener / with an invalid regex / hostname / enum value / HSTS on plain HTTP / duplicates, certificates with unparsable PEM / unknown address / unknown or non-hex fingerprints, listeners with unparsable templates / TLS versions / cipher lists / on a used address, (de)activation and removal of unknown, inactive or already active listeners, invalid health checks); before the first and after every command the worker is observed: QueryClustersHashes, QueryClusterById per cluster, QueryClustersByDomain per host, QueryCertificatesFromWorkers (all / per domain / per fingerprint), QueryMaxConnectionsPerIp, and 10-20 probes on fresh connections (per listener: unknown host -> 404 page, cluster without backend -> 503 page, basic auth -> 401 page, routed hosts -> which cluster's backend, sticky cookie name; TLS: certificate served per SNI; TCP listener: which cluster's backend; addresses where nothing should listen). Oracle: command answered FAILURE => both observations equal; answered OK => everything outside the command's footprint (the listener address / cluster / hostname / certificate store it names, computed from the request and the plan) equal; a well-formed command aimed at objects the history configured must not be answered FAILURE. Keys are `verb|trigger|symptom`; the trigger comes from a plan-level model of the history (never from sozu's answers). Triggers of recorded findings occur in half of the plans only, as the last command. Plus ~106 systematic plans: one per (verb, trigger) pair on a fixed base configuration, and two-step histories for what a rejected patch / a deactivation leaves behind. Non-trivial (worker tier) when >=1 command was answered FAILURE and >=1 OK. distinct = distinct trace hashes (model: verb, result, delta; worker: scheduler trace, answers, every observation)",
            assumptions: vec!["release semantics (debug assertions off)", "the census `request_counts` is not configuration and is excluded from equality", "worker tier: which backend of a cluster answers, and whether a close arrives as FIN or RST, are not configuration; request ids inside generated pages are masked", "worker tier: AF_UNIX listeners with simulated addresses stand in for TCP listeners (a second bind of one address fails, as without SO_REUSEPORT)"],
            real: vec!["sozu_command_lib::state::ConfigState::dispatch and every handler behind it", "certificate parsing / fingerprinting (x509-parser, sha2)", "proto request types", "worker tier: sozu_lib::server::Server (notify / notify_proxys, ConfigState copy, listener (de)activation), HttpProxy / HttpsProxy / TcpProxy command handlers, HttpListener / HttpsListener::update_config, HttpAnswers template engine, router, CertificateResolver + rustls handshakes, mux H1 sessions, backends, the worker side of the command channel"],
            stub: vec!["clock", "entropy (HashMap seeds)", "worker tier: master process (scripted, own framing codec), HTTP/1.1 probe clients (plain and over rustls), HTTP/1.1 backends"],
            not_covered: vec!["main-process tier (a command rejected by the master is never scattered): hubsim", "whether an accepted patch field is actually applied (only the frame is checked; see report on ignored patch fields)", "worker tier: UDP listeners / frontends; commands sent while another one is in flight or while traffic is in flight; traces only visible through timeouts, metrics, access-log tags or HTTP/2; listener state is not queryable on a worker and is observed through behaviour only; commands after a command that carries the trigger of a recorded finding (such a command is always the last of its plan)"],
        }
    }
}
