//! C10 tier 4 (`crash_restart`) — a worker dies at a seeded moment; the REAL main process notices (EOF on the
//! worker's channel), kills the pid, forks a replacement (`worker_automatic_restart`), and the replacement
//! boots from the state file the main process writes for it - nothing but the main process's memory and that
//! file survive the crash. Oracle (liveness once the fault is over): within two virtual seconds of the crash
//! the main process lists a new running worker, answers `Status` through it, and a probe client that connects
//! afterwards - as every later client - is served on every listener address that was active before the
//! crash. Clients whose lifetime overlaps the outage are not judged (their worker died); clients that
//! finished before the crash are judged in full.
use std::any::Any;
use std::sync::{Arc, Mutex};

use serde::{Deserialize, Serialize};
use sozu_command_lib::proto::command::{request::RequestType, response_content::ContentType, HardStop, ListWorkers, ResponseStatus, RunState, Status};

use super::c01;
use super::c10_handover::{self, HandoverPlan};
use super::cluster_cli::{CliRecord, CliStep, ScriptCli};
use crate::actors::h1::*;
use crate::actors::{Pace, Quantum};
use crate::clustersim::{self, ClusterKnobs};
use crate::framework::*;
use crate::netsim;
use crate::prng::Prng;
use crate::scenario::*;
use crate::world::{Actor, ConnectMode, Step, World, MS, SEC};

#[derive(Clone, Debug, Serialize, Deserialize)]
pub struct CrashPlan {
    pub base: HandoverPlan,
    /// one probe per listener address, after the restart
    pub probes: Vec<ClientPlan>,
    /// how long after the crash the CLI asks the main process for its workers
    pub settle_ns: u64,
}

pub fn generate(seed: u64, tier: Tier) -> CrashPlan {
    let mut base = c10_handover::generate(seed, tier);
    let mut rng = Prng::derive(seed, "c10/crash");
    base.family = base.family.replace("handover", "crash_restart");
    base.boot_delay_ns = 0;
    let mut probes = Vec::new();
    for (i, l) in base.listeners.clone().iter().enumerate() {
        let id = 9000u64 + i as u64;
        let mut r = ReqSpec::get(id, "c0.test", &format!("/probe/after-restart/{i}"));
        r.headers.push(("Content-Length".into(), "0".into()));
        base.backend.responses.insert(id, RespSpec::ok(BodySpec::Cl(11 + rng.below(3000) as usize)));
        probes.push(ClientPlan {
            name: format!("probe{i}"), src: format!("192.0.2.{}:41000", 200 + i).parse().unwrap(), dst: *l, start_ns: rng.below(5) * MS, pace: Pace::greedy(), pipeline: false,
            requests: vec![r], abort: None, sndbuf: None, think_ns: 0, linger_ns: 0, give_up_ns: 60 * SEC, wait_board: Some("upgraded".into()),
        });
    }
    CrashPlan { base, probes, settle_ns: *rng.pick(&[2 * SEC, 2 * SEC, 5 * SEC]) }
}

struct Crasher { at_ns: u64, t0: u64, done: bool, rec: Arc<Mutex<(u64, bool)>> }
impl Actor for Crasher {
    fn name(&self) -> String { "crasher".into() }
    fn as_any(&mut self) -> &mut dyn Any { self }
    fn as_any_ref(&self) -> &dyn Any { self }
    fn class(&self) -> u8 { 2 }
    fn step(&mut self, w: &mut World) -> Step {
        if self.done { return Step::Done; }
        if w.board_get("end") > 0 { self.done = true; return Step::Done; }
        if w.board_get("configured") == 0 { return Step::Blocked; }
        if self.t0 == 0 { self.t0 = w.now; }
        if w.now < self.t0 + self.at_ns { return Step::Sleep(self.t0 + self.at_ns); }
        let ok = clustersim::crash_worker(w, 0);
        if !ok { return Step::Idle(w.now + MS); } // the worker is running right now: at its next park
        *self.rec.lock().unwrap() = (w.now, true);
        w.board_set("crashed", 1);
        self.done = true;
        Step::Done
    }
}

pub fn run(p: &CrashPlan, log: bool) -> (RunReport, String) {
    let p = p.clone();
    netsim::on_fresh_thread(move || {
        let b = &p.base;
        let mut w = World::new(b.seed, b.sched.clone());
        w.log_on = log;
        w.sndbuf_choices = b.sndbufs.clone();
        let knobs = ClusterKnobs { worker: b.knobs.clone(), worker_timeout: 10, workers: 1, automatic_restart: true, boot_delays: vec![] };
        let rec = Arc::new(Mutex::new(CliRecord::default()));
        let crash = Arc::new(Mutex::new((0u64, false)));
        let nclients = (b.clients.len() + p.probes.len()) as i64;
        let mut steps: Vec<CliStep> = c10_handover::config_requests(b).into_iter().enumerate().map(|(i, r)| CliStep::new(&format!("cfg{i}"), r)).collect();
        let ncfg = steps.len();
        steps.last_mut().unwrap().set_board = Some("configured".into());
        let mut lw = CliStep::new("workers", RequestType::ListWorkers(ListWorkers {}).into());
        lw.wait_board = Some(("crashed".into(), 1)); lw.delay_ns = p.settle_ns;
        steps.push(lw);
        let mut st = CliStep::new("status", RequestType::Status(Status {}).into());
        st.set_board = Some("upgraded".into()); st.patience_ns = 40 * SEC;
        steps.push(st);
        let mut stop = CliStep::new("stop", RequestType::HardStop(HardStop {}).into());
        stop.wait_board = Some(("clients_done".into(), nclients));
        steps.push(stop);
        let labels: Vec<String> = steps.iter().map(|s| s.label.clone()).collect();
        let mut ids: (usize, Vec<usize>) = (0, vec![]);
        let all_clients: Vec<ClientPlan> = b.clients.iter().cloned().chain(p.probes.iter().cloned()).collect();
        let end = {
            let (rec2, crash2, p2, ids_ref, all2) = (rec.clone(), crash.clone(), p.clone(), &mut ids, all_clients.clone());
            clustersim::run_cluster(&mut w, &knobs, move |w, env| {
                let b = &p2.base;
                let mut cli = ScriptCli::new(&env.sock_name, env.force, steps, rec2, Prng::derive(b.seed, "cli"), Quantum::All, 900 * SEC);
                cli.release = vec!["configured".into(), "crashed".into(), "upgraded".into()];
                w.add_actor(Box::new(cli));
                w.add_actor(Box::new(Crasher { at_ns: b.handover_at_ns, t0: 0, done: false, rec: crash2 }));
                w.topo.insert(b.backend.addr, ConnectMode::Listen { delay_ns: 0 });
                ids_ref.0 = w.add_actor(Box::new(H1Backend::new(b.backend.clone(), Prng::derive(b.seed, "backend"))));
                w.prime_actor(ids_ref.0);
                for c in &all2 { ids_ref.1.push(w.add_actor(Box::new(H1Client::new(c.clone(), Prng::derive(b.seed, &format!("client/{}", c.name)))))); }
            })
        };
        World::install(&mut w);
        let (bid, cids) = ids;
        let mut rep = RunReport { seed: b.seed, family: b.family.clone(), ..Default::default() };
        let r = rec.lock().unwrap().clone();
        let (t_crash, crashed) = *crash.lock().unwrap();
        let mut v = Vec::new();
        if let Some(e) = &end.boot_error { rep.harness_error = Some(format!("cluster boot failed: {e}")); }
        if let Some(e) = r.connect_error { rep.harness_error = Some(format!("CLI could not connect: errno {e}")); }
        let cfg_fail: Vec<String> = (0..ncfg).filter(|i| !r.steps[*i].ok()).map(|i| format!("{}: {:?}", labels[i], r.steps[i].answers.last().map(|a| a.1.message.clone()))).collect();
        if !cfg_fail.is_empty() { rep.harness_error = Some(format!("configuration through the hub failed: {cfg_fail:?}")); }
        if !crashed && rep.harness_error.is_none() { rep.harness_error = Some("the worker was never crashed".into()); }
        if let Some(pn) = &end.hub_panicked { v.push(Violation::new("panic", "main_process", pn.clone())); }
        for wk in &end.workers { if let Some(pn) = &wk.panicked { v.push(Violation::new("panic", if wk.worker_index == 0 { "old_worker" } else { "new_worker" }, pn.clone())); } }
        if let Some(a) = &w.aborted { v.push(Violation::new("no_exit", a.clone(), format!("run aborted: {a} (cli step {:?})", labels.get(r.cur)))); }
        if r.forced && w.aborted.is_none() { v.push(Violation::new("no_exit", "main_process_forced", format!("the main process had to be pushed out of run() (cli step {:?})", labels.get(r.cur)))); }
        let idx = |l: &str| labels.iter().position(|x| x == l).unwrap();
        let t_restarted = r.steps[idx("status")].t_final;
        if crashed && rep.harness_error.is_none() && !r.forced {
            // the main process noticed: it killed the pid and forked exactly one replacement
            let pid0 = end.workers.first().map(|x| x.pid).unwrap_or(0);
            if !end.kills.iter().any(|(pid, _)| *pid == pid0) { v.push(Violation::new("listener_lost", "dead_worker_not_reaped", format!("the main process never sent a signal to the dead worker's pid {pid0}: kills={:?}", end.kills))); }
            if end.workers.len() != 2 { v.push(Violation::new("listener_lost", format!("workers_forked={}", end.workers.len()), format!("expected exactly one replacement for the crashed worker, the main process forked {} worker(s) in total", end.workers.len()))); }
            for wk in end.workers.iter().skip(1) { if let Some(e) = &wk.error { v.push(Violation::new("listener_lost", "successor_boot_failed", e.clone())); } }
            // ListWorkers two (or five) virtual seconds after the crash: a running worker that is not the dead one
            let lw = &r.steps[idx("workers")];
            let running_new = match lw.content().and_then(|c| c.content_type.as_ref()) {
                Some(ContentType::Workers(ws)) => ws.vec.iter().any(|x| x.id != 0 && x.run_state == RunState::Running as i32),
                _ => false,
            };
            if !running_new { v.push(Violation::new("listener_lost", "no_running_replacement_listed", format!("{} s after the crash ListWorkers shows no running replacement: {:?}", p.settle_ns / SEC, lw.content()))); }
            let stat = &r.steps[idx("status")];
            if !stat.ok() { v.push(Violation::new("listener_lost", "status_through_replacement_failed", format!("Status after the restart: {:?}", stat.answers.last().map(|a| (a.1.status, a.1.message.clone())))));  }
        }
        // ---------------- traffic
        let hp = HttpPlan { seed: b.seed, family: b.family.clone(), knobs: b.knobs.clone(), sched: b.sched.clone(), front: b.listeners[0], clusters: vec![ClusterPlan { id: "c0".into(), host: "c0.test".into(), backends: vec![(b.backend.clone(), BackendMode::Listen { delay_ns: 0 })] }], clients: all_clients.clone(), sndbufs: None, settle_ns: 0, extra_frontends: vec![] };
        let mut ho = HttpOutcome::default();
        for id in cids.iter() {
            let c: &H1Client = w.actor_ref(*id);
            ho.clients.push(ClientOutcome { rec: c.rec.clone(), responses: c.responses().clone(), partial: c.partial().cloned(), interim: c.parser.interim });
        }
        { let bk: &H1Backend = w.actor_ref(bid); ho.backends.push(vec![bk.all_records()]); }
        let t_back = if t_restarted > 0 { t_restarted } else { u64::MAX };
        // a client whose lifetime overlaps the outage [crash, replacement answering] is not judged
        let overlaps = |c: &ClientOutcome| -> bool {
            if !crashed { return false; }
            let start = if c.rec.t_connect > 0 { c.rec.t_connect } else { c.rec.t_end };
            start <= t_back && c.rec.t_end >= t_crash
        };
        if rep.harness_error.is_none() {
            for (i, c) in ho.clients.iter().enumerate() {
                if let Some(e) = c.rec.connect_err { if !overlaps(c) { v.push(Violation::new("listener_lost", "connect_refused", format!("client {} could not connect to {} (errno {e}) although no outage was in progress (crash at {}, replacement answering at {})", all_clients[i].name, all_clients[i].dst, t_crash, t_restarted))); } }
            }
            let exempt = |ci: usize, _ri: usize| -> bool { let c = &ho.clients[ci]; c.rec.connect_err.is_some() || overlaps(c) };
            for viol in c01::oracle_filtered(&hp, &ho, &exempt) {
                let cls = if viol.class == "stall_needed_timer" { "in_flight_cut".to_string() } else { viol.class.clone() };
                v.push(Violation::new(if viol.class == "no_answer" || viol.class == "body_mismatch" || viol.class == "missing_terminator" { "listener_lost" } else { &cls }, format!("after_restart:{}:{}", viol.class, viol.key), viol.detail));
            }
        }
        let judged = ho.clients.iter().filter(|c| !overlaps(c) && c.rec.connect_err.is_none()).count();
        rep.probes.insert("worker_crashed".into(), crashed as u64);
        rep.probes.insert("workers_forked".into(), end.workers.len() as u64);
        rep.probes.insert("clients_judged".into(), judged as u64);
        rep.probes.insert("clients_overlapping_outage".into(), ho.clients.iter().filter(|c| overlaps(c)).count() as u64);
        rep.probes.insert("connects_refused_during_outage".into(), ho.clients.iter().filter(|c| c.rec.connect_err.is_some() && overlaps(c)).count() as u64);
        rep.nontrivial = crashed && t_restarted > 0 && judged > 0;
        rep.summary = format!("real main + worker with automatic restart; {} listeners {:?}, {} clients + {} probes, worker crashed at +{} ms after configuration, replacement answering {} ms later; workers forked {}", b.listeners.len(), b.listeners, b.clients.len(), p.probes.len(), b.handover_at_ns / MS, t_restarted.saturating_sub(t_crash) / MS, end.workers.len());
        rep.violations = v;
        rep.trace_hash = w.trace.0;
        w.stats.virtual_ns = w.now.saturating_sub(1000 * SEC);
        rep.stats = w.stats.clone();
        let mut dbg = String::new();
        if log {
            for l in &w.log { dbg += l; dbg.push('\n'); }
            for (i, s) in r.steps.iter().enumerate() { dbg += &format!("{}: sent {} final {:?} answers {:?}\n", labels[i], s.t_send, s.final_status(), s.answers.iter().map(|a| (a.1.status, a.1.message.chars().take(160).collect::<String>())).collect::<Vec<_>>()); }
            dbg += &format!("crash at {t_crash}, replacement answering at {t_restarted}\n{end:#?}\naccept_log={:?}\n", w.accept_log);
            for (i, c) in ho.clients.iter().enumerate() { dbg += &format!("client {}: {:?} responses={:?}\n", all_clients[i].name, c.rec, c.responses.iter().map(|m| (m.start.clone(), m.body_len, m.complete)).collect::<Vec<_>>()); }
            dbg += &format!("{}\n", serde_json::to_string_pretty(&rep.violations).unwrap());
        }
        drop(w);
        World::uninstall();
        (rep, dbg)
    })
}

pub fn shrink(p: &CrashPlan) -> Vec<CrashPlan> {
    let mut out: Vec<CrashPlan> = c10_handover::shrink(&p.base).into_iter().map(|b| {
        let mut q = p.clone();
        q.probes.retain(|pr| b.listeners.contains(&pr.dst));
        q.base = b;
        q
    }).collect();
    if p.probes.len() > 1 { for i in 0..p.probes.len() { let mut q = p.clone(); q.probes.remove(i); out.push(q); } }
    out
}

#[allow(dead_code)]
fn _rs(_: ResponseStatus) {}
