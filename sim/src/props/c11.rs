//! C11 — command channels deliver every message once, intact, within memory bounds.
//!
//! Engine: *chansim*. Two real `sozu_command_lib::channel::Channel` endpoints (each wrapped in the
//! loop of its real owner) over two real AF_UNIX socket pairs, with a simulator **relay** in
//! between that moves k bytes at a time:
//!
//! ```text
//!   end 0 (Channel)  a0 ==== a1  [relay queue 0 ->]  b1 ==== b0  (Channel) end 1
//!                               [<- relay queue 1 ]
//! ```
//!
//! In fault runs end 0 is a *raw byte writer*: relay queue 0 is preloaded with a byte stream made
//! of valid and malformed frames.
//!
//! The oracle is an independent model: (a) a bounded FIFO of bytes per writer (accept a frame iff
//! pending + frame <= max), (b) a reference deframer over the bytes handed to the reader's socket
//! (8-byte LE total length, skip-or-close on error), (c) byte conservation measured at the kernel
//! (FIONREAD), never through the channel's own counters.
#![allow(dead_code)]

use std::collections::BTreeMap;
use std::fmt::Debug;
use std::os::fd::FromRawFd;
use std::panic::{catch_unwind, AssertUnwindSafe};

use mio::net::UnixStream as MioUnixStream;
use mio::Token;
use prost::Message as ProstMessage;
use serde::{Deserialize, Serialize};
use serde_json::Value;
use sozu::command::sessions::{extract_messages, wants_to_tick, WorkerResult, WorkerSession};
use sozu_command_lib::channel::Channel;
use sozu_command_lib::proto::command::{
    request::RequestType, QueryClusterByDomain, Request, Response, ResponseContent, RunState, WorkerRequest, WorkerResponse,
};
use sozu_command_lib::ready::Ready;
use sozu_command_lib::scm_socket::ScmSocket;

use crate::framework::*;
use crate::netsim::on_fresh_thread;
use crate::prng::{Prng, TraceHash};
use crate::sys::{self, sc};
use crate::world::{SchedCfg, World};

pub struct C11;

// ------------------------------------------------------------------------------------------ plan

#[derive(Clone, Debug, Serialize, Deserialize, PartialEq)]
#[serde(tag = "o")]
pub enum Op {
    /// `write_message` on side `s` of a message whose frame (prefix + payload) is `len` bytes
    W { s: u8, len: usize },
    /// `handle_events(bits)` (1 readable, 2 writable)
    Ev { s: u8, bits: u16 },
    /// `readable()`
    Rd { s: u8 },
    /// `writable()`
    Wr { s: u8 },
    /// `run()`
    Run { s: u8 },
    /// `read_message()` up to n times (stops at the first Err)
    Rm { s: u8, n: u32 },
    /// one turn of the owner's event loop, with the events an edge-triggered epoll would report
    Own { s: u8 },
    /// relay: read up to k bytes written by side d (0 = everything available)
    Pull { d: u8, k: usize },
    /// relay: hand up to k queued bytes of direction d to side 1-d (0 = everything)
    Push { d: u8, k: usize },
    /// fault runs: the raw writer closes its socket
    Eof,
}

#[derive(Clone, Debug, Serialize, Deserialize, PartialEq)]
#[serde(tag = "k")]
pub enum Seg {
    /// a well-formed frame of `len` bytes in total
    Valid { len: usize },
    /// 8-byte prefix declaring a total length v < 8, nothing else
    LenLt8 { v: u64 },
    /// prefix declaring v > max, followed by `pay` payload bytes
    LenGtMax { v: u64, pay: usize },
    /// correct prefix (`len`), payload that is not a protobuf message of the expected type
    Undecodable { len: usize, how: u8 },
    /// a well-formed frame with one bit flipped (bit index into the whole frame)
    Flip { len: usize, bit: usize },
    /// a well-formed frame whose last `cut` bytes are missing (the prefix still says `len`)
    Trunc { len: usize, cut: usize },
    /// n pseudo-random bytes
    Garbage { n: usize, g: u64 },
}

#[derive(Clone, Debug, Serialize, Deserialize, PartialEq)]
pub struct Plan {
    pub seed: u64,
    pub family: String,
    /// endpoint kinds: "worker_session" | "worker_loop" | "sessions" | "simple" | "raw"
    pub ends: [String; 2],
    pub buf: [u64; 2],
    pub max: u64,
    pub sndbuf: i32,
    pub short_pm: u32,
    pub eagain_pm: u32,
    /// the plan only uses owner-level reads (W, Wr, Own, Pull, Push, Eof): the edge-triggered
    /// event model is exact and a "stall until the next event" verdict is allowed
    pub strict: bool,
    pub ops: Vec<Op>,
    #[serde(default)]
    pub segs: Vec<Seg>,
}

// -------------------------------------------------------------------------- message construction

fn text(seq: u32, salt: u32, n: usize) -> String {
    // position-dependent printable pattern: shifted, duplicated or truncated data never compares equal
    let mut s = String::with_capacity(n);
    let head = format!("{seq}.");
    for (i, c) in head.bytes().enumerate() {
        if i >= n { break; }
        s.push(c as char);
    }
    let mut i = s.len();
    let k = (seq.wrapping_mul(7).wrapping_add(salt.wrapping_mul(13))) as usize;
    while i < n {
        s.push((b'a' + ((i + k + i / 26) % 26) as u8) as char);
        i += 1;
    }
    s
}

pub trait Wire: ProstMessage + Default + Debug + Clone + PartialEq + 'static {
    /// a message with a first string of `a` bytes and, if `b` is given, a second string of b bytes
    fn mk(seq: u32, a: usize, b: Option<usize>) -> Self;
    fn minimal() -> Self { Self::default() }
}
impl Wire for WorkerRequest {
    fn mk(seq: u32, a: usize, b: Option<usize>) -> Self {
        WorkerRequest { id: text(seq, 1, a), content: Request { request_type: b.map(|b| RequestType::LoadState(text(seq, 2, b))) } }
    }
}
impl Wire for WorkerResponse {
    fn mk(seq: u32, a: usize, b: Option<usize>) -> Self {
        WorkerResponse { id: text(seq, 1, a), status: (seq % 3) as i32, message: b.map(|b| text(seq, 2, b)).unwrap_or_default(), content: None }
    }
}
impl Wire for Request {
    fn mk(seq: u32, a: usize, b: Option<usize>) -> Self {
        match b {
            None if a == 0 => Request { request_type: None },
            None => Request { request_type: Some(RequestType::LoadState(text(seq, 1, a))) },
            Some(b) => Request { request_type: Some(RequestType::QueryClustersByDomain(QueryClusterByDomain { hostname: text(seq, 1, a), path: Some(text(seq, 2, b)) })) },
        }
    }
}
impl Wire for Response {
    fn mk(seq: u32, a: usize, b: Option<usize>) -> Self {
        Response { status: (seq % 3) as i32, message: text(seq, 1, a + b.unwrap_or(0)), content: b.map(|_| ResponseContent { content_type: None }) }
    }
}

/// A message whose encoding is exactly `target` bytes when that is reachable, else the largest
/// one below (or the smallest possible message).
fn build<M: Wire>(seq: u32, target: usize) -> M {
    let min = M::minimal();
    let min_len = min.encoded_len();
    if min_len >= target { return min; }
    let mut best = min;
    let mut best_len = min_len;
    for a in [2usize, 3, 4, 0, 1] {
        for with_b in [true, false] {
            let mut x = target;
            for _ in 0..8 {
                let m = if with_b { M::mk(seq, a, Some(x)) } else { M::mk(seq, a + x, None) };
                let l = m.encoded_len();
                if l == target { return m; }
                if l < target && l > best_len { best_len = l; best = m; }
                if l > target {
                    let d = l - target;
                    if d > x { break; }
                    x -= d;
                } else {
                    x += target - l;
                }
            }
        }
    }
    best
}

fn frame_of(payload: &[u8]) -> Vec<u8> {
    let mut v = Vec::with_capacity(payload.len() + 8);
    v.extend_from_slice(&((payload.len() as u64) + 8).to_le_bytes());
    v.extend_from_slice(payload);
    v
}

// ------------------------------------------------------------------------------------- endpoints

#[derive(Clone, Copy, Debug, Default, PartialEq)]
pub struct Obs { fcap: usize, fdata: usize, bcap: usize, bdata: usize, interest: u16, readiness: u16 }

#[derive(Clone, Copy, Debug, Default)]
pub struct Ev { any: bool, r: bool, w: bool, hup: bool, err: bool }
impl Ev {
    fn ready(&self) -> Ready {
        // command/src/ready.rs: From<&mio::event::Event>
        let mut r = Ready::EMPTY;
        if self.r { r.insert(Ready::READABLE); }
        if self.w { r.insert(Ready::WRITABLE); }
        if self.err { r.insert(Ready::ERROR); }
        if self.hup { r.insert(Ready::HUP); }
        r
    }
}

#[derive(Debug, Default)]
pub struct OwnerOut {
    delivered: Vec<Vec<u8>>,
    terminal: Option<String>,
    errs: Vec<String>,
    spin: bool,
}

fn tag<E: Debug>(e: &E) -> String {
    let s = format!("{e:?}");
    s.split(|c: char| !(c.is_alphanumeric() || c == '_')).next().unwrap_or("").to_string()
}

pub trait Endpoint {
    fn kind(&self) -> &'static str;
    fn fd(&self) -> i32;
    fn obs(&self) -> Obs;
    fn build_tx(&self, seq: u32, payload_len: usize) -> Vec<u8>;
    fn build_rx(&self, seq: u32, payload_len: usize) -> Vec<u8>;
    /// independent decode of a payload of the type this end receives: canonical re-encoding
    fn rx_canon(&self, payload: &[u8]) -> Option<Vec<u8>>;
    fn write(&mut self, payload: &[u8]) -> Result<(), String>;
    fn events(&mut self, bits: u16);
    fn readable(&mut self) -> Result<usize, String>;
    fn writable(&mut self) -> Result<usize, String>;
    fn run(&mut self) -> Result<(), String>;
    fn read(&mut self) -> Result<Vec<u8>, String>;
    fn owner(&mut self, ev: Ev) -> OwnerOut;
    /// a plain API user's turn (used in plans that call the channel API directly)
    fn api_turn(&mut self, ev: Ev) -> OwnerOut;
}

fn ch_obs<Tx, Rx>(ch: &Channel<Tx, Rx>) -> Obs {
    Obs {
        fcap: ch.front_buf.capacity(), fdata: ch.front_buf.available_data(),
        bcap: ch.back_buf.capacity(), bdata: ch.back_buf.available_data(),
        interest: ch.interest.0, readiness: ch.readiness.0,
    }
}

const SPIN_LIMIT: u32 = 20_000;

/// `Server::send_queue` (lib/src/server.rs:1543-1572) with an empty response QUEUE.
fn wl_send_queue<Tx: Wire, Rx: Wire>(ch: &mut Channel<Tx, Rx>, out: &mut OwnerOut) {
    if ch.readiness.is_writable() {
        let mut guard = 0;
        loop {
            if ch.back_buf.available_data() > 0 {
                if let Err(e) = ch.writable() { out.errs.push(tag(&e)); }
            }
            if !ch.readiness.is_writable() { break; }
            if ch.back_buf.available_data() == 0 { break; }
            guard += 1;
            if guard > SPIN_LIMIT { out.spin = true; break; }
        }
    }
}

/// `Server::read_channel_messages_and_notify` (lib/src/server.rs:1291-1347); `notify` = deliver.
fn wl_read_channel_messages<Tx: Wire, Rx: Wire>(ch: &mut Channel<Tx, Rx>, out: &mut OwnerOut) {
    if !ch.readiness().is_readable() { return; }
    if let Err(e) = ch.readable() { out.errs.push(tag(&e)); }
    let mut guard = 0;
    loop {
        match ch.read_message() {
            Ok(m) => out.delivered.push(m.encode_to_vec()),
            Err(e) => {
                out.errs.push(tag(&e));
                if (ch.interest & ch.readiness).is_readable() {
                    if let Err(e) = ch.readable() { out.errs.push(tag(&e)); }
                    guard += 1;
                    if guard > SPIN_LIMIT { out.spin = true; break; }
                    continue;
                }
                break;
            }
        }
    }
}

/// One turn of `Server::run` for Token(0) (lib/src/server.rs:1054-1098), response QUEUE empty.
fn worker_loop_turn<Tx: Wire, Rx: Wire>(ch: &mut Channel<Tx, Rx>, ev: Ev, out: &mut OwnerOut) {
    wl_send_queue(ch, out);
    if !ev.any { return; }
    if ev.err { out.errs.push("event_error".into()); return; }
    if ev.hup { out.terminal = Some("command channel was closed".into()); return; }
    ch.handle_events(ev.ready());
    let mut guard = 0;
    loop {
        if ch.readiness() == Ready::EMPTY { break; }
        wl_read_channel_messages(ch, out);
        if out.spin { break; }
        wl_send_queue(ch, out);
        guard += 1;
        if guard > SPIN_LIMIT { out.spin = true; break; }
    }
}

/// `ClientSession::ready` (bin/src/command/sessions.rs:164-181) with the real `extract_messages`;
/// all extracted messages count as delivered (the real method keeps only the last one).
fn session_ready<Tx: Wire, Rx: Wire>(ch: &mut Channel<Tx, Rx>, ready: Ready, out: &mut OwnerOut) {
    ch.handle_events(ready);
    if ch.readiness.is_error() || ch.readiness.is_hup() { out.terminal = Some("CloseSession".into()); return; }
    if let Err(e) = ch.writable() { let t = tag(&e); if t != "Connection" { out.errs.push(t); } }
    for m in extract_messages(ch) { out.delivered.push(m.encode_to_vec()); }
}

/// One turn of `CommandHub::run` (bin/src/command/server.rs:508-600) for one session.
fn sessions_turn<Tx: Wire, Rx: Wire>(ch: &mut Channel<Tx, Rx>, ev: Ev, out: &mut OwnerOut) {
    if wants_to_tick(ch) {
        session_ready(ch, Ready::EMPTY, out);
        if out.terminal.is_some() { return; }
    }
    if ev.any { session_ready(ch, ev.ready(), out); }
}

/// A plain third-party user of the API ("you have to flush using channel.run() afterwards"):
/// feed events, `run()`, read until an error.
fn simple_turn<Tx: Wire, Rx: Wire>(ch: &mut Channel<Tx, Rx>, ev: Ev, out: &mut OwnerOut) {
    if ev.any {
        if ev.hup || ev.err { out.terminal = Some("peer closed".into()); return; }
        ch.handle_events(ev.ready());
    }
    if let Err(e) = ch.run() { out.errs.push(tag(&e)); }
    loop {
        match ch.read_message() {
            Ok(m) => out.delivered.push(m.encode_to_vec()),
            Err(e) => { out.errs.push(tag(&e)); break; }
        }
    }
}

#[derive(Clone, Copy, PartialEq)]
enum OwnerKind { WorkerLoop, Sessions, Simple }

struct Gen<Tx: Wire, Rx: Wire> { ch: Channel<Tx, Rx>, owner: OwnerKind, name: &'static str }

macro_rules! chan_ops {
    ($ch:expr) => {
        fn fd(&self) -> i32 { $ch(self).fd() }
        fn obs(&self) -> Obs { ch_obs($ch(self)) }
    };
}

impl<Tx: Wire, Rx: Wire> Gen<Tx, Rx> { fn c(&self) -> &Channel<Tx, Rx> { &self.ch } }
impl<Tx: Wire, Rx: Wire> Endpoint for Gen<Tx, Rx> {
    fn kind(&self) -> &'static str { self.name }
    chan_ops!(Self::c);
    fn build_tx(&self, seq: u32, n: usize) -> Vec<u8> { build::<Tx>(seq, n).encode_to_vec() }
    fn build_rx(&self, seq: u32, n: usize) -> Vec<u8> { build::<Rx>(seq, n).encode_to_vec() }
    fn rx_canon(&self, payload: &[u8]) -> Option<Vec<u8>> { Rx::decode(payload).ok().map(|m| m.encode_to_vec()) }
    fn write(&mut self, payload: &[u8]) -> Result<(), String> {
        let m = Tx::decode(payload).expect("harness: tx payload decodes");
        self.ch.write_message(&m).map_err(|e| tag(&e))
    }
    fn events(&mut self, bits: u16) { self.ch.handle_events(Ready(bits)); }
    fn readable(&mut self) -> Result<usize, String> { self.ch.readable().map_err(|e| tag(&e)) }
    fn writable(&mut self) -> Result<usize, String> { self.ch.writable().map_err(|e| tag(&e)) }
    fn run(&mut self) -> Result<(), String> { self.ch.run().map_err(|e| tag(&e)) }
    fn read(&mut self) -> Result<Vec<u8>, String> { self.ch.read_message().map(|m| m.encode_to_vec()).map_err(|e| tag(&e)) }
    fn owner(&mut self, ev: Ev) -> OwnerOut {
        let mut out = OwnerOut::default();
        match self.owner {
            OwnerKind::WorkerLoop => worker_loop_turn(&mut self.ch, ev, &mut out),
            OwnerKind::Sessions => sessions_turn(&mut self.ch, ev, &mut out),
            OwnerKind::Simple => simple_turn(&mut self.ch, ev, &mut out),
        }
        out
    }
    fn api_turn(&mut self, ev: Ev) -> OwnerOut { let mut out = OwnerOut::default(); simple_turn(&mut self.ch, ev, &mut out); out }
}

/// The real `WorkerSession` of the main process.
struct WSess { s: WorkerSession, scm: (i32, i32) }
impl WSess { fn c(&self) -> &Channel<WorkerRequest, WorkerResponse> { &self.s.channel } }
impl WSess {
    fn ready(&mut self, r: Ready, out: &mut OwnerOut) {
        self.s.update_readiness(r);
        match self.s.ready() {
            WorkerResult::NothingToDo => {}
            WorkerResult::NewResponses(v) => for m in v { out.delivered.push(m.encode_to_vec()); },
            WorkerResult::CloseSession => out.terminal = Some("CloseSession".into()),
        }
    }
}
impl Endpoint for WSess {
    fn kind(&self) -> &'static str { "worker_session" }
    chan_ops!(Self::c);
    fn build_tx(&self, seq: u32, n: usize) -> Vec<u8> { build::<WorkerRequest>(seq, n).encode_to_vec() }
    fn build_rx(&self, seq: u32, n: usize) -> Vec<u8> { build::<WorkerResponse>(seq, n).encode_to_vec() }
    fn rx_canon(&self, payload: &[u8]) -> Option<Vec<u8>> { WorkerResponse::decode(payload).ok().map(|m| m.encode_to_vec()) }
    fn write(&mut self, payload: &[u8]) -> Result<(), String> {
        let m = WorkerRequest::decode(payload).expect("harness: tx payload decodes");
        self.s.channel.write_message(&m).map_err(|e| tag(&e))
    }
    fn events(&mut self, bits: u16) { self.s.channel.handle_events(Ready(bits)); }
    fn readable(&mut self) -> Result<usize, String> { self.s.channel.readable().map_err(|e| tag(&e)) }
    fn writable(&mut self) -> Result<usize, String> { self.s.channel.writable().map_err(|e| tag(&e)) }
    fn run(&mut self) -> Result<(), String> { self.s.channel.run().map_err(|e| tag(&e)) }
    fn read(&mut self) -> Result<Vec<u8>, String> { self.s.channel.read_message().map(|m| m.encode_to_vec()).map_err(|e| tag(&e)) }
    fn owner(&mut self, ev: Ev) -> OwnerOut {
        // CommandHub::run (bin/src/command/server.rs:518-524, 581-597)
        let mut out = OwnerOut::default();
        if self.s.run_state != RunState::Stopped && wants_to_tick(&self.s.channel) {
            self.ready(Ready::EMPTY, &mut out);
            if out.terminal.is_some() { return out; }
        }
        if ev.any { self.ready(ev.ready(), &mut out); }
        out
    }
    fn api_turn(&mut self, ev: Ev) -> OwnerOut { let mut out = OwnerOut::default(); simple_turn(&mut self.s.channel, ev, &mut out); out }
}
impl Drop for WSess {
    fn drop(&mut self) { sys::close(self.scm.0); sys::close(self.scm.1); }
}

fn mio_stream(fd: i32) -> MioUnixStream { unsafe { MioUnixStream::from_raw_fd(fd) } }

fn make_end(kind: &str, fd: i32, buf: u64, max: u64) -> Option<Box<dyn Endpoint>> {
    let session_interest = Ready::READABLE | Ready::ERROR | Ready::HUP;
    Some(match kind {
        "worker_session" => {
            let scm = sys::socketpair(libc::AF_UNIX, libc::SOCK_STREAM | libc::SOCK_CLOEXEC).expect("socketpair");
            let ch: Channel<WorkerRequest, WorkerResponse> = Channel::new(mio_stream(fd), buf, max);
            let s = WorkerSession::new(ch, 0, 4242, Token(7), ScmSocket::new(scm.0).expect("scm"));
            Box::new(WSess { s, scm })
        }
        "worker_loop" => Box::new(Gen::<WorkerResponse, WorkerRequest> { ch: Channel::new(mio_stream(fd), buf, max), owner: OwnerKind::WorkerLoop, name: "worker_loop" }),
        "sessions" => {
            // ClientSession::new (bin/src/command/sessions.rs:90)
            let mut ch: Channel<Response, Request> = Channel::new(mio_stream(fd), buf, max);
            ch.interest = session_interest;
            Box::new(Gen { ch, owner: OwnerKind::Sessions, name: "sessions" })
        }
        "simple" => Box::new(Gen::<Request, Response> { ch: Channel::new(mio_stream(fd), buf, max), owner: OwnerKind::Simple, name: "simple" }),
        _ => return None,
    })
}

/// kind of the end that talks to `kind` (same message types, mirrored)
fn peer_kind(kind: &str) -> &'static str {
    match kind { "worker_session" => "worker_loop", "worker_loop" => "worker_session", "sessions" => "simple", _ => "sessions" }
}

// ------------------------------------------------------------------------------ reference model

#[derive(Clone, Debug)]
struct Item { canon: Vec<u8>, end: usize, len: usize, after_err: Option<&'static str> }

/// Reference deframer over the bytes handed to a reader. Policy on error: skip (a reader that
/// closes instead delivers a prefix of `items`). A declared length above max is fatal: nothing
/// after it can be framed.
#[derive(Default)]
struct Deframer {
    pos: usize,
    items: Vec<Item>,
    errors: Vec<(usize, &'static str)>,
    fatal: Option<usize>,
    last_err: Option<&'static str>,
}
impl Deframer {
    fn advance(&mut self, s: &[u8], max: usize, canon: &dyn Fn(&[u8]) -> Option<Vec<u8>>) {
        while self.fatal.is_none() {
            if s.len() - self.pos < 8 { return; }
            let len = u64::from_le_bytes(s[self.pos..self.pos + 8].try_into().unwrap());
            if len < 8 {
                self.errors.push((self.pos, "len_lt8"));
                self.last_err = Some("len_lt8");
                self.pos += 8;
                continue;
            }
            if len > max as u64 {
                self.errors.push((self.pos, "len_gt_max"));
                self.last_err = Some("len_gt_max");
                self.fatal = Some(self.pos);
                return;
            }
            let len = len as usize;
            if s.len() - self.pos < len { return; }
            match canon(&s[self.pos + 8..self.pos + len]) {
                Some(c) => self.items.push(Item { canon: c, end: self.pos + len, len, after_err: self.last_err }),
                None => { self.errors.push((self.pos, "undecodable")); self.last_err = Some("undecodable"); }
            }
            self.pos += len;
        }
    }
}

// ------------------------------------------------------------------------------------ raw helpers

fn inq(fd: i32) -> usize {
    let mut n: i32 = 0;
    let r = unsafe { sc!(libc::SYS_ioctl, fd, libc::FIONREAD, &mut n as *mut i32) };
    if r < 0 { 0 } else { n as usize }
}

fn poll_level(fd: i32) -> Ev {
    let mut p = libc::pollfd { fd, events: libc::POLLIN | libc::POLLOUT | libc::POLLRDHUP, revents: 0 };
    let r = unsafe { sc!(libc::SYS_poll, &mut p as *mut libc::pollfd, 1, 0) };
    if r <= 0 { return Ev { any: true, ..Default::default() }; }
    let has = |f: i16| p.revents & f != 0;
    // mio::sys::unix::selector::epoll::event
    let read_closed = has(libc::POLLHUP) || (has(libc::POLLIN) && has(libc::POLLRDHUP));
    let write_closed = has(libc::POLLHUP) || (has(libc::POLLOUT) && has(libc::POLLERR)) || p.revents == libc::POLLERR;
    Ev { any: true, r: has(libc::POLLIN) || has(libc::POLLPRI), w: has(libc::POLLOUT), hup: read_closed || write_closed, err: has(libc::POLLERR) }
}

fn seg_bytes(seg: &Seg, seq: u32, build_rx: &dyn Fn(u32, usize) -> Vec<u8>) -> Vec<u8> {
    match seg {
        Seg::Valid { len } => frame_of(&build_rx(seq, len.saturating_sub(8))),
        Seg::LenLt8 { v } => v.to_le_bytes().to_vec(),
        Seg::LenGtMax { v, pay } => {
            let mut b = v.to_le_bytes().to_vec();
            b.extend_from_slice(&build_rx(seq, *pay));
            b
        }
        Seg::Undecodable { len, how } => {
            let n = len.saturating_sub(8).max(1);
            let mut p = match how % 4 {
                // field 1, length-delimited, declared longer than what is there
                0 => { let mut p = vec![0x0a, 0x7f]; p.resize(n.max(2), b'x'); if p.len() > 0x7f { p[1] = 0xff; p.insert(2, 0x7f); p.truncate(n.max(3)); } p }
                // wire type 7 does not exist
                1 => { let mut p = vec![0x0f]; p.resize(n, 0x0f); p }
                // string field holding invalid UTF-8
                2 => { let k = n.saturating_sub(2).min(0x7f); let mut p = vec![0x0a, k as u8]; p.resize(2 + k, 0xff); p.resize(n.max(2 + k), 0xff); p }
                // endless varint
                _ => { let mut p = vec![0x08]; p.resize(n.max(12), 0xff); p }
            };
            if p.is_empty() { p.push(0xff); }
            frame_of(&p)
        }
        Seg::Flip { len, bit } => {
            let mut f = frame_of(&build_rx(seq, len.saturating_sub(8)));
            let b = bit % (f.len() * 8);
            f[b / 8] ^= 1 << (b % 8);
            f
        }
        Seg::Trunc { len, cut } => {
            let mut f = frame_of(&build_rx(seq, len.saturating_sub(8)));
            let keep = f.len().saturating_sub(*cut).max(1);
            f.truncate(keep);
            f
        }
        Seg::Garbage { n, g } => {
            let mut v = vec![0u8; *n];
            Prng::derive(*g, "c11/garbage").fill(&mut v);
            v
        }
    }
}

fn seg_name(s: &Seg) -> &'static str {
    match s { Seg::Valid { .. } => "valid", Seg::LenLt8 { .. } => "len_lt8", Seg::LenGtMax { .. } => "len_gt_max", Seg::Undecodable { .. } => "undecodable", Seg::Flip { .. } => "flip", Seg::Trunc { .. } => "trunc", Seg::Garbage { .. } => "garbage" }
}

// ---------------------------------------------------------------------------------------- runner

struct Side {
    end: Option<Box<dyn Endpoint>>,
    kind: String,
    /// relay's descriptor of the pair whose other end is this side's channel
    relay_fd: i32,
    relay_open: bool,
    // writer role
    accepted: usize,
    accepted_bytes: usize,
    wire: Vec<u8>,
    pulled: usize,
    queue: Vec<u8>,
    qoff: usize,
    // reader role
    stream_in: Vec<u8>,
    model: Deframer,
    delivered: usize,
    delivered_end: usize,
    last_err: String,
    terminal: Option<String>,
    // strict event model
    edge: bool,
    seq: u32,
    prev: Obs,
}

struct Sim<'a> {
    p: &'a Plan,
    sides: [Side; 2],
    fault: bool,
    eof_done: bool,
    h: TraceHash,
    v: Vec<Violation>,
    probes: BTreeMap<String, u64>,
    log: Option<Vec<String>>,
    cur: String,
    herr: Option<String>,
    /// segment byte ranges of the raw stream (fault runs)
    seg_ranges: Vec<(usize, usize, &'static str)>,
    raw_stream: Vec<u8>,
}

impl<'a> Sim<'a> {
    fn probe(&mut self, k: &str) { *self.probes.entry(k.to_string()).or_insert(0) += 1; }
    fn probe_n(&mut self, k: &str, n: u64) { if n > 0 { *self.probes.entry(k.to_string()).or_insert(0) += n; } }
    fn viol(&mut self, class: &str, key: String, detail: String) {
        if !self.v.iter().any(|x| x.class == class && x.key == key) {
            let d = format!("{detail} [at op {}]", self.cur);
            self.v.push(Violation::new(class, key, d));
        }
    }
    fn say(&mut self, f: impl FnOnce() -> String) { if let Some(l) = self.log.as_mut() { l.push(f()); } }
    fn mix_res<T: Debug>(&mut self, r: &Result<T, String>) {
        match r {
            Ok(x) => { self.h.mix(1); self.h.mix_bytes(format!("{x:?}").as_bytes()); }
            Err(e) => { self.h.mix(2); self.h.mix_bytes(e.as_bytes()); }
        }
    }

    /// bytes the writer on side s has handed to the kernel so far
    fn flushed(&self, s: usize) -> usize { self.sides[s].pulled + if self.sides[s].relay_open { inq(self.sides[s].relay_fd) } else { 0 } }
    /// bytes the reader on side s has taken out of the kernel so far
    fn rcvd(&self, s: usize) -> usize {
        let fd = match &self.sides[s].end { Some(e) => e.fd(), None => return self.sides[s].stream_in.len() };
        self.sides[s].stream_in.len() - inq(fd)
    }

    fn relay_pull(&mut self, d: usize, k: usize) -> usize {
        if self.fault && d == 0 { return 0; }
        if !self.sides[d].relay_open { return 0; }
        let fd = self.sides[d].relay_fd;
        let mut total = 0;
        let mut buf = vec![0u8; if k == 0 { 65536 } else { k.min(65536) }];
        loop {
            let want = if k == 0 { buf.len() } else { (k - total).min(buf.len()) };
            if want == 0 { break; }
            match sys::read(fd, &mut buf[..want]) {
                Ok(0) => break,
                Ok(n) => {
                    let side = &mut self.sides[d];
                    let exp_end = (side.pulled + n).min(side.wire.len());
                    let ok = side.pulled + n <= side.wire.len() && side.wire[side.pulled..exp_end] == buf[..n];
                    if !ok {
                        let first_bad = (0..n).find(|i| side.wire.get(side.pulled + i) != Some(&buf[*i])).unwrap_or(0);
                        let at = side.pulled + first_bad;
                        let kind = side.kind.clone();
                        self.viol("wire_corrupt", format!("{kind}"), format!("bytes written by side {d} differ from the accepted frames at stream offset {at}"));
                    }
                    let side = &mut self.sides[d];
                    side.pulled += n;
                    side.queue.extend_from_slice(&buf[..n]);
                    total += n;
                    self.sides[d].edge = true; // write space appeared for the writer
                }
                Err(_) => break,
            }
        }
        total
    }

    fn relay_push(&mut self, d: usize, k: usize) -> usize {
        let r = 1 - d;
        if !self.sides[r].relay_open { return 0; }
        let fd = self.sides[r].relay_fd;
        let avail = self.sides[d].queue.len() - self.sides[d].qoff;
        let want = if k == 0 { avail } else { k.min(avail) };
        let mut total = 0;
        while total < want {
            let off = self.sides[d].qoff;
            let chunk = (want - total).min(65536);
            match sys::write(fd, &self.sides[d].queue[off..off + chunk]) {
                Ok(0) => break,
                Ok(n) => {
                    let bytes: Vec<u8> = self.sides[d].queue[off..off + n].to_vec();
                    self.sides[d].qoff += n;
                    self.sides[r].stream_in.extend_from_slice(&bytes);
                    total += n;
                    self.sides[r].edge = true;
                }
                Err(_) => break,
            }
        }
        if self.sides[d].qoff > 1 << 20 { let o = self.sides[d].qoff; self.sides[d].queue.drain(..o); self.sides[d].qoff = 0; }
        if total > 0 { advance_model(&mut self.sides[r], self.p.max as usize); }
        total
    }

    fn deliver(&mut self, s: usize, m: Vec<u8>) {
        let rc = self.rcvd(s);
        let side = &mut self.sides[s];
        let idx = side.delivered;
        match side.model.items.get(idx) {
            Some(it) if it.canon == m => {
                if it.end > rc {
                    let (e, k) = (it.end, side.kind.clone());
                    self.viol("phantom_message", k, format!("side {s} delivered message #{idx} whose frame ends at stream offset {e} but only {rc} bytes left the kernel"));
                }
                let side = &mut self.sides[s];
                side.delivered_end = side.model.items[idx].end;
                side.delivered += 1;
                self.probe("delivered");
            }
            other => {
                let after = other.and_then(|i| i.after_err).unwrap_or("none");
                let what = if side.model.items[..idx.min(side.model.items.len())].iter().any(|i| i.canon == m) { "duplicate" } else if side.model.items.iter().skip(idx).any(|i| i.canon == m) { "skipped_or_reordered" } else { "altered" };
                let k = side.kind.clone();
                let fam = if self.fault { format!("after_{after}") } else { "plain".to_string() };
                self.viol("wrong_delivery", format!("{what}|{fam}|{k}"), format!("side {s} delivered as message #{idx} a {}-byte message that is not the next one of the sent sequence ({what}); model has {} deliverable", m.len(), self.sides[s].model.items.len()));
                // resynchronise the comparison so one fault is reported once
                let side = &mut self.sides[s];
                if let Some(j) = side.model.items.iter().skip(idx).position(|i| i.canon == m) { side.delivered = idx + j + 1; side.delivered_end = side.model.items[idx + j].end; }
            }
        }
    }

    fn note_err(&mut self, s: usize, e: &str) {
        if e != "NothingRead" && e != "Connection" { self.sides[s].last_err = e.to_string(); }
        self.probe(&format!("err_{e}"));
    }

    fn after_owner(&mut self, s: usize, out: OwnerOut) -> usize {
        let n = out.delivered.len();
        self.h.mix(0xD0 + s as u64);
        self.h.mix(n as u64);
        for e in &out.errs { self.h.mix_bytes(e.as_bytes()); }
        for e in &out.errs { self.note_err(s, e); }
        for m in out.delivered { self.h.mix_bytes(&m[..m.len().min(32)]); self.deliver(s, m); }
        if out.spin {
            let k = self.sides[s].kind.clone();
            self.viol("owner_spin", k, format!("the owner loop of side {s} did not terminate within {SPIN_LIMIT} iterations"));
        }
        if let Some(t) = out.terminal {
            self.h.mix(0x7E);
            self.probe("owner_terminal");
            self.say(|| format!("    side {s} owner terminal: {t}"));
            self.sides[s].terminal = Some(t);
            // the owner drops the channel: the socket closes
            self.sides[s].end = None;
            self.sides[1 - s].edge = true;
        }
        n
    }

    /// name of the loop that drives side s in this plan
    fn owner_name(&self, s: usize) -> String { if self.p.strict { self.sides[s].kind.clone() } else { "simple".to_string() } }
    fn turn(&mut self, s: usize, ev: Ev) -> OwnerOut {
        let strict = self.p.strict;
        let e = self.sides[s].end.as_mut().unwrap();
        if strict { e.owner(ev) } else { e.api_turn(ev) }
    }

    fn strict_ev(&mut self, s: usize) -> Ev {
        if !self.sides[s].edge { return Ev::default(); }
        self.sides[s].edge = false;
        match &self.sides[s].end { Some(e) => poll_level(e.fd()), None => Ev::default() }
    }

    fn generous_ev(&mut self, s: usize) -> Ev {
        self.sides[s].edge = false;
        match &self.sides[s].end { Some(e) => { let l = poll_level(e.fd()); Ev { any: true, r: true, w: true, hup: l.hup, err: l.err } } None => Ev::default() }
    }

    fn check(&mut self) {
        let max = self.p.max as usize;
        for s in 0..2 {
            let Some(e) = self.sides[s].end.as_ref() else { continue };
            // an injected EAGAIN / short write is only legal if a writable event follows
            let fd = e.fd();
            if crate::world::with_world(|w| w.rearm.remove(&fd).is_some()).unwrap_or(false) { self.sides[s].edge = true; }
            let o = e.obs();
            let prev = self.sides[s].prev;
            self.h.mix(o.fcap as u64); self.h.mix(o.fdata as u64); self.h.mix(o.bcap as u64); self.h.mix(o.bdata as u64);
            self.h.mix(((o.interest as u64) << 16) | o.readiness as u64);
            if o.fcap > prev.fcap { self.probe("front_grow"); }
            if o.fcap < prev.fcap { self.probe("front_shrink"); }
            if o.bcap > prev.bcap { self.probe("back_grow"); }
            if o.bcap < prev.bcap { self.probe("back_shrink"); }
            if o.fcap == max && prev.fcap != max { self.probe("front_at_max"); }
            if o.bcap == max && prev.bcap != max { self.probe("back_at_max"); }
            self.sides[s].prev = o;
            let kind = self.sides[s].kind.clone();
            if o.fcap > max { self.viol("over_cap", format!("front|{kind}"), format!("side {s} front buffer capacity {} > max_buffer_size {max}", o.fcap)); }
            if o.bcap > max { self.viol("over_cap", format!("back|{kind}"), format!("side {s} back buffer capacity {} > max_buffer_size {max}", o.bcap)); }
            if o.fdata > o.fcap || o.bdata > o.bcap { self.viol("over_cap", format!("data|{kind}"), format!("side {s} buffered data exceeds capacity: {o:?}")); }
            // byte conservation, measured at the kernel
            let fl = self.flushed(s);
            let want_b = self.sides[s].accepted_bytes as i64 - fl as i64;
            if want_b != o.bdata as i64 {
                self.viol("byte_accounting", format!("back|{kind}"), format!("side {s}: accepted {} bytes, kernel received {fl}, so {want_b} must be pending, but back_buf holds {}", self.sides[s].accepted_bytes, o.bdata));
            }
            let rc = self.rcvd(s);
            let held = rc as i64 - self.sides[s].delivered_end as i64;
            if !self.fault {
                if held != o.fdata as i64 {
                    self.viol("byte_accounting", format!("front|{kind}"), format!("side {s}: {rc} bytes left the kernel, delivered frames end at {}, so {held} must be buffered, but front_buf holds {}", self.sides[s].delivered_end, o.fdata));
                }
            } else if (o.fdata as i64) > held {
                self.viol("byte_accounting", format!("front|{kind}"), format!("side {s}: front_buf holds {} bytes but only {held} undelivered bytes left the kernel", o.fdata));
            }
        }
    }

    fn op(&mut self, op: &Op) {
        let max = self.p.max as usize;
        match op {
            Op::W { s, len } => {
                let s = *s as usize;
                let Some(e) = self.sides[s].end.as_ref() else { return };
                let seq = self.sides[s].seq;
                let payload = e.build_tx(seq, len.saturating_sub(8));
                let l = payload.len() + 8;
                let pending = self.sides[s].accepted_bytes.saturating_sub(self.flushed(s));
                let expect_ok = pending + l <= max;
                let r = self.sides[s].end.as_mut().unwrap().write(&payload);
                self.h.mix(0x10 + s as u64); self.h.mix(l as u64);
                self.mix_res(&r);
                self.say(|| format!("  W side {s} frame {l} (pending {pending}) -> {r:?}"));
                self.sides[s].seq += 1;
                if l == max { self.probe("write_len_eq_max"); }
                if l == max + 1 { self.probe("write_len_eq_max_plus_1"); }
                if l + 8 == max { self.probe("write_len_eq_max_minus_8"); }
                let kind = self.sides[s].kind.clone();
                match (&r, expect_ok) {
                    (Ok(()), true) => {
                        let side = &mut self.sides[s];
                        side.accepted += 1; side.accepted_bytes += l;
                        side.wire.extend_from_slice(&frame_of(&payload));
                        self.probe("write_ok");
                        if pending > 0 { self.probe("write_ok_while_pending"); }
                    }
                    (Err(e), false) => {
                        let e = e.clone();
                        self.probe(if l > max { "write_refused_frame_gt_max" } else { "write_refused_backlog" });
                        self.probe(&format!("write_err_{e}"));
                    }
                    (Ok(()), false) => {
                        self.viol("write_accepted_over_cap", format!("{}|{kind}", if l > max { "frame_gt_max" } else { "backlog" }), format!("side {s}: write_message of a {l}-byte frame with {pending} bytes pending returned Ok although {pending}+{l} > max {max}"));
                        let side = &mut self.sides[s];
                        side.accepted += 1; side.accepted_bytes += l;
                        side.wire.extend_from_slice(&frame_of(&payload));
                    }
                    (Err(e), true) => {
                        let e = e.clone();
                        self.viol("write_refused", format!("{e}|{}|{kind}", if pending == 0 { "empty" } else { "backlog" }), format!("side {s}: write_message of a {l}-byte frame with {pending} bytes pending returned Err({e}) although {pending}+{l} <= max {max}"));
                    }
                }
            }
            Op::Ev { s, bits } => {
                let s = *s as usize;
                if let Some(e) = self.sides[s].end.as_mut() { e.events(*bits & 3); }
                self.h.mix(0x20 + s as u64); self.h.mix(*bits as u64);
            }
            Op::Rd { s } => {
                let s = *s as usize;
                if self.sides[s].end.is_none() { return; }
                let before = self.rcvd(s);
                let r = self.sides[s].end.as_mut().unwrap().readable();
                let after = self.rcvd(s);
                self.h.mix(0x30 + s as u64); self.mix_res(&r);
                self.say(|| format!("  Rd side {s} -> {r:?} (kernel gave {})", after - before));
                match &r {
                    Ok(n) => if *n != after - before {
                        let kind = self.sides[s].kind.clone();
                        self.viol("byte_accounting", format!("readable_count|{kind}"), format!("side {s}: readable() returned Ok({n}) but {} bytes left the kernel", after - before));
                    },
                    Err(e) => { let e = e.clone(); self.note_err(s, &e); }
                }
            }
            Op::Wr { s } => {
                let s = *s as usize;
                if self.sides[s].end.is_none() { return; }
                self.sides[s].end.as_mut().unwrap().events(2);
                let before = self.flushed(s);
                let r = self.sides[s].end.as_mut().unwrap().writable();
                let after = self.flushed(s);
                self.h.mix(0x40 + s as u64); self.mix_res(&r);
                self.say(|| format!("  Wr side {s} -> {r:?} (kernel took {})", after - before));
                match &r {
                    Ok(n) => if *n != after - before {
                        let kind = self.sides[s].kind.clone();
                        self.viol("byte_accounting", format!("writable_count|{kind}"), format!("side {s}: writable() returned Ok({n}) but the kernel received {} bytes", after - before));
                    },
                    Err(e) => { let e = e.clone(); self.note_err(s, &e); }
                }
            }
            Op::Run { s } => {
                let s = *s as usize;
                if self.sides[s].end.is_none() { return; }
                self.sides[s].end.as_mut().unwrap().events(3);
                let r = self.sides[s].end.as_mut().unwrap().run();
                self.h.mix(0x50 + s as u64); self.mix_res(&r);
                self.say(|| format!("  Run side {s} -> {r:?}"));
                if let Err(e) = &r { let e = e.clone(); self.note_err(s, &e); }
            }
            Op::Rm { s, n } => {
                let s = *s as usize;
                for _ in 0..*n {
                    if self.sides[s].end.is_none() { return; }
                    let r = self.sides[s].end.as_mut().unwrap().read();
                    self.h.mix(0x60 + s as u64);
                    self.say(|| format!("  Rm side {s} -> {}", match &r { Ok(m) => format!("Ok({} bytes)", m.len()), Err(e) => format!("Err({e})") }));
                    match r {
                        Ok(m) => { self.h.mix_bytes(&m[..m.len().min(32)]); self.deliver(s, m); }
                        Err(e) => { self.h.mix_bytes(e.as_bytes()); self.note_err(s, &e); break; }
                    }
                }
            }
            Op::Own { s } => {
                let s = *s as usize;
                if self.sides[s].end.is_none() { return; }
                let ev = if self.p.strict { self.strict_ev(s) } else { self.generous_ev(s) };
                let out = self.turn(s, ev);
                self.say(|| format!("  Own side {s} ev={ev:?} -> delivered {} errs {:?} terminal {:?}", out.delivered.len(), out.errs, out.terminal));
                self.after_owner(s, out);
            }
            Op::Pull { d, k } => {
                let n = self.relay_pull(*d as usize, *k);
                self.h.mix(0x70 + *d as u64); self.h.mix(n as u64);
                self.say(|| format!("  Pull dir {d} k={k} -> {n}"));
                self.probe_n("relay_bytes", n as u64);
            }
            Op::Push { d, k } => {
                let d = *d as usize;
                let before = self.sides[1 - d].stream_in.len();
                let n = self.relay_push(d, *k);
                self.h.mix(0x80 + d as u64); self.h.mix(n as u64);
                self.say(|| format!("  Push dir {d} k={k} -> {n} (stream offset {})", before + n));
                if n > 0 {
                    // where does this cut fall relative to frame boundaries of the reference stream?
                    let cut = before + n;
                    let m = &self.sides[1 - d].model;
                    let in_prefix = cut > m.pos && cut < m.pos + 8;
                    let in_payload = cut >= m.pos + 8;
                    if in_prefix { self.probe("split_inside_prefix"); } else if in_payload { self.probe("split_inside_payload"); } else { self.probe("split_at_boundary"); }
                }
            }
            Op::Eof => {
                if self.fault && self.sides[1].relay_open {
                    self.relay_pull(1, 0);
                    sys::close(self.sides[1].relay_fd);
                    self.sides[1].relay_open = false;
                    self.sides[1].edge = true;
                    self.eof_done = true;
                    self.h.mix(0x90);
                    let off = self.sides[1].stream_in.len();
                    self.say(|| format!("  Eof at stream offset {off}"));
                    self.probe("eof");
                }
            }
        }
    }

    fn snapshot(&self) -> (usize, usize, usize, usize, usize, usize) {
        (self.flushed(0), self.flushed(1), self.rcvd(0), self.rcvd(1), self.sides[0].delivered, self.sides[1].delivered)
    }

    /// Let the system run to quiescence: relay moves everything, owners take turns.
    fn drain(&mut self, strict: bool, max_rounds: u32) {
        let mut idle = 0;
        for round in 0..max_rounds {
            let before = self.snapshot();
            let mut moved = 0;
            for d in 0..2 {
                moved += self.relay_pull(d, 0);
                if !self.eof_done || d != 0 { moved += self.relay_push(d, 0); }
            }
            let mut terminals = 0;
            for s in 0..2 {
                if self.sides[s].end.is_none() { continue; }
                let ev = if strict { self.strict_ev(s) } else { self.generous_ev(s) };
                self.cur = format!("drain[{}{round}] owner {s}", if strict { "strict " } else { "generous " });
                let out = self.turn(s, ev);
                self.say(|| format!("  drain {} round {round}: side {s} ev={ev:?} -> delivered {} errs {:?} terminal {:?}", if strict { "strict" } else { "generous" }, out.delivered.len(), out.errs, out.terminal));
                if out.terminal.is_some() { terminals += 1; }
                self.after_owner(s, out);
                self.check();
            }
            self.h.mix(0xA0); self.h.mix(moved as u64);
            let edges = (0..2).any(|s| self.sides[s].end.is_some() && self.sides[s].edge);
            let progressed = moved > 0 || terminals > 0 || edges || self.snapshot() != before;
            if progressed { idle = 0; } else { idle += 1; }
            if idle >= if strict { 2 } else { 4 } { break; }
        }
    }

    /// declared length of the frame at the head of reader r's front buffer
    fn head_len(&self, r: usize) -> Option<u64> {
        let e = self.sides[r].end.as_deref()?;
        let head = self.rcvd(r) - e.obs().fdata;
        self.sides[r].stream_in.get(head..head + 8).map(|b| u64::from_le_bytes(b.try_into().unwrap()))
    }

    /// How far reader r is behind what was sent to it: None when everything deliverable was
    /// delivered. The reference deframer runs over the *whole* destined stream (all accepted
    /// frames of the peer, or the raw stream up to EOF), not only over what the relay could push.
    fn lag(&self, r: usize) -> Option<Lag> {
        let w = 1 - r;
        let e = self.sides[r].end.as_deref()?;
        let destined: &[u8] = if self.fault {
            if r != 1 { return None; }
            if self.eof_done { &self.sides[r].stream_in } else { &self.raw_stream }
        } else {
            &self.sides[w].wire
        };
        let mut full = Deframer::default();
        full.advance(destined, self.p.max as usize, &|b| e.rx_canon(b));
        let delivered = self.sides[r].delivered;
        if full.items.len() <= delivered { return None; }
        let owed = full.items.len() - delivered;
        let after = full.items[delivered].after_err.unwrap_or("none");
        let in_kernel = inq(e.fd());
        let rc = self.rcvd(r);
        let writer_alive = self.sides[w].end.is_some();
        let (acc, fl) = if self.fault { (0, 0) } else { (self.sides[w].accepted_bytes, self.flushed(w)) };
        // the writer is to blame only if nothing it flushed is still waiting for the reader
        let writer_stuck = !self.fault && writer_alive && acc > fl && fl == rc;
        // declared length of the frame at the head of the reader's front buffer
        let head = rc - e.obs().fdata;
        let head_len = destined.get(head..head + 8).map(|b| u64::from_le_bytes(b.try_into().unwrap()));
        let head_ok = full.items.iter().any(|i| i.end - i.len == head);
        Some(Lag { owed, first: delivered, after, in_kernel, writer_stuck, next_len: full.items[delivered].len, head_len, head_ok })
    }
}

#[derive(Clone, Debug)]
struct Lag { owed: usize, first: usize, after: &'static str, in_kernel: usize, writer_stuck: bool, next_len: usize, head_len: Option<u64>, head_ok: bool }

fn advance_model(side: &mut Side, max: usize) {
    let Side { end, stream_in, model, .. } = side;
    if let Some(e) = end.as_deref() { model.advance(stream_in, max, &|b| e.rx_canon(b)); }
}

fn sockpair(sndbuf: i32) -> (i32, i32) {
    let (a, b) = sys::socketpair(libc::AF_UNIX, libc::SOCK_STREAM | libc::SOCK_NONBLOCK | libc::SOCK_CLOEXEC).expect("socketpair");
    if sndbuf > 0 {
        let _ = sys::setsockopt_int(a, libc::SOL_SOCKET, libc::SO_SNDBUF, sndbuf);
        let _ = sys::setsockopt_int(b, libc::SOL_SOCKET, libc::SO_SNDBUF, sndbuf);
    }
    (a, b)
}

pub fn execute(p: &Plan, verbose: bool) -> (RunReport, Vec<String>) {
    let mut rep = RunReport { seed: p.seed, family: p.family.clone(), summary: summarize(p), ..Default::default() };
    let fault = p.ends[0] == "raw";
    let cfg = SchedCfg { short_write_pm: p.short_pm, eagain_pm: p.eagain_pm, ..SchedCfg::default() };
    let mut world = World::new(p.seed ^ 0xC11, cfg);
    World::install(&mut world);

    let (a0, a1) = if fault { (-1, -1) } else { sockpair(p.sndbuf) };
    let (b0, b1) = sockpair(p.sndbuf);
    let mk_side = |kind: &str, fd: i32, relay_fd: i32, buf: u64| -> Side {
        let end = if fd >= 0 { make_end(kind, fd, buf, p.max) } else { None };
        let prev = end.as_ref().map(|e| e.obs()).unwrap_or_default();
        Side {
            end, kind: kind.to_string(), relay_fd, relay_open: relay_fd >= 0,
            accepted: 0, accepted_bytes: 0, wire: Vec::new(), pulled: 0, queue: Vec::new(), qoff: 0,
            stream_in: Vec::new(), model: Deframer::default(), delivered: 0, delivered_end: 0, last_err: "none".into(), terminal: None,
            edge: true, seq: 0, prev,
        }
    };
    let sides = [mk_side(&p.ends[0], a0, a1, p.buf[0]), mk_side(&p.ends[1], b0, b1, p.buf[1])];
    let mut sim = Sim { p, sides, fault, eof_done: false, h: TraceHash::new(), v: Vec::new(), probes: BTreeMap::new(), log: if verbose { Some(Vec::new()) } else { None }, cur: String::new(), herr: None, seg_ranges: Vec::new(), raw_stream: Vec::new() };
    for s in 0..2 {
        if let Some(e) = sim.sides[s].end.as_ref() {
            let fd = e.fd();
            world.sozu_fds.insert(fd, 'c');
        } else if !(fault && s == 0) {
            sim.herr = Some(format!("unknown endpoint kind {:?}", p.ends[s]));
        }
    }
    if fault && sim.herr.is_none() {
        // preload relay queue 0 with the raw stream
        let mut stream = Vec::new();
        let mut ranges = Vec::new();
        {
            let e = sim.sides[1].end.as_deref().unwrap();
            for (i, seg) in p.segs.iter().enumerate() {
                let bytes = seg_bytes(seg, i as u32, &|seq, n| e.build_rx(seq, n));
                ranges.push((stream.len(), stream.len() + bytes.len(), seg_name(seg)));
                stream.extend_from_slice(&bytes);
            }
        }
        for (_, _, n) in &ranges { sim.probe(&format!("seg_{n}")); }
        sim.seg_ranges = ranges;
        sim.h.mix_bytes(&stream);
        sim.raw_stream = stream.clone();
        sim.sides[0].queue = stream;
    }

    for x in [p.buf[0], p.buf[1], p.max, p.sndbuf as u64, p.strict as u64] { sim.h.mix(x); }
    for k in &p.ends { sim.h.mix_bytes(k.as_bytes()); }
    if sim.herr.is_none() {
        // a panic is a verdict, reported through the RunReport: keep it off stderr (the batch driver
        // only drains a worker's stderr after it exits, so a chatty worker would block on the pipe)
        let hook = std::panic::take_hook();
        std::panic::set_hook(Box::new(|_| {}));
        let r = catch_unwind(AssertUnwindSafe(|| {
            for (i, op) in p.ops.iter().enumerate() {
                sim.cur = format!("#{i} {op:?}");
                sim.op(op);
                sim.check();
            }
            sim.cur = "drain".into();
            verdict(&mut sim);
        }));
        std::panic::set_hook(hook);
        if let Err(pn) = r {
            let msg = if let Some(s) = pn.downcast_ref::<&str>() { s.to_string() } else if let Some(s) = pn.downcast_ref::<String>() { s.clone() } else { "panic".into() };
            let opk = sim.cur.split_whitespace().nth(1).unwrap_or("drain").split(|c: char| !c.is_alphanumeric()).next().unwrap_or("").to_string();
            // normalise: numbers out, so that one defect is one key
            let mut site = String::new();
            for c in msg.split(|c: char| c == ':' || c == '(').next().unwrap_or("").trim().chars() {
                if c.is_ascii_digit() { if !site.ends_with('N') { site.push('N'); } } else { site.push(c); }
            }
            let site: String = site.chars().take(48).collect();
            let cur = sim.cur.clone();
            sim.v.push(Violation::new("panic", format!("{}|{site}", if fault { "fault" } else { "plain" }), format!("panic during {cur} ({opk}): {msg}")));
        }
    }

    // tear down: drop the channels (closes a0/b0), close relay descriptors
    let mut probes = std::mem::take(&mut sim.probes);
    let nontrivial = if fault { !sim.sides[1].model.errors.is_empty() || sim.sides[1].delivered > 0 } else { sim.sides[0].delivered + sim.sides[1].delivered > 0 };
    for s in 0..2 {
        sim.sides[s].end = None;
        if sim.sides[s].relay_open { sys::close(sim.sides[s].relay_fd); sim.sides[s].relay_open = false; }
    }
    sim.h.mix(world.trace.0);
    World::uninstall();
    probes.insert("sozu_partial_writes".into(), world.stats.sozu_partial_writes);
    probes.insert("sozu_write_eagain".into(), world.stats.sozu_write_eagain);
    probes.insert("sozu_reads_filling_buffer".into(), world.stats.sozu_read_full);
    probes.insert("short_writes_injected".into(), world.stats.short_writes_injected);
    probes.insert("eagain_injected".into(), world.stats.eagain_injected);
    probes.retain(|_, v| *v > 0);
    rep.stats = world.stats.clone();
    rep.violations = std::mem::take(&mut sim.v);
    rep.trace_hash = sim.h.0;
    rep.nontrivial = nontrivial;
    rep.probes = probes;
    rep.harness_error = sim.herr.take();
    (rep, sim.log.take().unwrap_or_default())
}

/// End of run: run to quiescence under the owners' loops and judge delivery / liveness.
fn verdict(sim: &mut Sim) {
    let strict = sim.p.strict;
    let max = sim.p.max;
    let mut stalled: [Option<Lag>; 2] = [None, None];
    let mut eof_pending = false;
    if strict {
        sim.drain(true, 4000);
        for r in 0..2 { stalled[r] = sim.lag(r); }
        eof_pending = sim.eof_done && sim.sides[1].end.is_some();
    }
    sim.drain(false, 4000);
    sim.cur = "verdict".into();
    for r in 0..2 {
        if sim.sides[r].end.is_none() { continue; }
        let w = 1 - r;
        let owner = sim.owner_name(r);
        let wowner = sim.owner_name(w);
        let errs = sim.sides[r].last_err.clone();
        let o = sim.sides[r].end.as_ref().map(|e| e.obs()).unwrap_or_default();
        let now = sim.lag(r);
        let probe_of = |sim: &mut Sim| match sim.sides[r].end.as_mut().unwrap().read() { Ok(_) => "Ok".to_string(), Err(e) => e };
        let cause_of = |probe: &str, after: &str, head_len: Option<u64>, head_ok: bool| -> String {
            match probe {
                // the channel rejects a frame that the reference model delivers
                "InvalidProtobufMessage" | "MessageTooLarge" | "MessageLengthUnderDelimiter" if head_ok => format!("well_formed_frame_rejected/{probe}"),
                "InvalidProtobufMessage" => "undecodable".to_string(),
                "MessageTooLarge" => "len_gt_max".to_string(),
                "BufferFull" if head_len.map_or(false, |l| l >= 8 && l <= max) => "false_buffer_full".to_string(),
                // the channel would hand the frame out (or is merely waiting): the owner never asks
                "Ok" | "NothingRead" => format!("owner_never_reads/after_{}", if errs == "none" { after } else { errs.as_str() }),
                other => format!("{after}/{other}"),
            }
        };
        // ---- a declared length above max: nothing behind it can be framed; the only correct end is a close
        if let (Some(fpos), true) = (sim.sides[r].model.fatal, now.is_none()) {
            let pushed = sim.sides[r].stream_in.len();
            let valid_behind = sim.seg_ranges.iter().filter(|(a, b, n)| *n == "valid" && *a > fpos && *b <= pushed).count();
            if valid_behind > 0 {
                let probe = probe_of(sim);
                let hl = sim.head_len(r);
                let cause = cause_of(&probe, "len_gt_max", hl, false);
                sim.viol("wedge", format!("{cause}|{owner}"), format!("a frame declaring a length above max_buffer_size ({max}) was followed by {valid_behind} well-formed frame(s); after quiescence plus extra readable/writable events the owner '{owner}' neither delivered them nor closed the channel; read_message keeps returning {probe} (channel state {o:?})"));
            }
        }
        match (now, stalled[r].clone()) {
            (Some(l), _) if l.writer_stuck => {
                let ow = sim.sides[w].end.as_ref().map(|e| e.obs()).unwrap_or_default();
                let werr = sim.sides[w].last_err.clone();
                sim.viol("wedge", format!("writer_stuck|{wowner}"), format!("side {w} ('{wowner}'): accepted frames never reached the wire although the peer had consumed everything flushed so far, even after extra writable events ({} accepted bytes, {} flushed; last error: {werr}; channel state {ow:?})", sim.sides[w].accepted_bytes, sim.flushed(w)));
            }
            (Some(l), _) => {
                // what does the channel itself say now?
                let probe = probe_of(sim);
                let cause = cause_of(&probe, l.after, l.head_len, l.head_ok);
                sim.viol("wedge", format!("{cause}|{owner}"), format!("side {r} ('{owner}'): {} well-formed frame(s) sent to it were never delivered and the owner did not close the channel, even after extra readable/writable events. First missing: message #{} ({} bytes, max {max}); malformed frame kind before it: '{}'; declared length at the head of front_buf: {:?}; read_message now returns {probe}; last error seen by the owner: {errs}; {} bytes left unread in the kernel; channel state {o:?}", l.owed, l.first, l.next_len, l.after, l.head_len, l.in_kernel));
            }
            (None, Some(l)) if l.writer_stuck => {
                sim.viol("stall_until_next_event", format!("writer|{wowner}"), format!("side {w} ('{wowner}'): accepted frames stayed in the back buffer although the socket had room; they left only after writable events that an edge-triggered poller does not generate"));
            }
            (None, Some(l)) => {
                let key = if l.in_kernel > 0 { format!("left_in_kernel|{owner}") } else { format!("left_in_front_buf|{}|{owner}", l.after) };
                sim.viol("stall_until_next_event", key, format!("side {r} ('{owner}'): {} well-formed frame(s) were completely available ({} bytes still unread in the kernel, the rest in front_buf) but the owner went back to waiting without delivering them (first missing: message #{}, malformed frame kind before it: '{}'); they came out only after readiness events that an edge-triggered poller does not generate without new traffic", l.owed, l.in_kernel, l.first, l.after));
            }
            (None, None) => {}
        }
    }
    // ---- EOF must surface
    if sim.eof_done {
        let owner = sim.owner_name(1);
        if sim.sides[1].end.is_some() {
            sim.viol("eof_not_surfaced", owner.clone(), format!("the peer closed the socket but the owner '{owner}' never reached a terminal state, even with repeated hang-up events"));
        } else if eof_pending {
            sim.viol("eof_missed_until_next_event", owner.clone(), format!("the peer closed the socket; the owner '{owner}' consumed the hang-up event without closing the session and would only close on a further event, which an edge-triggered poller does not generate"));
        }
    }
}

// ------------------------------------------------------------------------------------ generation

fn pick_sizes(rng: &mut Prng) -> ([u64; 2], u64) {
    let buf = *rng.pick(&[16u64, 24, 32, 48, 64, 64, 100, 128, 256, 512, 1000, 1024, 2048, 4096]);
    let max = match rng.below(7) {
        0 => buf,
        1 => buf * 2,
        2 => buf * 2 + rng.below(buf),
        3 => buf * 4,
        4 => (*rng.pick(&[256u64, 1000, 4096, 16384, 65536])).max(buf),
        5 => buf + rng.below(buf),
        _ => buf * *rng.pick(&[3u64, 8, 16]),
    }
    .min(65536)
    .max(buf)
    .max(24);
    let buf1 = if rng.chance(1, 3) { (*rng.pick(&[16u64, 32, 64, 128, 1024, 4096])).min(max) } else { buf };
    ([buf, buf1], max)
}

fn pick_len(rng: &mut Prng, buf: u64, max: u64) -> usize {
    let l = match rng.below(13) {
        0..=3 => rng.range(8, 40),
        4 => buf.saturating_sub(9) + rng.below(19),
        5 => (2 * buf).saturating_sub(9) + rng.below(19),
        6 => max - 8,
        7 => max,
        8 => max + 1,
        9 => if rng.chance(1, 2) { max - rng.below(8.min(max - 8)) } else { max + rng.below(16) },
        10 => rng.range(8, max),
        11 => (max / 2).saturating_sub(4) + rng.below(16),
        _ => rng.range(8, buf.max(9)),
    };
    l.clamp(8, max + 64) as usize
}

fn quantum(rng: &mut Prng, style: u64, buf: u64, hint: u64) -> usize {
    let style = if style == 5 { rng.below(5) } else { style };
    (match style {
        0 => 1,
        1 => rng.range(1, 16),
        2 => buf.saturating_sub(8) + rng.below(17),
        3 => rng.range(1, hint.max(2)),
        _ => 0,
    }) as usize
}

fn gen_plain(seed: u64, rng: &mut Prng, tier: Tier, stall: bool) -> Plan {
    let pair = if rng.chance(1, 2) { ["worker_session", "worker_loop"] } else { ["sessions", "simple"] };
    let (buf, max) = pick_sizes(rng);
    let strict = rng.chance(1, 2);
    let sndbuf = if stall { 4608 } else { *rng.pick(&[0i32, 0, 4608, 4608, 9216, 32768]) };
    let buggify = rng.chance(1, 2);
    let short_pm = if buggify { *rng.pick(&[0u32, 100, 300, 600]) } else { 0 };
    let eagain_pm = if buggify { *rng.pick(&[0u32, 50, 150, 300]) } else { 0 };
    let n_ops = match tier { Tier::Quick => rng.range(6, 48), Tier::Thorough => rng.range(6, 90) } as usize;
    let qstyle = rng.below(6);
    let size_style = rng.below(3); // 0 many small + one huge, 1 mixed, 2 large
    let w_write = *rng.pick(&[2u64, 4, 8]);
    let w_flush = *rng.pick(&[1u64, 3, 6]);
    let w_relay = *rng.pick(&[2u64, 4, 8]);
    let w_read = if stall { 0 } else { *rng.pick(&[1u64, 3, 6]) };
    let dir_bias = rng.below(3); // 0 both, 1 only side 0 writes, 2 only side 1 writes
    let huge_at = rng.below(n_ops as u64) as usize;
    let mut ops = Vec::new();
    let total_w = w_write + w_flush + w_relay + w_read;
    for i in 0..n_ops {
        let side = match dir_bias { 1 => 0, 2 => 1, _ => rng.below(2) } as u8;
        let side = if stall { 0 } else { side };
        let x = rng.below(total_w);
        if x < w_write || (size_style == 0 && i == huge_at) {
            let len = match size_style {
                0 => if i == huge_at { *rng.pick(&[max - 8, max, max + 1, max - 1, max / 2 + 1]) as usize } else { rng.range(8, 40) as usize },
                2 => rng.range(max / 3, max) as usize,
                _ => pick_len(rng, buf[side as usize], max),
            };
            ops.push(Op::W { s: side, len: len.max(8) });
        } else if x < w_write + w_flush {
            let s = rng.below(2) as u8;
            let s = if stall { 0 } else { s };
            ops.push(if strict { Op::Own { s } } else if rng.chance(1, 2) { Op::Wr { s } } else { Op::Run { s } });
        } else if x < w_write + w_flush + w_relay {
            let d = rng.below(2) as u8;
            if stall && d == 0 && rng.chance(3, 4) { continue; }
            let k = quantum(rng, qstyle, buf[1 - d as usize], max);
            if rng.chance(1, 2) { ops.push(Op::Pull { d, k: if rng.chance(2, 3) { 0 } else { k } }); }
            ops.push(Op::Push { d, k });
        } else {
            let s = rng.below(2) as u8;
            if strict { ops.push(Op::Own { s }); } else {
                match rng.below(6) {
                    0 => ops.push(Op::Ev { s, bits: rng.range(1, 3) as u16 }),
                    1 => { ops.push(Op::Ev { s, bits: 1 }); ops.push(Op::Rd { s }); }
                    2 => ops.push(Op::Rm { s, n: rng.range(1, 4) as u32 }),
                    3 => { ops.push(Op::Ev { s, bits: 1 }); ops.push(Op::Rd { s }); ops.push(Op::Rm { s, n: 50 }); }
                    4 => ops.push(Op::Run { s }),
                    _ => ops.push(Op::Own { s }),
                }
            }
        }
    }
    Plan {
        seed,
        family: format!("{}_{}", if stall { "stall" } else { "plain" }, if strict { "owner" } else { "rawapi" }),
        ends: [pair[0].to_string(), pair[1].to_string()],
        buf, max, sndbuf, short_pm, eagain_pm, strict, ops, segs: Vec::new(),
    }
}

fn gen_bad(rng: &mut Prng, buf: u64, max: u64) -> Seg {
    match rng.below(12) {
        0 | 1 => Seg::LenLt8 { v: rng.below(8) },
        2 | 3 | 4 => { let r = rng.below(100); Seg::LenGtMax { v: *rng.pick(&[max + 1, max + 1 + r, 2 * max, u64::MAX, 1 << 63, 1 << 32, u32::MAX as u64]), pay: rng.below(40) as usize } }
        5 | 6 | 7 => { let r = rng.below(buf); Seg::Undecodable { len: (*rng.pick(&[9u64, 12, 20, 8 + r, max, max - 1])).clamp(9, max) as usize, how: rng.below(4) as u8 } }
        8 => { let len = pick_len(rng, buf, max).min(max as usize); Seg::Flip { len, bit: rng.below(len as u64 * 8) as usize } }
        9 => { let len = pick_len(rng, buf, max).min(max as usize).max(10); Seg::Trunc { len, cut: rng.range(1, (len - 8) as u64) as usize } }
        _ => Seg::Garbage { n: rng.range(1, 40) as usize, g: rng.next_u64() },
    }
}

fn gen_fault(seed: u64, rng: &mut Prng, _tier: Tier) -> Plan {
    let reader = *rng.pick(&["worker_loop", "worker_session", "sessions", "simple"]);
    let (buf, max) = pick_sizes(rng);
    let strict = rng.chance(2, 3);
    let mut segs = Vec::new();
    let vlen = |rng: &mut Prng| pick_len(rng, buf[1], max).min(max as usize);
    for _ in 0..rng.below(3) { segs.push(Seg::Valid { len: vlen(rng) }); }
    let clean = rng.chance(1, 10);
    if !clean { segs.push(gen_bad(rng, buf[1], max)); }
    for _ in 0..rng.range(1, 3) { segs.push(Seg::Valid { len: if rng.chance(1, 2) { rng.range(8, 40) as usize } else { vlen(rng) } }); }
    if !clean && rng.chance(1, 4) {
        segs.push(gen_bad(rng, buf[1], max));
        segs.push(Seg::Valid { len: rng.range(8, 40) as usize });
    }
    let qstyle = rng.below(6);
    let mut ops = Vec::new();
    let n_ops = rng.range(4, 60) as usize;
    for _ in 0..n_ops {
        match rng.below(10) {
            0..=4 => {
                ops.push(Op::Push { d: 0, k: quantum(rng, qstyle, buf[1], max) });
                if rng.chance(3, 4) {
                    if strict { ops.push(Op::Own { s: 1 }); } else {
                        ops.push(Op::Ev { s: 1, bits: 1 });
                        ops.push(Op::Rd { s: 1 });
                        ops.push(Op::Rm { s: 1, n: rng.range(1, 6) as u32 });
                    }
                }
            }
            5 => ops.push(Op::Own { s: 1 }),
            6 => ops.push(Op::W { s: 1, len: pick_len(rng, buf[1], max) }),
            7 => ops.push(if strict { Op::Own { s: 1 } } else { Op::Wr { s: 1 } }),
            8 => ops.push(Op::Pull { d: 1, k: 0 }),
            _ => if strict { ops.push(Op::Own { s: 1 }) } else { ops.push(Op::Rm { s: 1, n: 3 }) },
        }
    }
    if rng.chance(1, 5) {
        let at = rng.below(ops.len() as u64 + 1) as usize;
        ops.insert(at, Op::Eof);
    }
    Plan {
        seed,
        family: format!("fault_{reader}_{}", if strict { "owner" } else { "rawapi" }),
        ends: ["raw".to_string(), reader.to_string()],
        buf, max, sndbuf: 0, short_pm: 0, eagain_pm: 0, strict, ops, segs,
    }
}

pub fn generate(seed: u64, tier: Tier) -> Plan {
    let mut rng = Prng::derive(seed, "c11/plan");
    let f = rng.below(100);
    if f < 50 { gen_plain(seed, &mut rng, tier, false) } else if f < 60 { gen_plain(seed, &mut rng, tier, true) } else { gen_fault(seed, &mut rng, tier) }
}

fn short_op(o: &Op) -> String {
    match o {
        Op::W { s, len } => format!("W{s}:{len}"),
        Op::Ev { s, bits } => format!("Ev{s}:{bits}"),
        Op::Rd { s } => format!("Rd{s}"),
        Op::Wr { s } => format!("Wr{s}"),
        Op::Run { s } => format!("Run{s}"),
        Op::Rm { s, n } => format!("Rm{s}x{n}"),
        Op::Own { s } => format!("Own{s}"),
        Op::Pull { d, k } => format!("Pull{d}:{k}"),
        Op::Push { d, k } => format!("Push{d}:{k}"),
        Op::Eof => "Eof".into(),
    }
}

pub fn summarize(p: &Plan) -> String {
    let mut s = format!("{} {}<->{} buf={:?} max={} sndbuf={} short={}‰ eagain={}‰ strict={} ", p.family, p.ends[0], p.ends[1], p.buf, p.max, p.sndbuf, p.short_pm, p.eagain_pm, p.strict);
    if !p.segs.is_empty() {
        s += "stream=[";
        for g in &p.segs { s += &format!("{} ", serde_json::to_string(g).unwrap_or_default()); }
        s += "] ";
    }
    s += "ops=";
    for o in p.ops.iter().take(40) { s += &short_op(o); s.push(' '); }
    if p.ops.len() > 40 { s += &format!("... ({} ops)", p.ops.len()); }
    s
}

// ------------------------------------------------------------------------------- fault enumeration

/// payload an endpoint of `kind` would build for its transmit (tx) or receive side
fn payload_for(kind: &str, tx: bool, seq: u32, n: usize) -> Vec<u8> {
    match (kind, tx) {
        ("worker_session", true) | ("worker_loop", false) => build::<WorkerRequest>(seq, n).encode_to_vec(),
        ("worker_session", false) | ("worker_loop", true) => build::<WorkerResponse>(seq, n).encode_to_vec(),
        ("sessions", true) | ("simple", false) => build::<Response>(seq, n).encode_to_vec(),
        _ => build::<Request>(seq, n).encode_to_vec(),
    }
}

fn enum_plans(tier: Tier) -> Vec<Plan> {
    let mut out = Vec::new();
    let thorough = tier == Tier::Thorough;
    // (E1) every split position of short well-formed sequences, both channel flavours
    let cfgs: &[(u64, u64)] = if thorough { &[(16, 64), (24, 48), (32, 32), (16, 40), (64, 64), (20, 100)] } else { &[(16, 64), (32, 32)] };
    for pair in [["worker_session", "worker_loop"], ["sessions", "simple"]] {
        for &(buf, max) in cfgs {
            let m = max as usize;
            let seqs: Vec<Vec<usize>> = vec![vec![12, 20, 9], vec![m, 10], vec![m / 2 + 1, m / 2 + 1, 8], vec![10, m - 8, 11], vec![m / 2, m / 2 + 2]];
            for (si, lens) in seqs.iter().enumerate() {
                if !thorough && si >= 3 { break; }
                for wside in 0..2u8 {
                    // real length of the stream: all writes happen before the first flush, so the
                    // writer accepts a frame iff the running total stays within max
                    let mut total = 0usize;
                    for (i, l) in lens.iter().enumerate() {
                        let fl = payload_for(pair[wside as usize], true, i as u32, l.saturating_sub(8)).len() + 8;
                        if total + fl <= m { total += fl; }
                    }
                    let rside = 1 - wside;
                    let mk = |cuts: &[usize]| -> Plan {
                        let mut ops: Vec<Op> = lens.iter().map(|l| Op::W { s: wside, len: *l }).collect();
                        ops.push(Op::Own { s: wside });
                        ops.push(Op::Pull { d: wside, k: 0 });
                        ops.push(Op::Own { s: wside });
                        ops.push(Op::Pull { d: wside, k: 0 });
                        let mut at = 0;
                        for c in cuts { ops.push(Op::Push { d: wside, k: c - at }); ops.push(Op::Own { s: rside }); at = *c; }
                        ops.push(Op::Push { d: wside, k: 0 });
                        ops.push(Op::Own { s: rside });
                        Plan { seed: 0, family: "enum_split".into(), ends: [pair[0].into(), pair[1].into()], buf: [buf, buf], max, sndbuf: 0, short_pm: 0, eagain_pm: 0, strict: true, ops, segs: vec![] }
                    };
                    for c in 1..total { out.push(mk(&[c])); }
                    if thorough && total <= 80 {
                        for c1 in 1..total { for c2 in (c1 + 1)..total { out.push(mk(&[c1, c2])); } }
                    }
                }
            }
        }
    }
    // (E2) every split position around each malformed-frame kind, every owner; (E3) EOF at every offset
    let fcfgs: &[(u64, u64)] = if thorough { &[(16, 64), (32, 32), (24, 100)] } else { &[(16, 64)] };
    for reader in ["worker_loop", "worker_session", "sessions", "simple"] {
        for &(buf, max) in fcfgs {
            let bads = vec![
                Seg::LenLt8 { v: 0 }, Seg::LenLt8 { v: 7 },
                Seg::LenGtMax { v: max + 1, pay: 5 }, Seg::LenGtMax { v: u64::MAX, pay: 0 },
                Seg::Undecodable { len: 12, how: 0 }, Seg::Undecodable { len: 20, how: 1 }, Seg::Undecodable { len: max as usize, how: 2 },
                Seg::Garbage { n: 11, g: 7 }, Seg::Trunc { len: 24, cut: 5 }, Seg::Flip { len: 20, bit: 3 }, Seg::Flip { len: 20, bit: 100 },
            ];
            for (bi, bad) in bads.iter().enumerate() {
                if !thorough && matches!(bi, 1 | 3 | 5 | 10) { continue; }
                let segs = vec![Seg::Valid { len: 14 }, bad.clone(), Seg::Valid { len: 19 }, Seg::Valid { len: 10 }];
                let total: usize = segs.iter().enumerate().map(|(i, g)| seg_bytes(g, i as u32, &|seq, n| payload_for(reader, false, seq, n)).len()).sum();
                for c in 0..total {
                    let mut ops = Vec::new();
                    if c > 0 { ops.push(Op::Push { d: 0, k: c }); ops.push(Op::Own { s: 1 }); }
                    ops.push(Op::Push { d: 0, k: 0 });
                    ops.push(Op::Own { s: 1 });
                    out.push(Plan { seed: 0, family: format!("enum_fault_split_{reader}"), ends: ["raw".into(), reader.into()], buf: [buf, buf], max, sndbuf: 0, short_pm: 0, eagain_pm: 0, strict: true, ops, segs: segs.clone() });
                }
            }
            let segs = vec![Seg::Valid { len: 14 }, Seg::Valid { len: (max as usize).min(40) }, Seg::Valid { len: 9 }];
            let total: usize = segs.iter().enumerate().map(|(i, g)| seg_bytes(g, i as u32, &|seq, n| payload_for(reader, false, seq, n)).len()).sum();
            for c in 0..=total {
                for own_before in [false, true] {
                    let mut ops = Vec::new();
                    if c > 0 { ops.push(Op::Push { d: 0, k: c }); }
                    if own_before { ops.push(Op::Own { s: 1 }); }
                    ops.push(Op::Eof);
                    ops.push(Op::Own { s: 1 });
                    out.push(Plan { seed: 0, family: format!("enum_eof_{reader}"), ends: ["raw".into(), reader.into()], buf: [buf, buf], max, sndbuf: 0, short_pm: 0, eagain_pm: 0, strict: true, ops, segs: segs.clone() });
                }
            }
        }
    }
    out
}

// ------------------------------------------------------------------------------------- property

fn parse(plan: &Value) -> Result<Plan, String> { serde_json::from_value(plan.clone()).map_err(|e| format!("bad plan: {e}")) }

impl Property for C11 {
    fn id(&self) -> &'static str { "C11" }
    fn runs(&self, tier: Tier) -> u64 { match tier { Tier::Quick => 150_000, Tier::Thorough => 4_000_000 } }
    fn gen_plan(&self, seed: u64, tier: Tier) -> Value { serde_json::to_value(generate(seed, tier)).unwrap() }
    fn run_plan(&self, plan: &Value) -> RunReport {
        let p = match parse(plan) { Ok(p) => p, Err(e) => return RunReport { harness_error: Some(e), ..Default::default() } };
        on_fresh_thread(move || execute(&p, false).0)
    }
    fn shrink(&self, plan: &Value) -> Vec<Value> {
        let Ok(p) = parse(plan) else { return vec![] };
        shrink_plan(&p).into_iter().map(|p| serde_json::to_value(p).unwrap()).collect()
    }
    fn debug_plan(&self, plan: &Value) -> String {
        let p = match parse(plan) { Ok(p) => p, Err(e) => return e };
        let (rep, log) = on_fresh_thread(move || execute(&p, true));
        let mut s = log.join("\n");
        s += &format!("\nviolations: {:#?}\nprobes: {:?}\n", rep.violations, rep.probes);
        s
    }
    fn enumerated(&self, tier: Tier) -> Vec<Value> { enum_plans(tier).into_iter().map(|p| serde_json::to_value(p).unwrap()).collect() }
    fn descr(&self) -> Descr {
        Descr {
            level: "fault_enumeration",
            rule: "seeded plans: endpoint pair (real WorkerSession <-> worker event-loop transcription, hub session loop with the real extract_messages <-> plain API user, or a raw byte writer -> any of the four), buffer_size 16..4096, max_buffer_size 24..65536, frame sizes biased to 8..40, buffer_size, 2x, max/2, max-8, max, max+1; owner-driven plans (write_message, owner turns under an edge-triggered event model, relay pull/push) and raw-API plans (write_message/writable/run/readable/read_message/handle_events in any order, finished by a plain run()+read loop); relay quantum 1, 1..16, ~buffer_size, uniform or everything; SO_SNDBUF 4608..default; injected short writes and EAGAIN on the channel sockets; stall plans (receiver does not read); fault plans: len<8, len>max (max+1..usize::MAX), undecodable payload, bit flip, truncation, garbage between well-formed frames, EOF at a random point; enumerated plans: every split position (thorough: every pair of positions) of short sequences in both directions, every split position around each malformed kind for every owner, EOF at every offset. A run is non-trivial when >=1 message was delivered end-to-end (plain) or >=1 malformed frame reached the reader's socket or >=1 message was delivered (fault). distinct = distinct hashes over configuration, all operations, their results and the observed buffer states after every step",
            assumptions: vec!["nonblocking channels only (the mode both event loops use)", "buffer_size <= max_buffer_size on both ends, same max on both ends", "edge-triggered readiness: an owner gets an event only after new bytes arrived, write space appeared, the peer closed, or an injected EAGAIN was re-armed; the event carries the level state from poll(2)", "release semantics (debug assertions off)", "x86-64 Linux (8-byte length prefix)"],
            real: vec!["sozu_command_lib::channel::Channel (both ends)", "sozu_command_lib::buffer::growable::Buffer", "sozu::command::sessions::{WorkerSession::ready, extract_messages, wants_to_tick}", "prost encode/decode of WorkerRequest/WorkerResponse/Request/Response", "Linux AF_UNIX stream sockets"],
            stub: vec!["worker event loop around the channel (transcription of lib/src/server.rs:1054-1098,1291-1347,1543-1572 with an empty response queue)", "hub loop around a ClientSession (transcription of bin/src/command/server.rs:508-600 and sessions.rs:164-181 calling the real extract_messages)", "relay between the two socket pairs", "raw byte writer"],
            not_covered: vec!["blocking mode (read_message_blocking_timeout, write_message_blocking)", "heap size of the Vec behind Buffer (private; only Buffer::capacity() is observable)", "ClientSession::ready keeping only the last of several pipelined requests (owner policy, not channel)", "Server::send_queue with a queued response larger than max_buffer_size (push_front retry loop) - read, not simulated", "the real worker event loop end-to-end (see netsim properties)"],
        }
    }
}

pub fn shrink_plan(p: &Plan) -> Vec<Plan> {
    let mut out = Vec::new();
    let n = p.ops.len();
    // drop chunks of operations, largest first
    let mut chunk = n / 2;
    while chunk >= 1 {
        let mut i = 0;
        while i + chunk <= n {
            let mut q = p.clone();
            q.ops.drain(i..i + chunk);
            out.push(q);
            i += chunk;
        }
        if chunk == 1 { break; }
        chunk /= 2;
    }
    for i in 0..p.segs.len() { let mut q = p.clone(); q.segs.remove(i); out.push(q); }
    if p.short_pm != 0 || p.eagain_pm != 0 { let mut q = p.clone(); q.short_pm = 0; q.eagain_pm = 0; out.push(q); }
    if p.sndbuf != 0 { let mut q = p.clone(); q.sndbuf = 0; out.push(q); }
    if p.buf[0] != p.buf[1] { let mut q = p.clone(); q.buf[1] = q.buf[0]; out.push(q); let mut q = p.clone(); q.buf[0] = q.buf[1]; out.push(q); }
    for (i, o) in p.ops.iter().enumerate() {
        match o {
            Op::W { s, len } if *len > 8 => {
                for nl in [8usize, len / 2, len - 1] { if nl >= 8 && nl < *len { let mut q = p.clone(); q.ops[i] = Op::W { s: *s, len: nl }; out.push(q); } }
            }
            Op::Pull { d, k } if *k != 0 => { let mut q = p.clone(); q.ops[i] = Op::Pull { d: *d, k: 0 }; out.push(q); }
            Op::Push { d, k } if *k != 0 => { let mut q = p.clone(); q.ops[i] = Op::Push { d: *d, k: 0 }; out.push(q); }
            Op::Rm { s, n } if *n > 1 => { let mut q = p.clone(); q.ops[i] = Op::Rm { s: *s, n: 1 }; out.push(q); }
            _ => {}
        }
    }
    // halve every size at once (buffers, cap, message and relay sizes)
    if p.max >= 48 {
        let mut q = p.clone();
        q.max = (p.max / 2).max(24);
        q.buf = [p.buf[0].min(q.max).max(16) / 2 * 2, p.buf[1].min(q.max).max(16) / 2 * 2];
        q.buf = [(p.buf[0] / 2).clamp(16, q.max), (p.buf[1] / 2).clamp(16, q.max)];
        for o in q.ops.iter_mut() {
            match o {
                Op::W { len, .. } => *len = (*len / 2).max(8),
                Op::Pull { k, .. } | Op::Push { k, .. } => *k = if *k > 1 { *k / 2 } else { *k },
                _ => {}
            }
        }
        for g in q.segs.iter_mut() {
            match g {
                Seg::Valid { len } | Seg::Undecodable { len, .. } => *len = (*len / 2).max(9),
                Seg::LenGtMax { v, .. } if *v > p.max && *v <= 4 * p.max => *v = (*v / 2).max(q.max + 1),
                _ => {}
            }
        }
        out.push(q);
    }
    for (i, g) in p.segs.iter().enumerate() {
        if let Seg::Valid { len } = g { if *len > 8 { let mut q = p.clone(); q.segs[i] = Seg::Valid { len: 8.max(len / 2) }; out.push(q); } }
        if let Seg::LenGtMax { v, pay } = g { if *pay > 0 { let mut q = p.clone(); q.segs[i] = Seg::LenGtMax { v: *v, pay: 0 }; out.push(q); } }
    }
    out
}
