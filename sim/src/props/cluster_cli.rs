//! A scripted CLI client for the cluster tier (clustersim.rs): connects to the real hub's unix command
//! socket and sends a list of steps one after the other, waiting for the final answer of each. Records every
//! answer with its virtual time. Emergency exits (hub gone, run aborted, hard deadline) push the hub out of
//! `run()` so that a wedged run ends as a violation instead of hanging.
#![allow(dead_code)]
use std::any::Any;
use std::sync::{Arc, Mutex};

use prost::Message;
use sozu_command_lib::proto::command::{response_content::ContentType, Request, Response, ResponseContent, ResponseStatus};

use crate::actors::{rd, wr, Io, Quantum};
use crate::clustersim::ForceStop;
use crate::hubsim::frame;
use crate::prng::Prng;
use crate::sys;
use crate::world::{Actor, Step, World, MS, SEC};

#[derive(Clone, Debug)]
pub struct CliStep {
    pub label: String,
    pub req: Request,
    /// how long to wait for the final answer before moving on (the oracle sees the missing answer)
    pub patience_ns: u64,
    /// do not send before this board key is >= the value
    pub wait_board: Option<(String, i64)>,
    /// do not send before this much virtual time has passed since the previous step finished
    pub delay_ns: u64,
    /// board key set to 1 once the final answer has been read (or patience ran out)
    pub set_board: Option<String>,
}
impl CliStep {
    pub fn new(label: &str, req: Request) -> CliStep { CliStep { label: label.into(), req, patience_ns: 60 * SEC, wait_board: None, delay_ns: 0, set_board: None } }
}

#[derive(Clone, Debug, Default)]
pub struct StepObs {
    pub t_send: u64,
    pub answers: Vec<(u64, Response)>,
    pub t_final: u64,
    pub gave_up: bool,
}
impl StepObs {
    pub fn finals(&self) -> Vec<&Response> { self.answers.iter().map(|a| &a.1).filter(|r| r.status != ResponseStatus::Processing as i32).collect() }
    pub fn final_status(&self) -> Option<i32> { self.finals().first().map(|r| r.status) }
    pub fn ok(&self) -> bool { self.final_status() == Some(ResponseStatus::Ok as i32) }
    pub fn content(&self) -> Option<&ResponseContent> { self.finals().first().and_then(|r| r.content.as_ref()) }
}

#[derive(Clone, Debug, Default)]
pub struct CliRecord {
    pub connect_error: Option<i32>,
    pub steps: Vec<StepObs>,
    pub eof_at: Option<u64>,
    pub forced: bool,
    pub garbage: Option<String>,
    pub cur: usize,
}

pub struct ScriptCli {
    steps: Vec<CliStep>,
    sock_name: Vec<u8>,
    force: ForceStop,
    fd: i32,
    pub rec: Arc<Mutex<CliRecord>>,
    cur: usize,
    state: u8, // 0 idle (before send), 1 awaiting, 2 drain, 9 done
    out: Vec<u8>,
    inbuf: Vec<u8>,
    wq: Quantum,
    rng: Prng,
    hard_deadline: u64,
    hard_ns: u64,
    step_deadline: u64,
    not_before: u64,
    /// board keys to raise when the script ends for whatever reason (so that gated actors finish)
    pub release: Vec<String>,
}

impl ScriptCli {
    pub fn new(sock_name: &[u8], force: ForceStop, steps: Vec<CliStep>, rec: Arc<Mutex<CliRecord>>, rng: Prng, wq: Quantum, hard_ns: u64) -> ScriptCli {
        rec.lock().unwrap().steps = vec![StepObs::default(); steps.len()];
        ScriptCli { steps, sock_name: sock_name.to_vec(), force, fd: -1, rec, cur: 0, state: 0, out: vec![], inbuf: vec![], wq, rng, hard_deadline: 0, hard_ns, step_deadline: 0, not_before: 0, release: vec![] }
    }
    fn finish(&mut self, w: &mut World) -> Step {
        for k in self.release.clone() { w.board_set(&k, 1); }
        for s in &self.steps { if let Some(k) = &s.set_board { w.board_set(k, 1); } }
        w.board_set("end", 1);
        if self.fd >= 0 { sys::close(self.fd); self.fd = -1; }
        self.state = 9;
        Step::Done
    }
    fn pump(&mut self, w: &mut World) -> (bool, Vec<Response>) {
        let mut progressed = false;
        while !self.out.is_empty() {
            let q = self.wq.draw(&mut self.rng).min(self.out.len()).max(1);
            match wr(self.fd, &self.out[..q]) {
                Io::N(n) => { self.out.drain(..n); progressed = true; }
                Io::WouldBlock => break,
                _ => { self.out.clear(); self.rec.lock().unwrap().eof_at.get_or_insert(w.now); }
            }
        }
        let mut buf = [0u8; 16384];
        loop {
            match rd(self.fd, &mut buf) {
                Io::N(n) => { progressed = true; self.inbuf.extend_from_slice(&buf[..n]); }
                Io::WouldBlock => break,
                _ => { let mut r = self.rec.lock().unwrap(); if r.eof_at.is_none() { r.eof_at = Some(w.now); progressed = true; } break; }
            }
        }
        let mut got = Vec::new();
        loop {
            if self.inbuf.len() < 8 { break; }
            let len = u64::from_le_bytes(self.inbuf[..8].try_into().unwrap()) as usize;
            if len < 8 || len > 256 << 20 { self.rec.lock().unwrap().garbage = Some(format!("bad frame length {len}")); self.inbuf.clear(); break; }
            if self.inbuf.len() < len { break; }
            let f: Vec<u8> = self.inbuf.drain(..len).collect();
            match Response::decode(&f[8..]) {
                Ok(r) => { w.tr(0x63, r.status as u64); got.push(r); }
                Err(e) => { self.rec.lock().unwrap().garbage = Some(format!("undecodable response: {e}")); }
            }
        }
        (progressed, got)
    }
}

impl Actor for ScriptCli {
    fn name(&self) -> String { "cli".into() }
    fn as_any(&mut self) -> &mut dyn Any { self }
    fn as_any_ref(&self) -> &dyn Any { self }
    fn class(&self) -> u8 { 2 }
    fn step(&mut self, w: &mut World) -> Step {
        if self.state == 9 { return Step::Done; }
        if self.fd < 0 {
            let fd = match sys::socket(libc::AF_UNIX, libc::SOCK_STREAM | libc::SOCK_NONBLOCK | libc::SOCK_CLOEXEC, 0) { Ok(fd) => fd, Err(e) => { self.rec.lock().unwrap().connect_error = Some(e); self.force.fire(); return self.finish(w); } };
            if let Err(e) = sys::connect_abstract(fd, &self.sock_name) { sys::close(fd); self.rec.lock().unwrap().connect_error = Some(e); self.force.fire(); return self.finish(w); }
            self.fd = fd;
            self.hard_deadline = w.now + self.hard_ns;
            return Step::Progress;
        }
        let (mut progressed, got) = self.pump(w);
        let rec_arc = self.rec.clone();
        let mut rec = rec_arc.lock().unwrap();
        rec.cur = self.cur;
        let hub_gone = rec.eof_at.is_some();
        if (hub_gone && self.state != 2) || w.aborted.is_some() || w.now > self.hard_deadline {
            if !hub_gone { rec.forced = true; self.force.fire(); }
            drop(rec);
            return self.finish(w);
        }
        for r in got {
            progressed = true;
            if self.state == 1 {
                let fin = r.status != ResponseStatus::Processing as i32;
                rec.steps[self.cur].answers.push((w.now, r));
                if fin { rec.steps[self.cur].t_final = w.now; }
            } else if self.cur > 0 {
                // an extra answer after the final one: attribute it to the previous step (the oracle counts finals)
                rec.steps[self.cur - 1].answers.push((w.now, r));
            }
        }
        match self.state {
            0 => {
                if self.cur >= self.steps.len() { self.state = 2; return Step::Progress; }
                let st = &self.steps[self.cur];
                if let Some((k, v)) = &st.wait_board { if w.board_get(k) < *v { return if progressed { Step::Progress } else { Step::Idle(w.now + 20 * MS) }; } }
                if self.not_before == 0 { self.not_before = w.now + st.delay_ns; }
                if w.now < self.not_before { return Step::Idle(self.not_before); }
                self.out.extend_from_slice(&frame(&st.req));
                rec.steps[self.cur].t_send = w.now;
                self.step_deadline = w.now + st.patience_ns;
                self.state = 1;
                Step::Progress
            }
            1 => {
                let done = rec.steps[self.cur].t_final > 0;
                let timed_out = w.now > self.step_deadline;
                if done || timed_out {
                    if !done { rec.steps[self.cur].gave_up = true; }
                    let key = self.steps[self.cur].set_board.clone();
                    drop(rec);
                    if let Some(k) = key { w.board_set(&k, 1); }
                    self.cur += 1;
                    self.not_before = 0;
                    self.state = 0;
                    return Step::Progress;
                }
                if progressed { Step::Progress } else { Step::Idle(self.step_deadline.min(w.now + 200 * MS)) }
            }
            _ => {
                // script finished: keep reading until the hub closes the connection
                if hub_gone { drop(rec); return self.finish(w); }
                if progressed { Step::Progress } else { Step::Idle(w.now + 100 * MS) }
            }
        }
    }
}
impl Drop for ScriptCli { fn drop(&mut self) { if self.fd >= 0 { sys::close(self.fd); } } }

/// worker id -> content of a gathered worker answer (`WorkerResponses`)
pub fn per_worker(c: Option<&ResponseContent>) -> Vec<(String, ResponseContent)> {
    match c.and_then(|c| c.content_type.as_ref()) {
        Some(ContentType::WorkerResponses(wr)) => wr.map.iter().map(|(k, v)| (k.clone(), v.clone())).collect(),
        _ => vec![],
    }
}

/// Order-insensitive canonical form of a protobuf value: serde_json with every array sorted by the JSON
/// text of its elements (worker answers list frontends / backends in hash-map order).
pub fn canon<T: serde::Serialize>(v: &T) -> String {
    fn norm(v: serde_json::Value) -> serde_json::Value {
        match v {
            serde_json::Value::Array(a) => { let mut a: Vec<serde_json::Value> = a.into_iter().map(norm).collect(); a.sort_by_key(|x| x.to_string()); serde_json::Value::Array(a) }
            serde_json::Value::Object(o) => serde_json::Value::Object(o.into_iter().map(|(k, v)| (k, norm(v))).collect()),
            x => x,
        }
    }
    norm(serde_json::to_value(v).unwrap_or(serde_json::Value::Null)).to_string()
}
