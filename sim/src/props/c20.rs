//! C20 — a configuration file means exactly what it declares, however large (loader tier).
//!
//! plan -> TOML text -> real file -> `Config::load_from_path` -> `generate_config_messages()` ->
//! fresh `ConfigState`, compared with an independent reading of the same TOML (`c20_model`), plus
//! reload idempotence and constraint-violating neighbours. Runs under an installed World so that
//! HashMap iteration order inside the loader is part of the plan.
#![allow(dead_code)]
use std::collections::{BTreeMap, BTreeSet};
use std::panic::{catch_unwind, AssertUnwindSafe};

use serde_json::Value;
use sozu_command_lib::config::Config;
use sozu_command_lib::proto::command::{request::RequestType, Request};
use sozu_command_lib::state::{ConfigState, StateError};

use crate::framework::*;
use crate::prng::TraceHash;
use crate::world::{SchedCfg, World};

#[path = "c20_model.rs"]
pub mod model;
#[path = "c20_obs.rs"]
pub mod obs;
#[path = "c20_gen.rs"]
pub mod gen_;

use gen_::{mutate, render, Cfg, Plan};
use model::{Model, Rej};

pub struct C20;

fn req_kind(r: &Request) -> &'static str {
    match &r.request_type {
        Some(RequestType::AddCluster(_)) => "AddCluster",
        Some(RequestType::AddHttpListener(_)) => "AddHttpListener",
        Some(RequestType::AddHttpsListener(_)) => "AddHttpsListener",
        Some(RequestType::AddTcpListener(_)) => "AddTcpListener",
        Some(RequestType::AddUdpListener(_)) => "AddUdpListener",
        Some(RequestType::ActivateListener(_)) => "ActivateListener",
        Some(RequestType::AddHttpFrontend(_)) => "AddHttpFrontend",
        Some(RequestType::AddHttpsFrontend(_)) => "AddHttpsFrontend",
        Some(RequestType::AddTcpFrontend(_)) => "AddTcpFrontend",
        Some(RequestType::AddUdpFrontend(_)) => "AddUdpFrontend",
        Some(RequestType::AddCertificate(_)) => "AddCertificate",
        Some(RequestType::AddBackend(_)) => "AddBackend",
        Some(RequestType::ConfigureMetrics(_)) => "ConfigureMetrics",
        Some(_) => "Other",
        None => "Empty",
    }
}
fn err_kind(e: &StateError) -> &'static str {
    match e {
        StateError::Exists { .. } => "Exists",
        StateError::NotFound { .. } => "NotFound",
        StateError::NoChange => "NoChange",
        StateError::InvalidValue { .. } => "InvalidValue",
        StateError::AddCertificate(_) => "AddCertificate",
        StateError::FrontendConversion { .. } => "FrontendConversion",
        StateError::WrongFieldValue(_) => "WrongFieldValue",
        StateError::UndispatchableRequest => "Undispatchable",
        StateError::EmptyRequest => "Empty",
        _ => "Other",
    }
}
fn variant(dbg: &str) -> String { dbg.split(|c: char| !c.is_ascii_alphanumeric()).next().unwrap_or("").to_string() }

/// swallow what the loader prints on stdout (it dumps the whole file on a TOML error and leaves an
/// unterminated line, which would glue itself to the driver's JSON report line)
struct Quiet { saved: i32 }
impl Quiet {
    fn new(on: bool) -> Quiet {
        if !on { return Quiet { saved: -1 }; }
        use std::io::Write;
        let _ = std::io::stdout().flush();
        unsafe {
            let saved = libc::dup(1);
            let null = libc::open(b"/dev/null\0".as_ptr() as *const libc::c_char, libc::O_WRONLY);
            if saved >= 0 && null >= 0 { libc::dup2(null, 1); }
            if null >= 0 { libc::close(null); }
            Quiet { saved }
        }
    }
}
impl Drop for Quiet {
    fn drop(&mut self) {
        if self.saved < 0 { return; }
        use std::io::Write;
        println!();
        let _ = std::io::stdout().flush();
        unsafe { libc::dup2(self.saved, 1); libc::close(self.saved); }
    }
}

fn tmp_dir(seed: u64) -> std::path::PathBuf {
    static CTR: std::sync::atomic::AtomicU64 = std::sync::atomic::AtomicU64::new(0);
    let n = CTR.fetch_add(1, std::sync::atomic::Ordering::SeqCst);
    verif_root().join("sim/target/tmp").join(format!("c20-{}-{}-{:x}", std::process::id(), n, seed))
}

fn strip_counts(mut s: ConfigState) -> ConfigState { s.request_counts.clear(); s }

struct Loaded {
    state: ConfigState,
    n_messages: usize,
    distinct_ids: usize,
    rejected: Vec<(String, String, String)>, // (request kind, error kind, detail)
    kinds: BTreeMap<&'static str, u64>,
}

fn load_and_dispatch(path: &str, into: ConfigState, th: &mut TraceHash, log: &mut Vec<String>, verbose: bool) -> Result<Loaded, String> {
    let config = Config::load_from_path(path).map_err(|e| format!("{e:?}"))?;
    let msgs = config.generate_config_messages().map_err(|e| format!("generate_config_messages: {e:?}"))?;
    let mut state = into;
    let mut rejected = Vec::new();
    let mut kinds: BTreeMap<&'static str, u64> = BTreeMap::new();
    let mut ids = BTreeSet::new();
    for m in &msgs {
        ids.insert(m.id.clone());
        let k = req_kind(&m.content);
        *kinds.entry(k).or_insert(0) += 1;
        match state.dispatch(&m.content) {
            Ok(()) => {}
            Err(e) => {
                if verbose { log.push(format!("  dispatch {} ({k}) -> {e}", m.id)); }
                let what = match &m.content.request_type {
                    Some(RequestType::AddHttpFrontend(f)) => format!("http|{f}"),
                    Some(RequestType::AddHttpsFrontend(f)) => format!("https|{f}"),
                    Some(RequestType::AddTcpFrontend(f)) => format!("tcp|{}|{}", f.cluster_id, f.address),
                    Some(RequestType::AddUdpFrontend(f)) => format!("udp|{}|{}", f.cluster_id, f.address),
                    Some(RequestType::AddCluster(c)) => c.cluster_id.clone(),
                    _ => String::new(),
                };
                rejected.push((k.to_string(), err_kind(&e).to_string(), format!("{what}: {e}")));
            }
        }
    }
    // order-insensitive summary of the message list (the order follows the seeded hash order and is
    // covered by the world seed already)
    th.mix(msgs.len() as u64);
    for (k, n) in &kinds { th.mix_bytes(k.as_bytes()); th.mix(*n); }
    th.mix(rejected.len() as u64);
    Ok(Loaded { state, n_messages: msgs.len(), distinct_ids: ids.len(), rejected, kinds })
}

/// declared == loaded
pub(crate) fn compare(m: &Model, o: &obs::Observed, feature: &str, v: &mut Vec<Violation>) {
    // a documented-valid feature of the file keys everything; a duplicated declaration only keys the
    // objects it names
    let trig_of = |k: &str| -> &str { if m.features.contains(feature) { feature } else if m.dup_routes.contains(k) { "duplicate_route" } else if m.dup_l4.contains(k) { "duplicate_l4_frontend" } else { "none" } };
    let kind_of = |k: &str| { let mut it = k.split('|'); let a = it.next().unwrap_or(""); if a == "front" { format!("front/{}", it.next().unwrap_or("")) } else { a.to_string() } };
    for (k, alts) in &m.facts {
        match o.facts.get(k) {
            None => v.push(Violation::new("dropped", format!("{}|{}", kind_of(k), trig_of(k)), format!("declared but absent from the loaded state: {k}"))),
            Some(got) => {
                let mut best: Option<String> = None;
                let mut ok = false;
                for want in alts {
                    let mut bad = None;
                    for (ak, av) in want { if av != "*" && got.get(ak) != Some(av) { bad = Some(format!("{ak}: declared {av:?}, loaded {:?}", got.get(ak))); break; } }
                    for ak in got.keys() { if !want.contains_key(ak) { bad = Some(format!("{ak}: not modelled")); } }
                    match bad { None => { ok = true; break; } Some(b) => { if best.is_none() { best = Some(b); } } }
                }
                if !ok {
                    let b = best.unwrap_or_default();
                    let attr = b.split(':').next().unwrap_or("").to_string();
                    v.push(Violation::new("wrong_value", format!("{}.{attr}|{}", kind_of(k), trig_of(k)), format!("{k}: {b}")));
                }
            }
        }
    }
    for k in o.facts.keys() {
        if !m.facts.contains_key(k) { v.push(Violation::new("invented", format!("{}|{}", kind_of(k), trig_of(k)), format!("present in the loaded state but not declared: {k}"))); }
    }
    for k in &o.duplicated { v.push(Violation::new("duplicated", format!("{}|{}", kind_of(k), trig_of(k)), format!("loaded twice: {k}"))); }
    // backends: multiset matching, declared ids first
    let mut free: Vec<bool> = vec![true; o.backends.len()];
    let mut order: Vec<&model::DeclBackend> = m.backends.iter().collect();
    order.sort_by_key(|b| b.id.is_none());
    for d in order {
        let hit = o.backends.iter().enumerate().position(|(i, ob)| free[i] && ob.cluster == d.cluster && ob.addr == d.addr && d.id.as_ref().map_or(true, |id| *id == ob.id) && ob.attrs == d.attrs);
        match hit {
            Some(i) => free[i] = false,
            None => {
                let near = o.backends.iter().enumerate().find(|(i, ob)| free[*i] && ob.cluster == d.cluster && ob.addr == d.addr && d.id.as_ref().map_or(true, |id| *id == ob.id));
                match near {
                    Some((i, ob)) => { free[i] = false; v.push(Violation::new("wrong_value", format!("backend|{}", trig_of("")), format!("backend {} of {}: declared {:?}, loaded {:?}", d.addr, d.cluster, d.attrs, ob.attrs))); }
                    None => v.push(Violation::new("dropped", format!("backend|{}", trig_of("")), format!("backend {} (id {:?}) of cluster {} declared but not loaded", d.addr, d.id, d.cluster))),
                }
            }
        }
    }
    for (i, ob) in o.backends.iter().enumerate() {
        if free[i] { v.push(Violation::new("invented", format!("backend|{}", trig_of("")), format!("backend {} {} of cluster {} loaded but not declared (or loaded twice)", ob.id, ob.addr, ob.cluster))); }
    }
}

fn states_equal(a: &ConfigState, b: &ConfigState) -> Option<&'static str> {
    if a.clusters != b.clusters { return Some("clusters"); }
    if a.backends != b.backends { return Some("backends"); }
    if a.http_listeners != b.http_listeners { return Some("http_listeners"); }
    if a.https_listeners != b.https_listeners { return Some("https_listeners"); }
    if a.tcp_listeners != b.tcp_listeners { return Some("tcp_listeners"); }
    if a.udp_listeners != b.udp_listeners { return Some("udp_listeners"); }
    if a.http_fronts != b.http_fronts { return Some("http_fronts"); }
    if a.https_fronts != b.https_fronts { return Some("https_fronts"); }
    if a.tcp_fronts != b.tcp_fronts { return Some("tcp_fronts"); }
    if a.udp_fronts != b.udp_fronts { return Some("udp_fronts"); }
    if a.certificates != b.certificates { return Some("certificates"); }
    None
}

/// trigger classification from the *model's* view of the file (never from sozu's behaviour)
pub(crate) fn trigger_of(m: &Model) -> String {
    if let Some(f) = m.features.iter().next() { return f.clone(); }
    if !m.dup_routes.is_empty() { return "duplicate_route".into(); }
    if !m.dup_l4.is_empty() { return "duplicate_l4_frontend".into(); }
    "none".into()
}

struct Outcome {
    violations: Vec<Violation>,
    th: TraceHash,
    probes: BTreeMap<String, u64>,
    nontrivial: bool,
    harness_error: Option<String>,
    log: Vec<String>,
}

fn probe(p: &mut BTreeMap<String, u64>, k: &str, n: u64) { *p.entry(k.to_string()).or_insert(0) += n; }

/// one TOML document through the whole pipeline. `role`: "base" or the mutation kind.
fn check_document(text: &str, dir: &std::path::Path, name: &str, role: &str, full: bool, out: &mut Outcome, verbose: bool) {
    let th = &mut out.th;
    th.mix_bytes(text.as_bytes());
    let doc: toml::Table = match toml::from_str(text) {
        Ok(d) => d,
        Err(e) => { out.harness_error = Some(format!("generated TOML does not parse ({role}): {e}")); return; }
    };
    let verdict = model::read(&doc);
    let path = dir.join(name);
    if let Err(e) = std::fs::write(&path, text) { out.harness_error = Some(format!("write {path:?}: {e}")); return; }
    let path_s = path.to_string_lossy().to_string();
    let loaded = { let _q = Quiet::new(!verbose); load_and_dispatch(&path_s, ConfigState::new(), th, &mut out.log, verbose) };
    if verbose { out.log.push(format!("[{role}] model: {} | loader: {}", match &verdict { Ok(_) => "valid".to_string(), Err(r) => format!("{r:?}") }, match &loaded { Ok(l) => format!("accepted, {} messages ({} distinct ids), {} rejected by state", l.n_messages, l.distinct_ids, l.rejected.len()), Err(e) => format!("rejected: {}", e.chars().take(200).collect::<String>()) })); }
    match (&verdict, &loaded) {
        (Err(Rej::Unmodelled(w)), _) => { out.harness_error = Some(format!("[{role}] outside the modelled grammar: {w}")); }
        (Err(Rej::Reject(why)), Err(e)) => { th.mix(1); th.mix_bytes(variant(e).as_bytes()); probe(&mut out.probes, "neighbour_rejected_by_loader", 1); probe(&mut out.probes, &format!("reject_reason:{}", why.split(':').next().unwrap_or("")), 1); }
        (Err(Rej::Reject(why)), Ok(l)) => {
            th.mix(2);
            // (d) a documented constraint is violated but the loader produced a configuration
            let mut detail = format!("[{role}] the file violates a documented constraint ({why}) but load_from_path accepted it and produced {} messages", l.n_messages);
            if !l.rejected.is_empty() {
                let o = obs::observe(&l.state);
                detail += &format!("; a fresh ConfigState then refuses {} of them ({}), leaving a partial configuration: {} clusters, {} frontends, {} backends", l.rejected.len(), l.rejected.iter().take(2).map(|r| format!("{} -> {}", r.0, r.2)).collect::<Vec<_>>().join("; "), l.state.clusters.len(), l.state.count_frontends(), o.backends.len());
            }
            out.violations.push(Violation::new("violating_config_accepted", why.split(':').next().unwrap_or("").to_string(), detail));
        }
        (Ok(m), Err(e)) => {
            th.mix(3);
            th.mix_bytes(variant(e).as_bytes());
            let trig = trigger_of(m);
            out.violations.push(Violation::new("valid_config_rejected", format!("{}|{trig}", variant(e)), format!("[{role}] file built from the documented grammar refused by the loader: {}", e.chars().take(300).collect::<String>())));
        }
        (Ok(m), Ok(l)) => {
            th.mix(4);
            if role != "base" { probe(&mut out.probes, "neighbour_still_valid", 1); }
            let trig = trigger_of(m);
            probe(&mut out.probes, "messages_dispatched", l.n_messages as u64);
            if l.n_messages > 256 { probe(&mut out.probes, "runs_with_u8_id_wrap", 1); probe(&mut out.probes, "id_wraps", (l.n_messages / 256) as u64); }
            if l.distinct_ids < l.n_messages { probe(&mut out.probes, "runs_with_duplicate_message_ids", 1); }
            for (k, n) in &l.kinds { probe(&mut out.probes, &format!("msg:{k}"), *n); }
            // (a) totality
            for (rk, ek, d) in &l.rejected {
                let t = match rk.as_str() {
                    "AddHttpFrontend" | "AddHttpsFrontend" if !m.dup_routes.is_empty() => "duplicate_route",
                    "AddTcpFrontend" | "AddUdpFrontend" if !m.dup_l4.is_empty() => "duplicate_l4_frontend",
                    _ => trig.as_str(),
                };
                out.violations.push(Violation::new("message_rejected", format!("{rk}|{ek}|{t}"), format!("[{role}] loader accepted the file but a fresh ConfigState refused a generated message ({} messages in total): {d}", l.n_messages)));
            }
            if !full { return; }
            // (b) declared == loaded
            let o = obs::observe(&l.state);
            for (k, a) in &o.facts { th.mix_bytes(k.as_bytes()); for (ak, av) in a { th.mix_bytes(ak.as_bytes()); th.mix_bytes(av.as_bytes()); } }
            for b in &o.backends { th.mix_bytes(b.cluster.as_bytes()); th.mix_bytes(b.addr.as_bytes()); th.mix_bytes(b.id.as_bytes()); }
            let before = out.violations.len();
            compare(m, &o, &trig, &mut out.violations);
            if verbose { for x in &out.violations[before..] { out.log.push(format!("  {} {} {}", x.class, x.key, x.detail)); } }
            probe(&mut out.probes, "objects_compared", (m.facts.len() + m.backends.len()) as u64);
            probe(&mut out.probes, "listeners_declared", m.n_listeners as u64);
            probe(&mut out.probes, "listeners_implicit", m.n_implicit as u64);
            probe(&mut out.probes, "clusters", m.n_clusters as u64);
            probe(&mut out.probes, "frontends", m.n_frontends as u64);
            probe(&mut out.probes, "backends", m.n_backends as u64);
            probe(&mut out.probes, "certificates", m.n_certs as u64);
            if m.facts.len() + m.backends.len() > 0 { out.nontrivial = true; }
            // (c) idempotence: the same file again, over the state it produced
            let first = strip_counts(l.state.clone());
            let second = { let _q = Quiet::new(!verbose); load_and_dispatch(&path_s, l.state.clone(), th, &mut out.log, false) };
            match second {
                Err(e) => out.violations.push(Violation::new("reload_rejected", format!("{}|{trig}", variant(&e)), format!("second load of the same file failed: {e}"))),
                Ok(l2) => {
                    let again = strip_counts(l2.state);
                    for (rk, ek, d) in &l2.rejected {
                        if ek != "Exists" { out.violations.push(Violation::new("reload_error", format!("{rk}|{ek}|{trig}"), format!("reloading the same file: {d}"))); }
                    }
                    probe(&mut out.probes, "reload_already_exists_answers", l2.rejected.len() as u64);
                    if let Some(field) = states_equal(&first, &again) {
                        th.mix(5);
                        out.violations.push(Violation::new("reload_changed_state", format!("{field}|{trig}"), format!("loading the same file over the state it produced changed `{field}`")));
                    }
                    let d1 = first.diff(&again);
                    let d2 = again.diff(&first);
                    th.mix((d1.len() + d2.len()) as u64);
                    if !d1.is_empty() || !d2.is_empty() {
                        let kinds: BTreeSet<&str> = d1.iter().chain(d2.iter()).map(req_kind).collect();
                        out.violations.push(Violation::new("reload_diff_not_empty", format!("{}|{trig}", states_equal(&first, &again).unwrap_or("states_equal")), format!("diff(state, reload(state)) has {} requests, reverse {} ({})", d1.len(), d2.len(), kinds.into_iter().collect::<Vec<_>>().join("+"))));
                    }
                    probe(&mut out.probes, "reloads_checked", 1);
                }
            }
        }
    }
}

/// Process-wide lazily initialised tables inside the code under test (e.g. the X.509 OID registry)
/// create HashMaps on first use and thereby shift the per-thread hash-key counter of whichever run
/// comes first in a process. Exercise every stage once, on a throw-away thread, before the first
/// real run so that the hash order seen by a plan does not depend on what ran before it.
pub(crate) fn warm_up() {
    static WARM: std::sync::Once = std::sync::Once::new();
    WARM.call_once(|| {
        crate::netsim::on_fresh_thread(|| {
            let mut w = World::new(0, SchedCfg::default());
            World::install(&mut w);
            let dir = tmp_dir(0);
            let _ = catch_unwind(AssertUnwindSafe(|| {
                let text = format!(r#"
[[listeners]]
protocol = "https"
address = "127.0.0.1:8443"
certificate = "{c}"
key = "{k}"
certificate_chain = "{ch}"
[[listeners]]
protocol = "http"
address = "127.0.0.1:8080"
[[listeners]]
protocol = "tcp"
address = "127.0.0.1:8081"
[[listeners]]
protocol = "udp"
address = "127.0.0.1:53"
[clusters.w]
protocol = "http"
frontends = [
  {{ address = "127.0.0.1:8080", hostname = "w.test", path = "/a", path_type = "REGEX" }},
  {{ address = "127.0.0.1:8443", hostname = "w.test" }},
  {{ address = "127.0.0.1:8443", hostname = "v.test", certificate = "{c2}", key = "{k2}" }},
]
backends = [ {{ address = "127.0.0.1:1" }} ]
[clusters.w.health_check]
uri = "/"
[clusters.t]
protocol = "tcp"
frontends = [ {{ address = "127.0.0.1:8081" }}, {{ address = "127.0.0.1:53" }} ]
backends = [ {{ address = "127.0.0.1:2" }} ]
"#, c = gen_::CERTS[0].0, k = gen_::CERTS[0].1, ch = gen_::CERTS[0].2.unwrap(), c2 = gen_::CERTS[1].0, k2 = gen_::CERTS[1].1);
                if std::fs::create_dir_all(&dir).is_err() { return; }
                let path = dir.join("warm.toml");
                if std::fs::write(&path, &text).is_err() { return; }
                let _q = Quiet::new(true);
                let mut th = TraceHash::new();
                let mut log = Vec::new();
                let path_s = path.to_string_lossy().to_string();
                if let Ok(l) = load_and_dispatch(&path_s, ConfigState::new(), &mut th, &mut log, false) {
                    let _ = load_and_dispatch(&path_s, l.state.clone(), &mut th, &mut log, false).map(|l2| l.state.diff(&l2.state).len());
                    let _ = obs::observe(&l.state);
                }
                if let Ok(doc) = toml::from_str::<toml::Table>(&text) { let _ = model::read(&doc); }
            }));
            let _ = std::fs::remove_dir_all(&dir);
            World::uninstall();
        })
    });
}

fn run(p: &Plan, verbose: bool) -> Outcome {
    warm_up();
    let p = p.clone();
    crate::netsim::on_fresh_thread(move || {
        let mut w = World::new(p.world_seed, SchedCfg::default());
        World::install(&mut w);
        let mut out = Outcome { violations: vec![], th: TraceHash::new(), probes: BTreeMap::new(), nontrivial: false, harness_error: None, log: vec![] };
        let dir = tmp_dir(p.seed);
        let r = catch_unwind(AssertUnwindSafe(|| {
            if let Err(e) = std::fs::create_dir_all(&dir) { out.harness_error = Some(format!("mkdir {dir:?}: {e}")); return; }
            let text = render(&p.cfg, p.style);
            if verbose { out.log.push(text.clone()); }
            check_document(&text, &dir, "config.toml", "base", true, &mut out, verbose);
            for (i, m) in p.mutations.iter().enumerate() {
                let Some(c2) = mutate(&p.cfg, m) else { probe(&mut out.probes, "mutation_not_applicable", 1); continue };
                let t2 = render(&c2, p.style);
                probe(&mut out.probes, "neighbours", 1);
                probe(&mut out.probes, &format!("mut:{}", m.kind), 1);
                if verbose { out.log.push(format!("---- neighbour {i}: {m:?}")); }
                check_document(&t2, &dir, &format!("neighbour-{i}.toml"), &m.kind, false, &mut out, verbose);
            }
        }));
        let _ = std::fs::remove_dir_all(&dir);
        if let Err(pn) = r {
            let msg = if let Some(s) = pn.downcast_ref::<&str>() { s.to_string() } else if let Some(s) = pn.downcast_ref::<String>() { s.clone() } else { "panic".into() };
            out.violations.push(Violation::new("panic", "loader", msg));
        }
        World::uninstall();
        out
    })
}

fn summarize(p: &Plan) -> String {
    let nf: usize = p.cfg.clusters.iter().map(|c| c.frontends.len()).sum();
    let nb: usize = p.cfg.clusters.iter().map(|c| c.backends.len()).sum();
    let mut protos: BTreeMap<String, usize> = BTreeMap::new();
    for l in &p.cfg.listeners { *protos.entry(l.get("protocol").and_then(|x| x.as_str()).unwrap_or("?").to_string()).or_insert(0) += 1; }
    format!("{} style={} globals={} listeners={:?} clusters={} frontends={} backends={} neighbours=[{}]", p.family, p.style, p.cfg.globals.len(), protos, p.cfg.clusters.len(), nf, nb, p.mutations.iter().map(|m| m.kind.clone()).collect::<Vec<_>>().join(","))
}

/// how a configuration edit shifts the indices the neighbours refer to
#[derive(Clone, Copy)]
enum Shift { None, Listeners { from: usize, by: usize }, Clusters { from: usize, by: usize }, Frontends { cluster: usize, from: usize, by: usize }, Backends { cluster: usize, from: usize, by: usize } }

fn level(kind: &str) -> &'static str {
    match kind {
        "listener_unknown_protocol" | "listener_missing_protocol" | "dup_listener_address" | "hsts_on_http_listener" | "hsts_without_enabled" | "alpn_invalid" | "disable_http11_conflict" | "public_address_with_expect_proxy" | "bad_tls_version" | "unknown_field_listener" | "bad_address" | "udp_expect_proxy" => "listener",
        "h2_small_buffer" | "auto_save_without_state" | "bad_metrics_detail" => "global",
        "cluster_unknown_protocol" | "unknown_field_cluster" | "bad_load_balancing" | "bad_affinity_key" | "health_check_zero_interval" | "health_check_bad_uri" | "mixed_expect_proxy" => "cluster",
        "unknown_field_backend" => "backend",
        _ => "frontend",
    }
}

/// removing elements [from, from+by) : indices above move down, indices inside lose their target
fn shift_mutations(ms: &[gen_::Mutation], sh: Shift) -> Vec<gen_::Mutation> {
    let mut out = Vec::new();
    for m in ms {
        let mut m = m.clone();
        let lv = level(&m.kind);
        let adj = |x: usize, from: usize, by: usize| -> Option<usize> { if x < from { Some(x) } else if x < from + by { None } else { Some(x - by) } };
        let keep = match sh {
            Shift::None => true,
            Shift::Listeners { from, by } => if lv == "listener" { match adj(m.a, from, by) { Some(a) => { m.a = a; true } None => false } } else { true },
            Shift::Clusters { from, by } => if lv == "cluster" || lv == "frontend" || lv == "backend" { match adj(m.a, from, by) { Some(a) => { m.a = a; true } None => false } } else { true },
            Shift::Frontends { cluster, from, by } => if lv == "frontend" && m.a == cluster { match adj(m.b, from, by) { Some(b) => { m.b = b; true } None => false } } else { true },
            Shift::Backends { cluster, from, by } => if lv == "backend" && m.a == cluster { match adj(m.b, from, by) { Some(b) => { m.b = b; true } None => false } } else { true },
        };
        if keep { out.push(m); }
    }
    out
}

fn shrink_cfg(c: &Cfg) -> Vec<(Cfg, Shift)> {
    let mut out = Vec::new();
    // halves first
    let (nc, nl) = (c.clusters.len(), c.listeners.len());
    if nc > 1 { let mut q = c.clone(); q.clusters.truncate(nc / 2); out.push((q, Shift::Clusters { from: nc / 2, by: nc - nc / 2 })); let mut q = c.clone(); q.clusters.drain(..nc / 2); out.push((q, Shift::Clusters { from: 0, by: nc / 2 })); }
    if nl > 1 { let mut q = c.clone(); q.listeners.truncate(nl / 2); out.push((q, Shift::Listeners { from: nl / 2, by: nl - nl / 2 })); let mut q = c.clone(); q.listeners.drain(..nl / 2); out.push((q, Shift::Listeners { from: 0, by: nl / 2 })); }
    for i in 0..nc { let mut q = c.clone(); q.clusters.remove(i); out.push((q, Shift::Clusters { from: i, by: 1 })); }
    for i in 0..nl { let mut q = c.clone(); q.listeners.remove(i); out.push((q, Shift::Listeners { from: i, by: 1 })); }
    for i in 0..nc {
        let (nf, nb) = (c.clusters[i].frontends.len(), c.clusters[i].backends.len());
        if nf > 1 { let mut q = c.clone(); q.clusters[i].frontends.truncate(nf / 2); out.push((q, Shift::Frontends { cluster: i, from: nf / 2, by: nf - nf / 2 })); }
        if nb > 1 { let mut q = c.clone(); q.clusters[i].backends.truncate(nb / 2); out.push((q, Shift::Backends { cluster: i, from: nb / 2, by: nb - nb / 2 })); }
        for j in 0..nf { let mut q = c.clone(); q.clusters[i].frontends.remove(j); out.push((q, Shift::Frontends { cluster: i, from: j, by: 1 })); }
        for j in 0..nb { let mut q = c.clone(); q.clusters[i].backends.remove(j); out.push((q, Shift::Backends { cluster: i, from: j, by: 1 })); }
    }
    if !c.globals.is_empty() { let mut q = c.clone(); q.globals.clear(); out.push((q, Shift::None)); }
    for k in c.globals.keys() { let mut q = c.clone(); q.globals.remove(k); out.push((q, Shift::None)); }
    for i in 0..nl {
        if c.listeners[i].len() > 3 { let mut q = c.clone(); q.listeners[i].retain(|k, _| k == "address" || k == "protocol"); out.push((q, Shift::None)); }
        for k in c.listeners[i].keys() { if k != "address" && k != "protocol" { let mut q = c.clone(); q.listeners[i].remove(k); out.push((q, Shift::None)); } }
    }
    for i in 0..nc {
        for k in c.clusters[i].fields.keys() { if k != "protocol" { let mut q = c.clone(); q.clusters[i].fields.remove(k); out.push((q, Shift::None)); } }
        for j in 0..c.clusters[i].frontends.len() {
            for k in c.clusters[i].frontends[j].keys() { if k != "address" && k != "hostname" { let mut q = c.clone(); q.clusters[i].frontends[j].remove(k); out.push((q, Shift::None)); } }
        }
        for j in 0..c.clusters[i].backends.len() {
            for k in c.clusters[i].backends[j].keys() { if k != "address" { let mut q = c.clone(); q.clusters[i].backends[j].remove(k); out.push((q, Shift::None)); } }
        }
    }
    out
}

impl Property for C20 {
    fn id(&self) -> &'static str { "C20" }
    fn runs(&self, tier: Tier) -> u64 { match tier { Tier::Quick => 20_000, Tier::Thorough => 1_000_000 } }
    fn gen_plan(&self, seed: u64, tier: Tier) -> Value {
        if let Some(p) = super::hubcfg::dispatch_gen("C20", seed, tier) { return p; } // hubcfg: main-process tier
        // cluster tier: one seed in fifty loads a plain file through the real main process into a real, fresh worker
        if crate::prng::Prng::derive(seed, "c20/cluster-tier").below(50) == 0 { return serde_json::json!({"cluster_reload": super::c20_cluster::generate(seed, tier)}); }
        serde_json::to_value(gen_::generate(seed, tier)).unwrap()
    }
    fn run_plan(&self, plan: &Value) -> RunReport {
        if let Some(r) = super::hubcfg::dispatch_run(plan) { return r; } // hubcfg
        if let Some(c) = plan.get("cluster_reload") { return super::c20_cluster::Standalone.run_plan(c); }
        let p: Plan = match serde_json::from_value(plan.clone()) { Ok(p) => p, Err(e) => return RunReport { harness_error: Some(format!("bad plan: {e}")), ..Default::default() } };
        if std::env::var("SIMK_C20_DEBUG").is_ok() { eprintln!("{}", self.debug_plan(plan)); }
        let o = run(&p, false);
        let mut rep = RunReport { seed: p.seed, family: p.family.clone(), violations: o.violations, trace_hash: o.th.0, summary: summarize(&p), ..Default::default() };
        // one violation per (class, key)
        let mut seen = BTreeSet::new();
        rep.violations.retain(|v| seen.insert((v.class.clone(), v.key.clone())));
        rep.nontrivial = o.nontrivial;
        rep.probes = o.probes;
        rep.harness_error = o.harness_error;
        rep
    }
    fn shrink(&self, plan: &Value) -> Vec<Value> {
        if let Some(c) = super::hubcfg::dispatch_shrink(plan) { return c; } // hubcfg
        if let Some(c) = plan.get("cluster_reload") { return super::c20_cluster::Standalone.shrink(c).into_iter().map(|q| serde_json::json!({"cluster_reload": q})).collect(); }
        let Ok(p) = serde_json::from_value::<Plan>(plan.clone()) else { return vec![] };
        let mut out = Vec::new();
        // a violation of a neighbour only needs that neighbour; a violation of the base needs none
        if !p.mutations.is_empty() { let mut q = p.clone(); q.mutations.clear(); out.push(q); }
        if p.mutations.len() > 1 { for i in 0..p.mutations.len() { let mut q = p.clone(); q.mutations = vec![p.mutations[i].clone()]; out.push(q); } }
        for (c, sh) in shrink_cfg(&p.cfg) {
            let mut q = p.clone();
            q.cfg = c;
            q.mutations = shift_mutations(&p.mutations, sh);
            out.push(q);
        }
        if p.style != 0 { let mut q = p.clone(); q.style = 0; out.push(q); }
        out.into_iter().map(|p| serde_json::to_value(p).unwrap()).collect()
    }
    fn debug_plan(&self, plan: &Value) -> String {
        if let Some(d) = super::hubcfg::dispatch_debug(plan) { return d; } // hubcfg
        if let Some(c) = plan.get("cluster_reload") { return super::c20_cluster::Standalone.debug_plan(c); }
        let Ok(p) = serde_json::from_value::<Plan>(plan.clone()) else { return "bad plan".into() };
        let o = run(&p, true);
        let mut s = o.log.join("\n");
        s += &format!("\nviolations: {:#?}\nharness_error: {:?}\nprobes: {:?}\n", o.violations, o.harness_error, o.probes);
        s
    }
    fn descr(&self) -> Descr {
        Descr {
            level: "exploration",
            rule: "seeded TOML files from the documented grammar (0..600 entries, all four listener protocols, optional fields by swarm density, IPv4/IPv6, path rule kinds, H2 knobs, per-cluster overrides, certificates, two TOML layouts) plus single-mutation constraint-violating neighbours; a run is non-trivial when the loader accepted the base file and >=1 declared object was compared; distinct = distinct hashes of (TOML text, loader verdicts, message census, loaded facts)",
            assumptions: vec!["release semantics (overflow checks off: the u8 message counter wraps)", "certificate / answer fixtures are the PEM files of /repo/lib/assets and /verif/fixtures/c20", "hash seeds come from the installed World (part of the plan)"],
            real: vec!["sozu_command_lib::config::{FileConfig, ConfigBuilder, Config::load_from_path, generate_config_messages}", "toml deserialisation through serde", "sozu_command_lib::state::ConfigState::{dispatch, diff}", "real files on disk"],
            stub: vec!["entropy / clock (World)"],
            not_covered: vec![
                "scatter tier: the real master hub dispatching hundreds of messages into capped worker channels (load_static_config + scatter_on, slow workers, per-worker exactly-once) — hubsim, not built here",
                "workers applying the messages (listeners bound, routers filled): only the main process's ConfigState is observed",
                "saved_state / automatic_state_save paths, command_socket resolution, metrics section effects",
                "referenced files that do not exist (answer / certificate paths): documentation is silent on reject-vs-ignore",
                "doc/configure.md sentence 'refuses to start when an HTTPS listener has no matching frontend' (ambiguous, not checked)",
            ],
        }
    }
}
