//! Property registry.
use crate::framework::Property;

pub mod c01;

pub fn get(id: &str) -> Option<Box<dyn Property>> {
    match id {
        "C01" => Some(Box::new(c01::C01)),
        _ => None,
    }
}
