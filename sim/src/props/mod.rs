//! Property registry.
use crate::framework::Property;

pub mod c01;
pub mod c02;
pub mod c02_mux;
pub mod c03;
pub mod c03_h2;
pub mod c03_early;
pub mod c04;
pub mod c05;
pub mod c05_cluster;
pub mod cluster_cli;
pub mod c06;
pub mod c06_net;
pub mod c07;
pub mod c07_net;
pub mod c07_probe;
pub mod c08;
pub mod c08_bind;
pub mod c09;
pub mod c10;
pub mod c10_handover;
pub mod c10_cluster;
pub mod c10_crash;
pub mod c10_plainstop;
pub mod c10_softstop;
pub mod c11;
pub mod c12;
pub mod c13;
pub mod c14;
pub mod c15;
pub mod c16;
pub mod c17;
pub mod c18;
pub mod c19;
pub mod c20;
pub mod c20_cluster;
pub mod cfggen;
pub mod hubcfg;
pub mod hubcfg_run;

pub fn get(id: &str) -> Option<Box<dyn Property>> {
    match id {
        "C01" => Some(Box::new(c01::C01)),
        "C02" => Some(Box::new(c02::C02)),
        "C03" => Some(Box::new(c03::C03)),
        "C04" => Some(Box::new(c04::C04)),
        "C05" => Some(Box::new(c05::C05)),
        "C06" => Some(Box::new(c06::C06)),
        "C07" => Some(Box::new(c07::C07)),
        "C08" => Some(Box::new(c08::C08)),
        "C09" => Some(Box::new(c09::C09)),
        "C10" => Some(Box::new(c10::C10)),
        "C11" => Some(Box::new(c11::C11)),
        "C12" => Some(Box::new(c12::C12)),
        "C13" => Some(Box::new(c13::C13)),
        "C14" => Some(Box::new(c14::C14)),
        "C15" => Some(Box::new(c15::C15)),
        "C16" => Some(Box::new(c16::C16)),
        "C17" => Some(Box::new(c17::C17)),
        "C18" => Some(Box::new(c18::C18)),
        "C19" => Some(Box::new(c19::C19)),
        "C20" => Some(Box::new(c20::C20)),
        "C20C" => Some(Box::new(c20_cluster::Standalone)),
        _ => None,
    }
}

/// Process-global lazily initialised state inside sozu and its dependencies (rustls provider, X.509 OID
/// tables, default answer templates, regexes, ...) is built the first time a run needs it and draws from
/// the *current* run's seeded entropy (per-thread hash keys come from getrandom). Which run is "the first"
/// depends on how plans are distributed over worker processes, so every process first executes a fixed set
/// of throw-away runs that touch those paths; afterwards a plan's trace is a function of the plan alone.
pub fn warm_up(id: &str) {
    const NETSIM: [&str; 11] = ["C01", "C02", "C03", "C08", "C10", "C13", "C14", "C15", "C16", "C17", "C18"];
    if !NETSIM.contains(&id) { return; }
    use crate::framework::Tier;
    let _ = crate::scenario::run_http(&c01::generate(7, Tier::Quick), false);
    let mut seen = std::collections::BTreeSet::new();
    for seed in 1..40u64 {
        let m = c14::gen_mux(seed, Tier::Quick, c14::Focus::Bodies, "warmup");
        let fam: String = m.family.chars().take(5).collect();
        if seen.insert(fam) { let _ = crate::muxscn::run_mux(&m, false); }
        if seen.len() >= 3 { break; }
    }
}
