//! Property registry.
use crate::framework::Property;

pub mod c01;
pub mod c04;
pub mod c05;
pub mod c06;
pub mod c07;
pub mod c11;
pub mod c12;
pub mod c17;
pub mod c19;
pub mod c20;

pub fn get(id: &str) -> Option<Box<dyn Property>> {
    match id {
        "C01" => Some(Box::new(c01::C01)),
        "C04" => Some(Box::new(c04::C04)),
        "C05" => Some(Box::new(c05::C05)),
        "C06" => Some(Box::new(c06::C06)),
        "C07" => Some(Box::new(c07::C07)),
        "C11" => Some(Box::new(c11::C11)),
        "C12" => Some(Box::new(c12::C12)),
        "C17" => Some(Box::new(c17::C17)),
        "C19" => Some(Box::new(c19::C19)),
        "C20" => Some(Box::new(c20::C20)),
        _ => None,
    }
}
