//! C18 — TCP relays are byte-exact and PROXY protocol headers are exact and unique.
//!
//! One real worker with one TCP listener + cluster + backend per planned connection (so that every
//! backend connection is attributable), clusters in mode none / send / expect / relay. Scripted
//! client and backend peers (actors/tcp.rs) stream position-keyed bytes both ways while verifying
//! the other side's stream, with plan-chosen quanta, pauses, read holds (back-pressure), socket
//! buffer sizes and ways of ending the connection. In expect/relay mode the client first sends a
//! PROXY v2 header of a plan-chosen shape cut into plan-chosen fragments.
//!
//! Violation keys carry a plan-level trigger (never derived from what sozu did):
//! * pipe verdicts: `<symptom>|<c2b|b2c>|<trigger>` with trigger = who sends the first FIN and what
//!   is in flight then by construction: `none` (the closing side waits, out of band, until both
//!   directions were delivered: no FIN races with data), `client_fin_behind_data`,
//!   `backend_fin_behind_data`, `client_half_close`, `backend_half_close`, `both_half_close`, `reset`;
//! * sessions that start in a header state: `<expect|relay>_session|<family>|<split|whole>[|symptom]`
//!   (refused headers: the shape name instead of the family);
//! * whole-worker verdicts: `panic worker|expect_mode_session`, `spin worker|relay_mode_session`.
#![allow(dead_code)]

use std::collections::BTreeMap;
use std::net::SocketAddr;

use serde::{Deserialize, Serialize};
use serde_json::Value;
use sozu_command_lib::{
    config::ListenerBuilder,
    proto::command::{
        request::RequestType, ActivateListener, AddBackend, Cluster, ListenerType, LoadBalancingParams, ProxyProtocolConfig, Request,
        RequestTcpFrontend,
    },
    scm_socket::Listeners,
    state::ConfigState,
};

use crate::actors::master::{MOp, Master};
use crate::actors::tcp::*;
use crate::actors::{gen_byte, Pace, Quantum};
use crate::framework::*;
use crate::netsim::{self, Knobs};
use crate::prng::Prng;
use crate::world::{ConnectMode, SchedCfg, Stats, World, MS, SEC};

pub struct C18;

// =========================================================================== plan

#[derive(Clone, Copy, Debug, Serialize, Deserialize, PartialEq)]
pub enum Mode { None, Send, Expect, Relay }
impl Mode {
    fn name(&self) -> &'static str { match self { Mode::None => "none", Mode::Send => "send", Mode::Expect => "expect", Mode::Relay => "relay" } }
}

#[derive(Clone, Debug, Serialize, Deserialize, PartialEq)]
pub enum HdrClass {
    /// legal v2 header of at most 232 bytes: must be accepted
    Valid,
    /// legal by the specification but longer than the 232 bytes sozu documents as its maximum
    Oversized,
    /// violates the specification (the string names how)
    Malformed(String),
    /// a legal header cut short: the client sends only a strict prefix of it, then its FIN
    Truncated,
}

#[derive(Clone, Debug, Serialize, Deserialize)]
pub struct HdrInfo {
    pub shape: String,
    pub class: HdrClass,
    /// total length of the header bytes the client sends
    pub len: usize,
    /// addresses carried by the header (None for LOCAL / UNSPEC / UNIX)
    pub src: Option<SocketAddr>,
    pub dst: Option<SocketAddr>,
}

#[derive(Clone, Debug, Serialize, Deserialize)]
pub struct ConnPlan {
    pub mode: Mode,
    pub front: SocketAddr,
    pub backend: SocketAddr,
    pub connect_delay_ns: u64,
    pub hdr: Option<HdrInfo>,
    pub client: TcpClientPlan,
    pub server: TcpBackendPlan,
}

#[derive(Clone, Debug, Serialize, Deserialize)]
pub struct TcpPlan {
    pub seed: u64,
    pub family: String,
    pub knobs: Knobs,
    pub sched: SchedCfg,
    pub sndbufs: Option<Vec<i32>>,
    pub front_timeout: u32,
    pub back_timeout: u32,
    pub connect_timeout: u32,
    pub conns: Vec<ConnPlan>,
}

#[derive(Clone, Debug, Default)]
pub struct ConnOutcome {
    pub client: SideRecord,
    pub backend: Vec<SideRecord>,
}

#[derive(Clone, Debug, Default)]
pub struct TcpOutcome {
    pub conns: Vec<ConnOutcome>,
    pub config_finals: BTreeMap<String, u32>,
    pub config_failures: Vec<String>,
    pub panicked: Option<String>,
    pub aborted: Option<String>,
    pub boot_error: Option<String>,
    /// (loop iteration, data syscalls inside it) each time the spin watchdog had to break a proxy loop
    pub spins: Vec<(u64, u64)>,
    pub stats: Stats,
    pub trace_hash: u64,
    pub t_end: u64,
    pub log: Vec<String>,
}

// =========================================================================== header shapes

fn v4(a: &str) -> SocketAddr { a.parse().unwrap() }

fn tlv_fill(total_value: usize) -> Vec<(u8, Vec<u8>)> {
    // one PP2_TYPE_NOOP TLV whose value has `total_value` bytes (3 bytes of TLV header come on top)
    vec![(0x04, (0..total_value).map(|i| (i as u8) ^ 0x5A).collect())]
}

/// (shape name, class, header bytes, src, dst). Everything the client can be asked to send.
pub fn header_shapes() -> Vec<(String, HdrClass, Vec<u8>, Option<SocketAddr>, Option<SocketAddr>)> {
    let s4 = v4("203.0.113.7:51000");
    let d4 = v4("198.51.100.9:443");
    let s6: SocketAddr = "[2001:db8:1::7]:51001".parse().unwrap();
    let d6: SocketAddr = "[2001:db8:2::9]:8443".parse().unwrap();
    let inet4 = PpAddr::Inet { src: s4, dst: d4 };
    let inet6 = PpAddr::Inet { src: s6, dst: d6 };
    let spec = |command: u8, transport: u8, addr: PpAddr, tlvs: Vec<(u8, Vec<u8>)>| PpSpec { command, version: 2, transport, addr, tlvs };
    let mut v: Vec<(String, HdrClass, Vec<u8>, Option<SocketAddr>, Option<SocketAddr>)> = Vec::new();
    let mut add = |name: &str, class: HdrClass, bytes: Vec<u8>, src: Option<SocketAddr>, dst: Option<SocketAddr>| v.push((name.to_string(), class, bytes, src, dst));
    // ---- valid, <= 232 bytes
    add("proxy_tcp4", HdrClass::Valid, spec(1, 1, inet4.clone(), vec![]).encode(), Some(s4), Some(d4));
    add("proxy_tcp6", HdrClass::Valid, spec(1, 1, inet6.clone(), vec![]).encode(), Some(s6), Some(d6));
    add("local_unspec", HdrClass::Valid, spec(0, 0, PpAddr::Unspec { filler: 0 }, vec![]).encode(), None, None);
    add("local_tcp4", HdrClass::Valid, spec(0, 1, inet4.clone(), vec![]).encode(), None, None);
    add("proxy_unspec_filler12", HdrClass::Valid, spec(1, 0, PpAddr::Unspec { filler: 12 }, vec![]).encode(), None, None);
    add("proxy_udp4", HdrClass::Valid, spec(1, 2, inet4.clone(), vec![]).encode(), Some(s4), Some(d4));
    add("proxy_unix", HdrClass::Valid, spec(1, 1, PpAddr::Unix { src: b"/run/src.sock".to_vec(), dst: b"/run/dst.sock".to_vec() }, vec![]).encode(), None, None);
    add("tcp4_tlv_to38", HdrClass::Valid, spec(1, 1, inet4.clone(), tlv_fill(7)).encode(), Some(s4), Some(d4));
    add("tcp4_tlv_to52", HdrClass::Valid, spec(1, 1, inet4.clone(), tlv_fill(21)).encode(), Some(s4), Some(d4));
    add("tcp4_tlv_to53", HdrClass::Valid, spec(1, 1, inet4.clone(), tlv_fill(22)).encode(), Some(s4), Some(d4));
    add("tcp6_tlv_to72", HdrClass::Valid, spec(1, 1, inet6.clone(), tlv_fill(17)).encode(), Some(s6), Some(d6));
    add("tcp4_tlv_to231", HdrClass::Valid, spec(1, 1, inet4.clone(), tlv_fill(200)).encode(), Some(s4), Some(d4));
    add("tcp4_tlv_to232", HdrClass::Valid, spec(1, 1, inet4.clone(), tlv_fill(201)).encode(), Some(s4), Some(d4));
    // ---- legal but over sozu's documented 232-byte maximum
    add("tcp4_tlv_to233", HdrClass::Oversized, spec(1, 1, inet4.clone(), tlv_fill(202)).encode(), Some(s4), Some(d4));
    add("tcp6_tlv_to300", HdrClass::Oversized, spec(1, 1, inet6.clone(), tlv_fill(245)).encode(), Some(s6), Some(d6));
    add("unix_tlv_to240", HdrClass::Oversized, spec(1, 1, PpAddr::Unix { src: b"a".to_vec(), dst: b"b".to_vec() }, tlv_fill(5)).encode(), None, None);
    // ---- malformed
    let good = spec(1, 1, inet4.clone(), vec![]).encode();
    for k in [0usize, 5, 11] {
        let mut b = good.clone();
        b[k] ^= 0x40;
        add(&format!("bad_sig_at{k}"), HdrClass::Malformed("signature".into()), b, None, None);
    }
    let mut b = good.clone(); b[12] = 0x31;
    add("bad_version3", HdrClass::Malformed("version".into()), b, None, None);
    let mut b = good.clone(); b[12] = 0x11;
    add("bad_version1", HdrClass::Malformed("version".into()), b, None, None);
    let mut b = good.clone(); b[12] = 0x22;
    add("bad_command2", HdrClass::Malformed("command".into()), b, None, None);
    let mut b = good.clone(); b[13] = 0x41;
    add("bad_family4", HdrClass::Malformed("family".into()), b, None, None);
    add("v1_text", HdrClass::Malformed("signature".into()), b"PROXY TCP4 203.0.113.7 198.51.100.9 51000 443\r\n".to_vec(), None, None);
    // a valid header cut short (the client then half-closes): incomplete, never acceptable as a header
    add("tcp4_cut_at20", HdrClass::Truncated, good[..20].to_vec(), None, None);
    add("tcp6_cut_at40", HdrClass::Truncated, spec(1, 1, inet6, vec![]).encode()[..40].to_vec(), None, None);
    v
}

fn shape_by_name(name: &str) -> (String, HdrClass, Vec<u8>, Option<SocketAddr>, Option<SocketAddr>) {
    header_shapes().into_iter().find(|s| s.0 == name).expect("unknown header shape")
}

// =========================================================================== generator

fn minq(q: &Quantum) -> u64 {
    match q { Quantum::All => 2048, Quantum::Fixed(n) => (*n).max(1) as u64, Quantum::Uniform(a, _) => (*a).max(1) as u64 }
}

/// Pace whose pauses add up to well under half a virtual second whatever the fragmentation.
fn bounded_pace(rng: &mut Prng, own: u64, peer: u64) -> Pace {
    let mut wq = Quantum::random(rng);
    let mut rq = Quantum::random(rng);
    let tiny = |q: &Quantum| minq(q) < 64;
    if own > 24 * 1024 && tiny(&wq) { wq = Quantum::Uniform(200, 4000); }
    if peer > 24 * 1024 && tiny(&rq) { rq = Quantum::Uniform(200, 4000); }
    let gap_pm = *rng.pick(&[0u32, 0, 0, 50, 200, 500]);
    let mut gap_ns = *rng.pick(&[1_000u64, 100_000, 1_000_000, 20_000_000]);
    if gap_pm > 0 {
        // worst case: every write is one quantum; reads come in as finely as the other side may dribble
        // (1 byte at a time is possible up to 24 KiB, at least 200 bytes per write beyond)
        let ops = own / minq(&wq) + if peer <= 24 * 1024 { peer } else { peer / 200 } + 4;
        let pauses = ops * gap_pm as u64 / 1000 + 1;
        gap_ns = gap_ns.min(400_000_000 / pauses).max(1);
    }
    Pace { wq, rq, gap_pm, gap_ns }
}

fn stream_len(rng: &mut Prng, buffer_size: u64, max: u64) -> u64 {
    let b = buffer_size;
    let v = match rng.below(10) {
        0 => 0,
        1 => rng.below(64),
        2 => rng.below(4096),
        3 => rng.below(max + 1),
        4 => rng.below(70_000),
        _ => {
            let base = *rng.pick(&[1u64, 28, 52, 232, 4608, b, 2 * b, 3 * b, 16384, 65536, 131072, 212992, 262144]);
            let d = *rng.pick(&[0i64, 0, 1, -1, 2, -2, 9, -9, 17]);
            (base as i64 + d).max(0) as u64
        }
    };
    v.min(max)
}

/// Names the close choreography of a connection from the plan alone (never from what sozu did).
pub fn flow_of(c: &ConnPlan) -> String {
    let (cs, ss) = (&c.client.side, &c.server.side);
    match (cs.end, ss.end) {
        (End::AfterDelivered, End::WaitPeer) => "client_closes_when_quiet".into(),
        (End::WaitPeer, End::AfterDelivered) => "backend_closes_when_quiet".into(),
        (End::AfterAll, End::WaitPeer) => "client_closes_after_all".into(),
        (End::WaitPeer, End::AfterAll) => "backend_closes_after_all".into(),
        (End::HalfClose, End::WaitPeer) => if ss.len == 0 { "client_fin_after_data".into() } else { "client_half_close".into() },
        (End::WaitPeer, End::HalfClose) => if cs.len == 0 { "backend_fin_after_data".into() } else { "backend_half_close".into() },
        (End::HalfClose, End::HalfClose) => "both_half_close".into(),
        (End::CloseNow, End::WaitPeer) => if ss.len == 0 { "client_close_after_data".into() } else { "client_reset".into() },
        (End::WaitPeer, End::CloseNow) => if cs.len == 0 { "backend_close_after_data".into() } else { "backend_reset".into() },
        (a, b) => format!("{a:?}/{b:?}"),
    }
}

const DEADLINE_NS: u64 = 200 * SEC;

fn make_conn(rng: &mut Prng, idx: usize, mode: Mode, v6: bool, buffer_size: u64, max_len: u64, flow: u64, hdr: Option<(String, HdrClass, Vec<u8>, Option<SocketAddr>, Option<SocketAddr>)>) -> ConnPlan {
    let (front, backend, src): (SocketAddr, SocketAddr, SocketAddr) = if v6 {
        (format!("[2001:db8:f::{:x}]:{}", idx + 1, 8000 + idx).parse().unwrap(), format!("[2001:db8:b::{:x}]:{}", idx + 1, 9000 + idx).parse().unwrap(), if rng.below(4) == 0 { format!("[::ffff:192.0.2.{}]:{}", 7 + idx, 40001 + idx).parse().unwrap() } else { format!("[2001:db8:c::{:x}]:{}", 7 + idx, 40001 + idx).parse().unwrap() })
    } else {
        (format!("10.0.0.{}:{}", idx + 1, 8000 + idx).parse().unwrap(), format!("10.1.0.{}:{}", idx + 1, 9000 + idx).parse().unwrap(), format!("192.0.2.{}:{}", 7 + idx, 40001 + idx).parse().unwrap())
    };
    let ckey = 0x1000 + 2 * idx as u64;
    let skey = 0x1001 + 2 * idx as u64;
    let mut clen = stream_len(rng, buffer_size, max_len);
    let mut slen = stream_len(rng, buffer_size, max_len);
    let bad_hdr = hdr.as_ref().map_or(false, |h| h.1 != HdrClass::Valid);
    // close choreography
    let (cend, send) = match flow {
        0 => (End::AfterDelivered, End::WaitPeer),
        1 => (End::WaitPeer, End::AfterDelivered),
        11 => (End::AfterAll, End::WaitPeer),
        12 => (End::WaitPeer, End::AfterAll),
        2 => { slen = 0; (End::HalfClose, End::WaitPeer) }
        3 => { clen = 0; (End::WaitPeer, End::HalfClose) }
        4 => { slen = 0; (End::CloseNow, End::WaitPeer) }
        5 => { clen = 0; (End::WaitPeer, End::CloseNow) }
        6 => { slen = slen.max(1); (End::HalfClose, End::WaitPeer) }
        7 => { clen = clen.max(1); (End::WaitPeer, End::HalfClose) }
        8 => (End::HalfClose, End::HalfClose),
        9 => { slen = slen.max(1); (End::CloseNow, End::WaitPeer) }
        _ => { clen = clen.max(1); (End::WaitPeer, End::CloseNow) }
    };
    let (mut cend, mut send) = (cend, send);
    // "quiet" means no FIN races with anything, connection establishment included: somebody says something first
    if flow <= 1 && clen == 0 && slen == 0 { if rng.below(2) == 0 { clen = 1 + rng.below(40) } else { slen = 1 + rng.below(40) } }
    if bad_hdr {
        // the client states its (bad) header, a little payload, and waits for the verdict
        clen = clen.min(300);
        slen = 0;
        cend = if hdr.as_ref().unwrap().1 == HdrClass::Truncated { clen = 0; End::HalfClose } else { End::WaitPeer };
        send = End::WaitPeer;
    }
    let hold = |rng: &mut Prng| if rng.below(4) == 0 { *rng.pick(&[1 * MS, 20 * MS, 200 * MS]) } else { 0 };
    let name = format!("k{idx}");
    let mut cside = SidePlan {
        tag: format!("{name}c"), peer_tag: format!("{name}b"),
        key: ckey, len: clen, peer_key: skey, peer_len: slen,
        pace: bounded_pace(rng, clen, slen),
        sndbuf: if rng.below(3) == 0 { Some(*rng.pick(&[4608, 9216, 65536])) } else { None },
        read_hold_ns: hold(rng), write_hold_ns: if rng.below(6) == 0 { hold(rng) } else { 0 },
        end: cend, pre: vec![], frags: vec![], deadline_ns: DEADLINE_NS,
    };
    let sside = SidePlan {
        tag: format!("{name}b"), peer_tag: format!("{name}c"),
        key: skey, len: slen, peer_key: ckey, peer_len: clen,
        pace: bounded_pace(rng, slen, clen),
        sndbuf: if rng.below(3) == 0 { Some(*rng.pick(&[4608, 9216, 65536])) } else { None },
        read_hold_ns: hold(rng), write_hold_ns: if rng.below(6) == 0 { hold(rng) } else { 0 },
        end: send, pre: vec![], frags: vec![], deadline_ns: DEADLINE_NS,
    };
    let mut info = None;
    let mut prefix = match mode { Mode::Send => Prefix::V2Header, _ => Prefix::None };
    if let Some((shape, class, bytes, hs, hd)) = hdr {
        let hl = bytes.len() as u64;
        // seeded fragmentation of the header; the last fragment may swallow the first payload bytes
        let mut frags: Vec<Frag> = Vec::new();
        let ncuts = match rng.below(6) { 0 => 0, 1 | 2 => 1, 3 => 2, 4 => 3, _ => rng.below(hl.min(12)) as usize };
        let mut cuts: Vec<u64> = (0..ncuts).map(|_| 1 + rng.below(hl.max(2) - 1)).collect();
        cuts.sort();
        cuts.dedup();
        for c in cuts { if c < hl { frags.push(Frag { upto: c, delay_ns: *rng.pick(&[0u64, 1_000, 1_000, 50_000, 2 * MS]) }); } }
        let glue = if clen > 0 && rng.below(3) == 0 { 1 + rng.below(clen.min(64)) } else { 0 };
        frags.push(Frag { upto: hl + glue, delay_ns: *rng.pick(&[0u64, 0, 1_000, 1 * MS]) });
        cside.pre = bytes.clone();
        cside.frags = frags;
        if mode == Mode::Relay && class == HdrClass::Valid { prefix = Prefix::Exact(bytes.clone()); }
        info = Some(HdrInfo { shape, class, len: bytes.len(), src: hs, dst: hd });
    }
    ConnPlan {
        mode, front, backend,
        connect_delay_ns: if rng.below(3) == 0 { rng.below(20 * MS) } else { 0 },
        hdr: info,
        client: TcpClientPlan { name: name.clone(), src, dst: front, start_ns: rng.below(3) * MS, wait_backend: true, side: cside },
        server: TcpBackendPlan { name: format!("b{idx}"), addr: backend, client: name, prefix, side: sside },
    }
}

pub fn generate(seed: u64, tier: Tier) -> TcpPlan {
    let mut rng = Prng::derive(seed, "c18/plan");
    let faulty = rng.below(2) == 1;
    let mut knobs = Knobs::default();
    knobs.buffer_size = *rng.pick(&[16393u64, 16393, 16393, 4096, 2048, 32768, 65536]);
    knobs.max_buffers = *rng.pick(&[1000u64, 1000, 64, 16]);
    let max_len: u64 = match tier { Tier::Quick => 300_000, Tier::Thorough => 3_000_000 };
    // "churn" plans: three tiny sessions starting together, at least one of which hangs up at once, big actor
    // bursts and permuted events: sessions are torn down and set up within one epoll batch (token recycling)
    let churn = rng.below(12) == 0;
    let nconns = if churn { 3 } else { *rng.pick(&[1usize, 1, 1, 2, 3]) };
    let max_len: u64 = if churn { 8 } else { max_len };
    let mut conns = Vec::new();
    let shapes = header_shapes();
    let mut fam: Vec<String> = Vec::new();
    for i in 0..nconns {
        let mode = if churn { *rng.pick(&[Mode::None, Mode::Send]) } else { *rng.pick(&[Mode::None, Mode::None, Mode::None, Mode::None, Mode::Send, Mode::Send, Mode::Send, Mode::Send, Mode::Expect, Mode::Relay]) };
        let v6 = rng.below(4) == 0;
        let hdr = match mode {
            Mode::Expect | Mode::Relay => {
                // two thirds valid shapes
                let valid: Vec<_> = shapes.iter().filter(|s| s.1 == HdrClass::Valid).cloned().collect();
                let other: Vec<_> = shapes.iter().filter(|s| s.1 != HdrClass::Valid).cloned().collect();
                Some(if rng.below(3) < 2 { rng.pick(&valid).clone() } else { rng.pick(&other).clone() })
            }
            _ => None,
        };
        // orderly flows dominate; each of the others has its own trigger label
        // quiet flows dominate; each of the others has its own trigger label. Sessions that start in a
        // PROXY-header state are about the header: they always end quietly (FIN handling is probed in none/send mode)
        let flow = if churn { if i == 0 { *rng.pick(&[10u64, 10, 10, 5, 4, 2, 9]) } else { rng.below(2) } }
            else if hdr.is_some() { rng.below(2) }
            else { *rng.pick(&[0u64, 0, 0, 0, 1, 1, 1, 1, 2, 3, 4, 5, 6, 7, 8, 9, 10, 11, 12]) };
        let mut c = make_conn(&mut rng, i, mode, v6, knobs.buffer_size, max_len, flow, hdr);
        if churn && i == 0 && flow == 10 && rng.below(3) < 2 {
            // the backend hangs up on accept without a byte while the client talks
            c.server.side.len = 0;
            c.client.side.peer_len = 0;
        }
        if churn {
            // a few proxy-loop iterations (1 us each) apart, so that one session sets up while another tears down
            c.client.start_ns = i as u64 * *rng.pick(&[0u64, 1_000, 2_000, 3_000, 5_000]);
            c.connect_delay_ns = 0;
            for s in [&mut c.client.side, &mut c.server.side] { s.pace = Pace::greedy(); s.read_hold_ns = 0; s.write_hold_ns = 0; }
        }
        fam.push(format!("{}:{}", mode.name(), flow_of(&c)));
        conns.push(c);
    }
    fam.sort();
    fam.dedup();
    TcpPlan {
        seed,
        family: format!("{}{}[{}]", if faulty { "buggify" } else { "plain" }, if churn { "+churn" } else { "" }, fam.join(",")),
        knobs,
        sched: { let mut sc = netsim::default_sched(&mut rng, faulty); if churn { sc.actor_burst = 8; sc.ev_permute_pm = 800; sc.ev_truncate_pm = 0; } sc },
        sndbufs: if rng.below(2) == 0 { Some(vec![0, 4608, 9216, 32768]) } else { None },
        front_timeout: 60,
        back_timeout: 30,
        connect_timeout: 3,
        conns,
    }
}

/// Fault enumeration: every header shape split at every byte position (one cut, the proxy is
/// guaranteed to see it), in expect and relay mode, payload following immediately.
pub fn enumerate(tier: Tier) -> Vec<TcpPlan> {
    let mut out = Vec::new();
    let shapes = header_shapes();
    for (si, sh) in shapes.iter().enumerate() {
        let hl = sh.2.len();
        let positions: Vec<usize> = match tier {
            Tier::Thorough => (0..hl).collect(),
            // quick: unsplit, and the boundaries of sozu's reassembly windows
            Tier::Quick => [0usize, 13, 16, 28, 52].iter().copied().filter(|p| *p < hl).collect(),
        };
        for mode in [Mode::Expect, Mode::Relay] {
            for cut in positions.iter().copied() {
                let seed = 0xE000_0000u64 + ((si as u64) << 16) + ((cut as u64) << 2) + if mode == Mode::Relay { 1 } else { 0 };
                let mut rng = Prng::derive(seed, "c18/enum");
                let mut knobs = Knobs::default();
                knobs.buffer_size = 16393;
                let flow = if cut % 2 == 0 { 0 } else { 1 };
                let mut c = make_conn(&mut rng, 0, mode, false, knobs.buffer_size, 2000, flow, Some(sh.clone()));
                // deterministic fragmentation: exactly one visible cut, payload glued to the second half
                let glue = c.client.side.len.min(40);
                let mut frags = Vec::new();
                if cut > 0 { frags.push(Frag { upto: cut as u64, delay_ns: 1_000 }); }
                frags.push(Frag { upto: hl as u64 + if cut % 3 == 0 { glue } else { 0 }, delay_ns: if cut % 3 == 1 { 1_000 } else { 0 } });
                c.client.side.frags = frags;
                c.client.side.pace = Pace::greedy();
                c.server.side.pace = Pace::greedy();
                c.client.side.read_hold_ns = 0;
                c.server.side.read_hold_ns = 0;
                c.client.side.write_hold_ns = 0;
                c.server.side.write_hold_ns = 0;
                out.push(TcpPlan {
                    seed,
                    family: format!("enum[{}:{}]", mode.name(), sh.0),
                    knobs,
                    sched: SchedCfg::default(),
                    sndbufs: None,
                    front_timeout: 60, back_timeout: 30, connect_timeout: 3,
                    conns: vec![c],
                });
            }
        }
    }
    out
}

pub fn summarize(p: &TcpPlan) -> String {
    let mut s = format!("{} buf={} ", p.family, p.knobs.buffer_size);
    for c in &p.conns {
        let (cs, ss) = (&c.client.side, &c.server.side);
        s += &format!("[{} {} {} c2b={} {:?}/{:?} b2c={} {:?}/{:?}", c.client.name, c.mode.name(), flow_of(c), cs.len, cs.pace.wq, ss.pace.rq, ss.len, ss.pace.wq, cs.pace.rq);
        if let Some(h) = &c.hdr { s += &format!(" hdr={}({}B,{:?}) frags={:?}", h.shape, h.len, h.class, cs.frags.iter().map(|f| (f.upto, f.delay_ns)).collect::<Vec<_>>()); }
        s += "] ";
    }
    s += &format!("sched(trunc={} perm={} preempt={} short={} eagain={})", p.sched.ev_truncate_pm, p.sched.ev_permute_pm, p.sched.preempt_pm, p.sched.short_write_pm, p.sched.eagain_pm);
    s
}

// =========================================================================== runner

pub fn config_requests(p: &TcpPlan) -> Vec<Request> {
    let mut v: Vec<Request> = Vec::new();
    for (i, c) in p.conns.iter().enumerate() {
        let mut lb = ListenerBuilder::new_tcp(c.front.into());
        lb.with_expect_proxy(matches!(c.mode, Mode::Expect | Mode::Relay));
        lb.with_front_timeout(Some(p.front_timeout));
        lb.with_back_timeout(Some(p.back_timeout));
        lb.with_connect_timeout(Some(p.connect_timeout));
        v.push(RequestType::AddTcpListener(lb.to_tcp(None).unwrap()).into());
        v.push(RequestType::ActivateListener(ActivateListener { address: c.front.into(), proxy: ListenerType::Tcp.into(), from_scm: false }).into());
        let cluster_id = format!("tcp{i}");
        let pp = match c.mode {
            Mode::None => None,
            Mode::Send => Some(ProxyProtocolConfig::SendHeader as i32),
            Mode::Expect => Some(ProxyProtocolConfig::ExpectHeader as i32),
            Mode::Relay => Some(ProxyProtocolConfig::RelayHeader as i32),
        };
        v.push(RequestType::AddCluster(Cluster { cluster_id: cluster_id.clone(), proxy_protocol: pp, ..Default::default() }).into());
        v.push(RequestType::AddTcpFrontend(RequestTcpFrontend { cluster_id: cluster_id.clone(), address: c.front.into(), tags: Default::default() }).into());
        v.push(RequestType::AddBackend(AddBackend {
            cluster_id: cluster_id.clone(),
            backend_id: format!("{cluster_id}-0"),
            address: c.backend.into(),
            load_balancing_parameters: Some(LoadBalancingParams::default()),
            sticky_id: None,
            backup: None,
        }).into());
    }
    v
}

/// A worker panic is an observation (caught by `run_worker`, reported as a `panic` violation), not
/// console output: hundreds of panic messages + backtraces on stderr would fill the pipe the batch
/// driver only drains after the child exits. Panics outside sozu's sources keep a one-line message.
fn quiet_worker_panics() {
    static ONCE: std::sync::Once = std::sync::Once::new();
    ONCE.call_once(|| {
        std::panic::set_hook(Box::new(|info| {
            let from_sozu = info.location().map_or(false, |l| l.file().contains("/lib/src/") || l.file().contains("/command/src/"));
            if !from_sozu { eprintln!("harness panic: {info}"); }
        }));
    });
}

pub fn run_tcp(plan: &TcpPlan, log: bool) -> TcpOutcome {
    let mut plan = plan.clone();
    // A proxy loop that never reaches epoll_wait can only be observed (and broken) from inside the
    // data-syscall hooks: keep preemption on. Relay sessions are where such a loop is known to
    // exist; keep the watchdog's wake-up reasoning simple there (no delayed connect, no forced re-arm).
    plan.sched.preempt_pm = plan.sched.preempt_pm.max(20);
    if plan.conns.iter().any(|c| c.mode == Mode::Relay) {
        plan.sched.short_write_pm = 0;
        plan.sched.eagain_pm = 0;
        for c in plan.conns.iter_mut() { c.connect_delay_ns = 0; }
    }
    quiet_worker_panics();
    netsim::on_fresh_thread(move || {
        let mut w = World::new(plan.seed, plan.sched.clone());
        World::install(&mut w);
        w.log_on = log;
        w.sndbuf_choices = plan.sndbufs.clone();
        let mut client_ids = Vec::new();
        let mut backend_ids = Vec::new();
        let mut wd_id = 0;
        let n = plan.conns.len() as i64;
        let reqs = config_requests(&plan);
        let (end, mid) = netsim::run_worker(&mut w, plan.knobs.server_config(), ConfigState::new(), Listeners::default(), |w, m: &mut Master| {
            m.send_all(reqs);
            m.push(MOp::Barrier);
            m.push(MOp::SetBoard("configured".into(), 1));
            m.push(MOp::WaitBoard("tcp_done".into(), 2 * n));
            m.push(MOp::Sleep(50 * MS));
            m.push(MOp::HardStop);
            wd_id = SpinWatchdog::install(w);
            for c in &plan.conns {
                w.topo.insert(c.backend, ConnectMode::Listen { delay_ns: c.connect_delay_ns });
                let rng = Prng::derive(plan.seed, &format!("tcpbackend/{}", c.server.name));
                backend_ids.push(w.add_actor(Box::new(TcpBackend::new(c.server.clone(), rng))));
            }
            for c in &plan.conns {
                let rng = Prng::derive(plan.seed, &format!("tcpclient/{}", c.client.name));
                client_ids.push(w.add_actor(Box::new(TcpClient::new(c.client.clone(), rng))));
            }
        });
        let mut out = TcpOutcome::default();
        out.panicked = end.panicked;
        out.aborted = end.aborted;
        out.boot_error = end.boot_error;
        {
            let m: &Master = w.actor_ref(mid);
            out.config_finals = m.data.finals.clone();
            for (_, r) in &m.data.responses {
                if r.status == sozu_command_lib::proto::command::ResponseStatus::Failure as i32 { out.config_failures.push(format!("{}: {}", r.id, r.message)); }
            }
        }
        for i in 0..plan.conns.len() {
            let c: &TcpClient = w.actor_ref(client_ids[i]);
            let b: &TcpBackend = w.actor_ref(backend_ids[i]);
            out.conns.push(ConnOutcome { client: c.record(), backend: b.records() });
        }
        out.spins = w.actor_ref::<SpinWatchdog>(wd_id).trips.clone();
        out.stats = w.stats.clone();
        out.trace_hash = w.trace.0;
        out.t_end = w.now;
        out.log = std::mem::take(&mut w.log);
        out
    })
}

// =========================================================================== oracle (reference model)
//
// A TCP relay is two independent, reliable, ordered byte pipes. Whatever one end wrote before its
// FIN is exactly what the other end reads before EOF; a FIN travels behind the data and closes
// only its own direction. In send mode the backend-side pipe starts with one v2 header describing
// (client source, listener address); in relay mode with the client's own header bytes; in expect
// mode the client's header is consumed. A header that is not a legal (<= 232 byte) v2 header
// makes the session end with nothing delivered to the backend.

/// How many leading stream bytes are missing, judged from the first raw bytes received.
fn leading_loss(head: &[u8], key: u64) -> Option<u64> {
    if head.len() < 8 { return None; }
    (1..=512u64).find(|k| head.iter().take(24).enumerate().all(|(j, b)| *b == gen_byte(key, j as u64 + k)))
}

fn static_delay(c: &ConnPlan) -> u64 {
    let (cs, ss) = (&c.client.side, &c.server.side);
    c.client.start_ns + c.connect_delay_ns + cs.read_hold_ns + cs.write_hold_ns + ss.read_hold_ns + ss.write_hold_ns + cs.frags.iter().map(|f| f.delay_ns).sum::<u64>()
}

/// Coarse, plan-level trigger of a connection: who sends the first FIN and what is still in flight
/// at that moment by construction of the plan. "none": the closing side waits (out of band) until
/// both directions were delivered completely, so no FIN ever races with data.
pub fn trigger_of(c: &ConnPlan) -> &'static str {
    match flow_of(c).as_str() {
        "client_closes_when_quiet" | "backend_closes_when_quiet" => "none",
        "client_closes_after_all" | "client_fin_after_data" | "client_close_after_data" => "client_fin_behind_data",
        "backend_closes_after_all" | "backend_fin_after_data" | "backend_close_after_data" => "backend_fin_behind_data",
        "client_half_close" => "client_half_close",
        "backend_half_close" => "backend_half_close",
        "both_half_close" => "both_half_close",
        "client_reset" | "backend_reset" => "reset",
        _ => "other",
    }
}

pub fn oracle(p: &TcpPlan, o: &TcpOutcome) -> Vec<Violation> {
    let mut v = Vec::new();
    let modes: Vec<&str> = { let mut m: Vec<&str> = p.conns.iter().map(|c| c.mode.name()).collect(); m.sort(); m.dedup(); m };
    let has = |m: Mode| p.conns.iter().any(|c| c.mode == m);
    if let Some(pn) = &o.panicked {
        // the whole worker died: what the peers saw afterwards says nothing more
        let trig = if has(Mode::Expect) { "expect_mode_session".to_string() } else { format!("modes={}", modes.join("+")) };
        v.push(Violation::new("panic", format!("worker|{trig}"), pn.clone()));
        return v;
    }
    if let Some((it, calls)) = o.spins.first() {
        // the worker looped without returning to its event loop until the harness broke the loop
        let trig = if has(Mode::Relay) { "relay_mode_session".to_string() } else { format!("modes={}", modes.join("+")) };
        v.push(Violation::new("spin", format!("worker|{trig}"), format!("the worker made {calls} data syscalls inside one event-loop iteration (#{it}) without returning to epoll_wait; the harness broke the loop by shutting down the worker's sockets ({} time(s) in this run)", o.spins.len())));
        return v;
    }
    if let Some(a) = &o.aborted {
        v.push(Violation::new("no_exit", format!("{a}|modes={}", modes.join("+")), format!("run aborted: {a}")));
        return v;
    }
    for (i, c) in p.conns.iter().enumerate() {
        let mut cv = judge_conn(p, i, c, &o.conns[i]);
        if matches!(c.mode, Mode::Expect | Mode::Relay) { rekey_header_session(c, &mut cv); }
        v.extend(cv);
    }
    v
}

/// Sessions that start in a PROXY-header state (expect, relay) run their own state machines: whatever goes
/// wrong in them is keyed by mode, address family of the header and whether the header was fragmented.
fn rekey_header_session(c: &ConnPlan, cv: &mut Vec<Violation>) {
    let pre = &c.client.side.pre;
    let split = if c.client.side.frags.iter().any(|f| f.upto < pre.len() as u64) { "split" } else { "whole" };
    let fam = match pre.get(13).map(|b| b >> 4) { Some(0) => "unspec", Some(1) => "inet4", Some(2) => "inet6", Some(3) => "unix", _ => "other" };
    let shape = c.hdr.as_ref().map(|h| h.shape.as_str()).unwrap_or("-");
    let valid = c.hdr.as_ref().map_or(true, |h| h.class == HdrClass::Valid);
    for x in cv.iter_mut() {
        let sym = x.key.split('|').next().unwrap_or("").to_string();
        // refused-header verdicts keep the exact shape (each shape is a distinct input class)
        let what = if valid { format!("{fam}|{split}") } else { format!("{shape}|{split}") };
        x.key = match x.class.as_str() {
            "relay_bytes_differ" | "eof_before_data" => format!("{}_session|{what}|{sym}", c.mode.name()),
            _ => format!("{}_session|{what}", c.mode.name()),
        };
    }
}

fn judge_conn(p: &TcpPlan, i: usize, c: &ConnPlan, oc: &ConnOutcome) -> Vec<Violation> {
    let mut v = Vec::new();
    let cr = &oc.client;
    let flow = flow_of(c);
    let base_trig = trigger_of(c);
    // with other sessions in the same worker a quiet session can still be hit by their teardown
    let base_trig = if base_trig == "none" && p.conns.len() > 1 { "none+concurrent_sessions" } else { base_trig };
    let quiet = base_trig.starts_with("none");
    let reset = base_trig == "reset";
    // expect and relay sessions run their own state machines before the pipe: their verdicts are keyed apart
    let trig_owned = match c.mode { Mode::Expect | Mode::Relay => format!("{base_trig}+{}", c.mode.name()), _ => base_trig.to_string() };
    let trig = trig_owned.as_str();
    let mode = c.mode.name();
    let (cs, ss) = (&c.client.side, &c.server.side);
    if let Some(e) = cr.connect_err {
        v.push(Violation::new("listener_unreachable", format!("connect|{mode}"), format!("conn {i}: client could not connect to the listener {}: errno {e}", c.front)));
        return v;
    }
    let hdr_class = c.hdr.as_ref().map(|h| h.class.clone());
    let shape = c.hdr.as_ref().map(|h| h.shape.clone()).unwrap_or_else(|| "-".into());
    let forwarded: u64 = oc.backend.iter().map(|b| b.raw_received).sum();
    // ------------------------------------------------------------ headers that must be refused
    if let Some(class) = hdr_class.clone().filter(|k| *k != HdrClass::Valid) {
        let relay_may_accept = c.mode == Mode::Relay && class == HdrClass::Oversized;
        let accepted_relay = relay_may_accept && oc.backend.len() == 1 && oc.backend[0].raw_received >= cs.pre.len() as u64 && oc.backend[0].head.starts_with(&cs.pre[..cs.pre.len().min(oc.backend[0].head.len())]);
        if accepted_relay {
            // the documented 232-byte limit is about expect mode; relaying a long legal header verbatim is acceptable
            let b = &oc.backend[0];
            let got_stream = b.raw_received - cs.pre.len() as u64;
            if got_stream > cr.sent { v.push(Violation::new("relay_bytes_differ", format!("duplicated|c2b|{trig}|{mode}:{shape}"), format!("conn {i}: backend got {got_stream} stream bytes after the relayed header, client sent {}", cr.sent))); }
            return v;
        }
        if forwarded > 0 {
            let b = oc.backend.iter().find(|b| b.raw_received > 0).unwrap();
            v.push(Violation::new("forwarded_after_bad_header", format!("{mode}|{shape}"), format!("conn {i}: header {shape} ({class:?}) yet the backend received {forwarded} bytes, first {:02x?}", &b.head[..b.head.len().min(32)])));
        }
        if !cr.eof {
            v.push(Violation::new("bad_header_not_closed", format!("{mode}|{shape}"), format!("conn {i}: header {shape} ({class:?}): the client never saw the session end (gave_up={})", cr.gave_up)));
        } else if cr.t_eof > cr.t_start + static_delay(c) + (p.front_timeout as u64 + 5) * SEC {
            v.push(Violation::new("bad_header_not_closed", format!("late|{mode}|{shape}"), format!("conn {i}: header {shape}: session ended only after {} ms", (cr.t_eof - cr.t_start) / MS)));
        }
        for (bi, b) in oc.backend.iter().enumerate() {
            if !b.eof && !b.closed { v.push(Violation::new("bad_header_not_closed", format!("backend_conn_left_open|{mode}|{shape}"), format!("conn {i}: backend connection {bi} opened for a refused header was never closed"))); }
        }
        return v;
    }
    // ------------------------------------------------------------ valid (or no) header
    if c.hdr.is_some() && quiet {
        // a valid header must be accepted: the session goes on. Only judged when no FIN can be the reason.
        // (judged on the client's payload: with none planned, the pipe checks below speak)
        let rejected = (cr.eof || cr.gave_up) && cs.len > 0 && forwarded == 0 && cr.received == 0;
        if rejected {
            let hl = cs.pre.len() as u64;
            let split = if cs.frags.iter().any(|f| f.upto < hl) { "split" } else { "whole" };
            let fam = match cs.pre.get(13).map(|b| b >> 4) { Some(0) => "unspec", Some(1) => "inet4", Some(2) => "inet6", Some(3) => "unix", _ => "other" };
            v.push(Violation::new("valid_header_rejected", format!("{mode}|{fam}|{split}"), format!("conn {i}: legal header {shape} ({} bytes): session ended with nothing forwarded either way (client wrote {} stream bytes, end at +{} us, {} backend connection(s))", cs.pre.len(), cr.sent, (cr.t_eof.saturating_sub(cr.t_start)) / 1000, oc.backend.len())));
            return v;
        }
    }
    if oc.backend.is_empty() {
        // no backend connection at all
        if (cs.len > 0 || ss.len > 0) && !reset {
            v.push(Violation::new("eof_before_data", format!("no_backend_connection|{trig}"), format!("conn {i} ({mode}, {flow}): the proxy never connected to the backend; client wrote {} bytes, eof={} err={:?}", cr.sent, cr.eof, cr.rd_err)));
        }
        return v;
    }
    // The proxy may dial again when a backend hangs up before the connection is established (that is
    // connection-retry policy, not relaying); but the client's bytes must not be replayed onto two connections.
    if oc.backend.iter().filter(|b| b.received > 0).count() > 1 {
        v.push(Violation::new("relay_bytes_differ", format!("replayed_on_second_connection|c2b|{trig}"), format!("conn {i} ({mode}, {flow}): client bytes reached {} backend connections: {:?}", oc.backend.len(), oc.backend.iter().map(|b| b.received).collect::<Vec<_>>())));
    }
    // the connection that carried the session (the proxy may have dialled again)
    let br = oc.backend.iter().rev().max_by_key(|b| b.raw_received).unwrap();
    let backend_drains = ss.end != End::CloseNow;
    // ---- what precedes the stream on the backend side
    match c.mode {
        Mode::Send => {
            for b in oc.backend.iter().filter(|b| b.raw_received > 0) {
                match decode_v2(&b.head) {
                    Ok(d) => {
                        if d.command != 1 { v.push(Violation::new("ppv2_malformed", "command_not_proxy", format!("conn {i}: command {}", d.command))); }
                        if d.transport != 1 { v.push(Violation::new("ppv2_malformed", "transport_not_stream", format!("conn {i}: transport {}", d.transport))); }
                        let fam_want = if c.client.src.is_ipv4() { 1 } else { 2 };
                        if d.family != fam_want { v.push(Violation::new("ppv2_malformed", format!("family={}|want={fam_want}", d.family), format!("conn {i}: header {:02x?}", &b.head[..b.head.len().min(60)]))); }
                        if d.src != Some(c.client.src) { v.push(Violation::new("ppv2_wrong_addr", "src", format!("conn {i}: header source {:?}, client address {}", d.src, c.client.src))); }
                        if d.dst != Some(c.front) { v.push(Violation::new("ppv2_wrong_addr", "dst", format!("conn {i}: header destination {:?}, listener address {}", d.dst, c.front))); }
                        // a second header right behind the first one
                        if b.head.len() >= d.total_len + 12 && b.head[d.total_len..d.total_len + 12] == PP2_SIG {
                            v.push(Violation::new("ppv2_duplicate", "second_header", format!("conn {i}: a second v2 signature follows the header")));
                        }
                    }
                    Err(PpErr::Short(n)) => {
                        // cut short: only the proxy's doing if the backend kept reading and no FIN raced
                        if quiet && backend_drains { v.push(Violation::new("ppv2_malformed", "truncated", format!("conn {i}: backend got only {} of {n} header bytes: {:02x?}", b.head.len(), b.head))); }
                    }
                    Err(PpErr::BadSignature(0)) => {
                        v.push(Violation::new("ppv2_missing", "payload_first", format!("conn {i}: backend stream does not start with a v2 header: {:02x?}", &b.head[..b.head.len().min(32)])));
                    }
                    Err(e) => {
                        v.push(Violation::new("ppv2_malformed", format!("{e:?}"), format!("conn {i}: {:02x?}", &b.head[..b.head.len().min(60)])));
                    }
                }
            }
            if br.raw_received == 0 && quiet && backend_drains {
                v.push(Violation::new("ppv2_missing", "empty_connection", format!("conn {i} ({flow}): the backend connection carried no byte at all")));
            }
        }
        Mode::Relay => {
            if br.raw_received > 0 {
                if let Some(e) = &br.prefix_error {
                    let partial = br.raw_received < cs.pre.len() as u64 && cs.pre.starts_with(&br.head);
                    if !(partial && (!quiet || !backend_drains)) {
                        v.push(Violation::new("ppv2_malformed", format!("relayed_header_differs|{shape}"), format!("conn {i}: {e}; sent {:02x?} backend got {:02x?}", &cs.pre[..cs.pre.len().min(40)], &br.head[..br.head.len().min(40)])));
                    }
                }
                let hl = cs.pre.len();
                if br.head.len() >= hl + 12 && br.prefix_len == Some(hl) && br.head[hl..hl + 12] == PP2_SIG {
                    v.push(Violation::new("ppv2_duplicate", format!("relayed_twice|{shape}"), format!("conn {i}: the relayed header is followed by another v2 signature")));
                }
            } else if quiet && backend_drains {
                let split = if cs.frags.iter().any(|f| f.upto < cs.pre.len() as u64) { "split" } else { "whole" };
                let fam = match cs.pre.get(13).map(|b| b >> 4) { Some(0) => "unspec", Some(1) => "inet4", Some(2) => "inet6", Some(3) => "unix", _ => "other" };
                v.push(Violation::new("ppv2_missing", format!("relay_empty_connection|{fam}|{split}"), format!("conn {i} ({flow}, header {shape}): the backend connection carried no byte at all")));
            }
        }
        Mode::Expect => {
            if br.head.len() >= 12 && br.head[..12] == PP2_SIG {
                v.push(Violation::new("forwarded_after_bad_header", format!("expect_header_forwarded|{shape}"), format!("conn {i}: expect mode consumed nothing: the backend received the PROXY header itself")));
            }
        }
        Mode::None => {}
    }
    // ---- the two pipes
    struct Dir<'a> { name: &'static str, tx: &'a SideRecord, rx: &'a SideRecord, txp: &'a SidePlan, rxp: &'a SidePlan }
    let dirs = [
        Dir { name: "c2b", tx: cr, rx: br, txp: cs, rxp: ss },
        Dir { name: "b2c", tx: br, rx: cr, txp: ss, rxp: cs },
    ];
    let hdr_tag = match &c.hdr { Some(h) => format!("{mode}:{}", h.shape), None => mode.to_string() };
    for d in &dirs {
        let key = |sym: &str| format!("{sym}|{}|{trig}", d.name);
        let key_h = |sym: &str| format!("{sym}|{}|{trig}|{hdr_tag}", d.name);
        if let Some(off) = d.rx.first_bad {
            let lost = if off == 0 { leading_loss(&d.rx.head[d.rx.prefix_len.unwrap_or(0).min(d.rx.head.len())..], d.txp.key) } else { None };
            match lost {
                Some(k) => v.push(Violation::new("relay_bytes_differ", key_h("leading_bytes_lost"), format!("conn {i} {} ({flow}): the first {k} stream bytes never arrived (receiver got {} bytes, sender wrote {})", d.name, d.rx.received, d.tx.sent))),
                None => v.push(Violation::new("relay_bytes_differ", key_h("corrupted"), format!("conn {i} {} ({flow}): stream differs at offset {off} (receiver got {} bytes, sender wrote {}); first bytes {:02x?}", d.name, d.rx.received, d.tx.sent, &d.rx.head[..d.rx.head.len().min(40)]))),
            }
            continue;
        }
        if d.rx.received > d.tx.sent {
            v.push(Violation::new("relay_bytes_differ", key_h("duplicated"), format!("conn {i} {} ({flow}): receiver got {} bytes, sender wrote {}", d.name, d.rx.received, d.tx.sent)));
            continue;
        }
        if reset {
            if d.rx.gave_up { v.push(Violation::new("eof_before_data", key("never_ended"), format!("conn {i} {} ({flow}): the receiver never saw the session end after the other side vanished", d.name))); }
            continue;
        }
        // strict delivery: every planned byte must arrive (a sender stopped by EPIPE was cut by the proxy)
        if d.rx.received < d.txp.len {
            let how = if d.rx.gave_up { "stalled" } else { "truncated" };
            v.push(Violation::new("eof_before_data", key(how), format!("conn {i} {} ({mode}, {flow}): receiver got {} of {} bytes (sender wrote {}, wr_err={:?}); receiver eof={} err={:?} at +{} us; sender fin_sent={} eof={}", d.name, d.rx.received, d.txp.len, d.tx.sent, d.tx.wr_err, d.rx.eof, d.rx.rd_err, d.rx.t_eof.saturating_sub(d.rx.t_start) / 1000, d.tx.fin_sent, d.tx.eof)));
            continue;
        }
        // the receiver must learn the end of the stream unless it closes first by plan
        if matches!(d.rxp.end, End::WaitPeer | End::HalfClose) && !d.rx.eof {
            v.push(Violation::new("eof_before_data", key("eof_never_delivered"), format!("conn {i} {} ({mode}, {flow}): all {} bytes arrived but the receiver never saw EOF (gave_up={})", d.name, d.txp.len, d.rx.gave_up)));
            continue;
        }
    }
    // ---- liveness: nobody stalls, so no sozu timer may be needed
    if !reset {
        let bound = static_delay(c) + 2500 * MS;
        for (who, r) in [("client", cr), ("backend", br)] {
            if r.t_end > r.t_start + bound && !r.gave_up {
                v.push(Violation::new("stall_needed_timer", format!("{who}|{trig}"), format!("conn {i} ({mode}, {flow}): {who} finished {} ms after its start (plan delays {} ms): completion needed a timer", (r.t_end - r.t_start) / MS, static_delay(c) / MS)));
            }
        }
    }
    v
}

// =========================================================================== property

fn report(p: &TcpPlan, o: TcpOutcome) -> RunReport {
    let violations = oracle(p, &o);
    let mut rep = RunReport { seed: p.seed, family: p.family.clone(), violations, trace_hash: o.trace_hash, stats: o.stats.clone(), summary: summarize(p), ..Default::default() };
    let verified: u64 = o.conns.iter().map(|c| c.client.received + c.backend.iter().map(|b| b.received).sum::<u64>()).sum();
    rep.nontrivial = verified > 0 || o.conns.iter().any(|c| c.client.eof);
    rep.probes.insert("stream_bytes_verified".into(), verified);
    rep.probes.insert("connections".into(), o.conns.len() as u64);
    for (i, c) in p.conns.iter().enumerate() {
        let oc = &o.conns[i];
        *rep.probes.entry(format!("mode_{}", c.mode.name())).or_insert(0) += 1;
        *rep.probes.entry(format!("flow_{}", flow_of(c))).or_insert(0) += 1;
        if let Some(h) = &c.hdr {
            *rep.probes.entry(format!("hdr_{}", match &h.class { HdrClass::Valid => "valid", HdrClass::Oversized => "oversized", HdrClass::Malformed(_) => "malformed", HdrClass::Truncated => "truncated" })).or_insert(0) += 1;
            *rep.probes.entry("hdr_fragments".into()).or_insert(0) += c.client.side.frags.len() as u64;
        }
        if oc.client.eof { *rep.probes.entry("client_saw_eof".into()).or_insert(0) += 1; }
        if oc.client.rd_err.is_some() { *rep.probes.entry("client_saw_reset".into()).or_insert(0) += 1; }
        if oc.client.wr_blocked > 0 { *rep.probes.entry("client_write_backpressure".into()).or_insert(0) += 1; }
        for b in &oc.backend {
            if b.eof { *rep.probes.entry("backend_saw_eof".into()).or_insert(0) += 1; }
            if b.wr_blocked > 0 { *rep.probes.entry("backend_write_backpressure".into()).or_insert(0) += 1; }
            if b.prefix_len.unwrap_or(0) > 0 { *rep.probes.entry("backend_prefix_recognised".into()).or_insert(0) += 1; }
        }
        if oc.backend.len() > 1 { *rep.probes.entry("backend_redialled".into()).or_insert(0) += 1; }
        if oc.client.gave_up || oc.backend.iter().any(|b| b.gave_up) { *rep.probes.entry("peer_gave_up".into()).or_insert(0) += 1; }
    }
    if let Some(e) = o.boot_error { rep.harness_error = Some(format!("worker boot failed: {e}")); }
    if !o.config_failures.is_empty() { rep.harness_error = Some(format!("configuration refused: {:?}", o.config_failures)); }
    if o.panicked.is_none() && o.aborted.is_none() && o.config_finals.values().any(|n| *n != 1) { rep.harness_error = Some("configuration command without exactly one final answer".into()); }
    rep
}

impl Property for C18 {
    fn id(&self) -> &'static str { "C18" }
    fn runs(&self, tier: Tier) -> u64 { match tier { Tier::Quick => 5000, Tier::Thorough => 250000 } }
    fn gen_plan(&self, seed: u64, tier: Tier) -> Value { serde_json::to_value(generate(seed, tier)).unwrap() }
    fn enumerated(&self, tier: Tier) -> Vec<Value> { enumerate(tier).into_iter().map(|p| serde_json::to_value(p).unwrap()).collect() }
    fn run_plan(&self, plan: &Value) -> RunReport {
        let p: TcpPlan = match serde_json::from_value(plan.clone()) { Ok(p) => p, Err(e) => return RunReport { harness_error: Some(format!("bad plan: {e}")), ..Default::default() } };
        let o = run_tcp(&p, false);
        report(&p, o)
    }
    fn shrink(&self, plan: &Value) -> Vec<Value> {
        let Ok(p) = serde_json::from_value::<TcpPlan>(plan.clone()) else { return vec![] };
        shrink_tcp(&p).into_iter().map(|p| serde_json::to_value(p).unwrap()).collect()
    }
    fn debug_plan(&self, plan: &Value) -> String {
        let p: TcpPlan = serde_json::from_value(plan.clone()).unwrap();
        let o = run_tcp(&p, true);
        let mut s = String::new();
        for l in &o.log { s += l; s.push('\n'); }
        s += &format!("{}\n", summarize(&p));
        for (i, c) in o.conns.iter().enumerate() {
            let mut cr = c.client.clone();
            cr.head.truncate(48);
            s += &format!("conn {i} client: {cr:?}\n");
            for b in &c.backend { let mut b = b.clone(); b.head.truncate(64); s += &format!("conn {i} backend: {b:?}\n"); }
        }
        s += &format!("panicked={:?} aborted={:?} boot={:?} config_failures={:?}\n", o.panicked, o.aborted, o.boot_error, o.config_failures);
        for v in oracle(&p, &o) { s += &format!("VIOLATION {} {} {}\n", v.class, v.key, v.detail); }
        s
    }
    fn descr(&self) -> Descr {
        Descr {
            level: "exploration",
            rule: "seeded plans (1-3 concurrent TCP sessions, each with its own listener/cluster/backend; proxy-protocol mode none/send/expect/relay; IPv4 and IPv6; stream lengths 0..300 kB (quick) / 3 MB (thorough) biased to buffer and window boundaries; write/read quanta down to 1 byte, pauses, read holds (back-pressure), SO_SNDBUF on every socket; who ends the connection and how: close once everything was delivered, close/FIN right behind the data, half-close with the other direction busy, close without draining; PROXY v2 header shape (IPv4, IPv6, UNIX, UNSPEC, LOCAL/PROXY, TLV tails up to and over 232 bytes, malformed, truncated) and fragmentation; worker buffer size; epoll truncation/permutation, preemption inside data syscalls, injected short writes/EAGAIN) plus, as fault enumeration, every header shape split at every byte position (thorough) or at the reassembly-window boundaries (quick) in expect and relay mode; a run is non-trivial when at least one stream byte was verified end-to-end or a session verdict (EOF) was observed; distinct = distinct syscall/decision trace hashes",
            assumptions: vec![
                "AF_UNIX stream sockets stand in for TCP: no RST-discards-data, partial writes land on skb boundaries; a reset (ECONNRESET) read by a peer is treated like EOF for ordering purposes",
                "EPOLLHUP translated to TCP semantics by the simulator (world.rs::tcp_hup_semantics)",
                "a backend that hangs up before the proxy finished connecting may be dialled again (connection-retry policy, counted as probe backend_redialled); only a replay of client bytes onto two connections is a violation",
                "in relay mode a legal header longer than the 232 bytes sozu documents may be either relayed verbatim or refused; preemption is kept >= 20 per mille in every run and relay runs use no delayed connect / injected short writes (watchdog reasoning)",
                "release semantics (debug assertions off)", "x86-64 Linux",
            ],
            real: vec!["sozu_lib::server::Server::run (whole worker: tcp.rs session state machine, protocol/pipe.rs, proxy_protocol/{expect,relay,send,parser,header}.rs, socket.rs, buffer pool, backends, timers)", "sozu_command_lib Channel/ConfigState/ListenerBuilder", "mio", "Linux epoll + AF_UNIX"],
            stub: vec!["IP network (AF_UNIX pairs + address translation)", "clock", "entropy", "TCP clients", "TCP backends", "master process (scripted stub)", "PROXY v2 encoder/strict decoder of the harness", "spin watchdog actor (breaks a worker loop that makes >300000 data syscalls without reaching epoll_wait by shutting the worker's sockets down; such runs are reported as `spin` only)"],
            not_covered: vec!["WebSocket upgrade through pipe.rs from an H1 session (same Pipe code, different entry: not exercised here)", "splice(2) fast path (feature off by default)", "PROXY protocol v1 (sozu never emits or parses it)", "TLS listeners in front of TCP clusters"],
        }
    }
}

// =========================================================================== minimisation

pub fn shrink_tcp(p: &TcpPlan) -> Vec<TcpPlan> {
    let mut out: Vec<TcpPlan> = Vec::new();
    let same = |a: &TcpPlan, b: &TcpPlan| serde_json::to_string(a).unwrap() == serde_json::to_string(b).unwrap();
    let push = |q: TcpPlan, out: &mut Vec<TcpPlan>| { if !same(&q, p) { out.push(q); } };
    // drop a connection
    if p.conns.len() > 1 {
        for i in 0..p.conns.len() { let mut q = p.clone(); q.conns.remove(i); push(q, &mut out); }
    }
    // scheduler and buffers
    let mut q = p.clone();
    q.sched.ev_truncate_pm = 0; q.sched.ev_permute_pm = 0; q.sched.preempt_pm = 0; q.sched.short_write_pm = 0; q.sched.eagain_pm = 0;
    push(q, &mut out);
    for f in 0..6 {
        let mut q = p.clone();
        match f { 0 => q.sched.short_write_pm = 0, 1 => q.sched.eagain_pm = 0, 2 => q.sndbufs = None, 3 => q.sched.preempt_pm = 0, 4 => { q.sched.ev_truncate_pm = 0; q.sched.ev_permute_pm = 0 }, _ => q.sched.actor_burst = 2 }
        push(q, &mut out);
    }
    if p.knobs.buffer_size != 16393 || p.knobs.max_buffers != 1000 { let mut q = p.clone(); q.knobs.buffer_size = 16393; q.knobs.max_buffers = 1000; push(q, &mut out); }
    for i in 0..p.conns.len() {
        let c = &p.conns[i];
        // pacing
        for side in 0..2 {
            let mut q = p.clone();
            { let s = if side == 0 { &mut q.conns[i].client.side } else { &mut q.conns[i].server.side }; s.pace = Pace::greedy(); s.read_hold_ns = 0; s.write_hold_ns = 0; s.sndbuf = None; }
            push(q, &mut out);
            for f in 0..4 {
                let mut q = p.clone();
                { let s = if side == 0 { &mut q.conns[i].client.side } else { &mut q.conns[i].server.side };
                  match f { 0 => s.pace = Pace::greedy(), 1 => s.read_hold_ns = 0, 2 => s.write_hold_ns = 0, _ => s.sndbuf = None } }
                push(q, &mut out);
            }
        }
        let mut q = p.clone(); q.conns[i].connect_delay_ns = 0; q.conns[i].client.start_ns = 0; push(q, &mut out);
        // lengths (both plans of a connection mirror each other's lengths)
        let set_len = |q: &mut TcpPlan, cl: u64, sl: u64| {
            let old_cl = q.conns[i].client.side.len;
            q.conns[i].client.side.len = cl; q.conns[i].server.side.peer_len = cl;
            q.conns[i].server.side.len = sl; q.conns[i].client.side.peer_len = sl;
            // fragments reaching into the payload shrink with it
            let hl = q.conns[i].client.side.pre.len() as u64;
            if cl < old_cl { for f in q.conns[i].client.side.frags.iter_mut() { if f.upto > hl + cl { f.upto = hl + cl; } } }
        };
        let (cl, sl) = (c.client.side.len, c.server.side.len);
        // keep the flow label: a length may only go to zero if it already is
        let floor = |n: u64| if n > 0 { 1 } else { 0 };
        for (a, b) in [(floor(cl), floor(sl)), (cl / 2 + floor(cl) * (cl % 2), sl), (cl, sl / 2 + floor(sl) * (sl % 2)), (floor(cl), sl), (cl, floor(sl)), (cl.saturating_sub(1).max(floor(cl)), sl), (cl, sl.saturating_sub(1).max(floor(sl)))] {
            if (a, b) != (cl, sl) { let mut q = p.clone(); set_len(&mut q, a, b); push(q, &mut out); }
        }
        // header fragmentation
        if c.hdr.is_some() {
            let hl = c.client.side.pre.len() as u64;
            let mut q = p.clone(); q.conns[i].client.side.frags = vec![Frag { upto: hl, delay_ns: 0 }]; push(q, &mut out);
            let mut q = p.clone(); q.conns[i].client.side.frags = vec![Frag { upto: hl, delay_ns: 1000 }]; push(q, &mut out);
            for k in 0..c.client.side.frags.len() {
                if c.client.side.frags.len() > 1 { let mut q = p.clone(); q.conns[i].client.side.frags.remove(k); push(q, &mut out); }
                if c.client.side.frags[k].delay_ns > 1000 { let mut q = p.clone(); q.conns[i].client.side.frags[k].delay_ns = 1000; push(q, &mut out); }
            }
        }
        // the plain mode, when the violation is not about headers
        if c.mode != Mode::None && c.hdr.is_none() { let mut q = p.clone(); q.conns[i].mode = Mode::None; q.conns[i].server.prefix = Prefix::None; push(q, &mut out); }
    }
    out
}
