//! C10, soft-stop family on the mixed-protocol scenario: an HTTP/2 client over TLS (and sometimes an
//! H1 client) has requests in flight when the master sends SoftStop; the HTTPS listener's
//! `h2_graceful_shutdown_deadline_seconds` is unset, 0 (documented: wait for ever) or far above the
//! transfer time. "Requests in flight on the old worker are completed (within the graceful deadline)
//! rather than cut ... acknowledges exactly once and then exits."
use serde::{Deserialize, Serialize};

use super::c14::{self, Focus};
use crate::framework::*;
use crate::muxscn::{backend_obs, h1_client_obs, h2_client_obs, run_mux, MuxBackend, MuxOutcome, MuxPlan};
use crate::prng::Prng;
use crate::world::{MS, SEC};

#[derive(Clone, Debug, Serialize, Deserialize)]
pub struct SoftStopPlan {
    pub mux: MuxPlan,
}

pub fn generate(seed: u64, tier: Tier) -> SoftStopPlan {
    let mut rng = Prng::derive(seed, "c10/softstop");
    // a trigger-free mixed-protocol plan with an H1 backend (the recorded h2c-backend defects are not the point here)
    let mut mux = None;
    for i in 0..40u64 {
        let m = c14::gen_mux(seed.wrapping_add(i.wrapping_mul(0x9E37_79B9_7F4A_7C15)), tier, Focus::Bodies, "c10ss");
        if !m.clusters[0].backend.is_h2() && c14::plan_trigger(&m) == "none" { mux = Some(m); break; }
    }
    let mut mux = mux.expect("no trigger-free plan in 40 draws");
    mux.seed = seed;
    mux.family = format!("softstop_{}", mux.family);
    mux.h2_deadline_secs = *rng.pick(&[None, Some(0u32), Some(0), Some(30), Some(120)]);
    // somewhere inside the transfers: they take up to a few hundred virtual ms
    mux.soft_stop_at_ns = Some(match rng.below(4) { 0 => rng.below(3 * MS), 1 => 2 * MS + rng.below(20 * MS), _ => rng.below(150 * MS) });
    for c in mux.h2_clients.iter_mut() { c.give_up_ns = 60 * SEC; }
    for c in mux.h1_clients.iter_mut() { c.give_up_ns = 60 * SEC; }
    // One plan in four: a *stalled download*. The first body-less request of the HTTP/2 client gets a response one
    // stream window plus a tail of less than a buffer long, from a backend that writes as fast as it can, and the client
    // grants stream credit only 200-400 ms after it ran out. So when the soft stop arrives (40-150 ms) the backend has
    // finished and gone, and the tail of the response exists only inside sozu, waiting for the client's window.
    if rng.below(4) == 0 {
        if let (Some(c), MuxBackend::H1(b)) = (mux.h2_clients.first_mut(), &mut mux.clusters[0].backend) {
            let window = c.conn.settings.initial_window_size.unwrap_or(65535) as usize;
            let first_download = c.requests().iter().find(|r| r.body.len == 0 && r.cancel.is_none()).map(|r| r.id);
            if let (Some(id), true) = (first_download, window <= 1_000_000) {
                let tail = 1 + rng.below(mux.knobs.buffer_size.saturating_sub(600)) as usize;
                if let Some(resp) = b.responses.get_mut(&id) {
                    resp.body = crate::actors::h1::BodySpec::Cl(window + tail);
                    resp.delay_ns = 0;
                    resp.fault = None;
                    // "finished and gone": in two plans of three the backend also closes its connection after the response,
                    // announced (`Connection: close`) or not
                    match rng.below(3) { 0 => resp.close_after = true, 1 => resp.silent_close_after = true, _ => {} }
                    b.pace = crate::actors::Pace::greedy();
                    let late = (200 + rng.below(200)) * MS;
                    c.conn.wu = crate::actors::h2::WuPolicy { stream: crate::actors::h2::WuMode::Late(late), conn: crate::actors::h2::WuMode::Eager, fallback_ns: late };
                    mux.soft_stop_at_ns = Some((40 + rng.below(110)) * MS);
                    mux.family = format!("{}_stalled_download", mux.family);
                    // the stalled download alone (no later streams to be refused during the drain: that is the recorded C10-S1/S2)
                    c.script.retain(|op| match op { crate::actors::h2::ClientOp::Req(r) => r.id == id, crate::actors::h2::ClientOp::WaitStreams => false, _ => true });
                }
            }
        }
    }
    SoftStopPlan { mux }
}

pub fn oracle(p: &SoftStopPlan, o: &MuxOutcome) -> Vec<Violation> {
    let mut v = Vec::new();
    let dl = match p.mux.h2_deadline_secs { None => "unset".to_string(), Some(s) => s.to_string() };
    let key = |s: &str| format!("{s}|h2_deadline={dl}");
    if let Some(pn) = &o.panicked { v.push(Violation::new("panic", key("worker"), pn.clone())); }
    if let Some(a) = &o.aborted { v.push(Violation::new("no_exit", key(a), format!("run aborted: {a} (worker did not leave its loop after SoftStop)"))); }
    if o.aborted.is_none() && o.panicked.is_none() {
        match o.softstop_final {
            None => v.push(Violation::new("softstop_not_acknowledged", key("no_final_answer"), "the worker left without a final answer to SoftStop".to_string())),
            Some((_, st)) if st != sozu_command_lib::proto::command::ResponseStatus::Ok as i32 => v.push(Violation::new("softstop_not_acknowledged", key("failure"), format!("SoftStop answered with status {st}"))),
            _ => {}
        }
    }
    let resp_of = |id: u64| -> (u64, u16) { match &p.mux.clusters[0].backend { MuxBackend::H1(b) => b.responses.get(&id).map_or((3, 200), |r| (r.body.len() as u64, r.status)), MuxBackend::H2(b) => b.responses.get(&id).map_or((3, 200), |r| (r.body.len as u64, r.status)) } };
    // "completed (within the graceful deadline)": once the configured deadline has passed since the soft stop, cutting
    // what is left is what the operator asked for (unset = 5 s by default, 0 = wait for ever)
    let deadline_ns = match p.mux.h2_deadline_secs { None => 5 * SEC, Some(0) => u64::MAX, Some(d) => d as u64 * SEC };
    let stop_took = o.softstop_final.map_or(0, |(t, _)| t.saturating_sub(o.softstop_sent_t));
    let deadline_passed = deadline_ns != u64::MAX && stop_took + 200 * MS >= deadline_ns;
    for (ci, c) in p.mux.h2_clients.iter().enumerate() {
        let rec = &o.h2_clients[ci];
        if deadline_passed { break; }
        if rec.connect_err.is_some() { continue; } // refused: the listener was already closed, nothing was in flight
        if let Some(t) = &rec.tls { if !t.handshake_done { continue; } }
        for r in c.requests() {
            let obs = h2_client_obs(rec, r.id);
            let st = rec.stream_for(r.id);
            // explicitly not processed: never sent (GOAWAY first), above the GOAWAY's last_stream_id, or REFUSED_STREAM
            let refused = rec.requests_not_sent.contains(&r.id) || st.map_or(true, |s| s.refused_by_goaway || (s.recv_rst == Some(7) && s.status.is_none()));
            if refused {
                if backend_obs(&o.backends[0], r.id).seen > 0 && st.map_or(false, |s| s.recv_rst == Some(7)) { v.push(Violation::new("request_cut", key("refused_but_forwarded"), format!("h2 request #{}: REFUSED_STREAM although it reached the backend", r.id))); }
                continue;
            }
            // the request was fully sent? otherwise the client itself was stopped by the closing connection
            let fully_sent = st.map_or(false, |s| s.sent_end_wire);
            // a request the client was still writing when the connection went away, that never reached a backend and
            // never got a byte of answer, had not been taken on by sozu (its header block may not even have been
            // complete): not a request "in flight on the old worker"
            if !fully_sent && !obs.answered && backend_obs(&o.backends[0], r.id).seen == 0 { continue; }
            let (want_len, want_status) = resp_of(r.id);
            let ok = obs.answered && obs.sim_id == Some(r.id) && obs.status == Some(want_status) && obs.complete && obs.first_bad.is_none() && obs.body_len == want_len;
            if !ok {
                let what = if !obs.answered { "no_answer" } else if obs.first_bad.is_some() { "corrupted" } else if !obs.complete { "response_cut" } else { "wrong_answer" };
                // how the stream / connection ended, as the client saw it
                let end = if let Some(c) = st.and_then(|s| s.recv_rst) { format!("rst({c})") }
                    else if let Some(g) = rec.goaways.iter().find(|g| g.last_stream != 0x7fff_ffff) { format!("final_goaway({})", g.code) }
                    else if rec.eof || rec.reset { "closed_after_initial_goaway_only".to_string() } else { "left_open".to_string() };
                let dir = if r.body.len > 0 { "upload" } else { "download" };
                // plan-level trigger of the recorded finding C10-S1 (see known_findings.json): an upload of more than one
                // DATA frame is in flight and the script has further requests, which reach sozu while it drains
                // C15-G (recorded): HEADERS without END_HEADERS on a stream that is refused, followed by its CONTINUATION,
                // is answered with GOAWAY(PROTOCOL_ERROR); during a drain every new stream is refused
                // one plan-level trigger for the two recorded defects of "a stream that arrives while sozu drains is refused":
                // C10-S1 (a large upload is mid-frame) and C10-S2 = C15-G (the refused request continues in CONTINUATION frames)
                let trig = if c.requests().len() >= 2 && (c.requests()[0].body.len > 16384 || c.requests().iter().skip(1).any(|q| !q.cont_split.is_empty())) { "later_streams_refused_during_drain" } else { "none" };
                let key = |s: &str| if trig == "none" { format!("{s}|h2_deadline={dl}") } else { format!("{s}|{trig}") };
                v.push(Violation::new("request_cut", key(&format!("h2:{what};{dir};end={end}{}", if fully_sent { "" } else { ";request_not_fully_sent" })), format!("h2 request #{} in flight at soft stop (sent {} ms after connect, soft stop at +{} ms): status={:?} body {} of {want_len} complete={} aborted={:?} goaways={:?} eof={} t_end={}", r.id, st.map_or(0, |s| s.t_open.saturating_sub(rec.t_connect)) / MS, p.mux.soft_stop_at_ns.unwrap_or(0) / MS, obs.status, obs.body_len, obs.complete, obs.aborted, rec.goaways.iter().map(|g| (g.last_stream, g.code)).collect::<Vec<_>>(), rec.eof, obs.t_end)));
            }
        }
        for lv in &rec.violations { v.push(Violation::new("frame_stream_broken", key(&lv.kind), format!("client ledger: {lv:?}"))); }
    }
    for (ci, c) in p.mux.h1_clients.iter().enumerate() {
        let oc = &o.h1_clients[ci];
        if deadline_passed { break; }
        if oc.rec.connect_err.is_some() { continue; }
        for (ri, r) in c.requests.iter().enumerate() {
            // a request the client had started to send must be answered completely; one it never started
            // (keep-alive connection closed between requests) was not in flight
            let started = oc.rec.sent_start.iter().any(|(id, _)| *id == r.id);
            if !started { continue; }
            let obs = h1_client_obs(oc, ri, r.id);
            let (want_len, want_status) = resp_of(r.id);
            let ok = obs.answered && obs.sim_id == Some(r.id) && obs.status == Some(want_status) && obs.complete && obs.first_bad.is_none() && obs.body_len == want_len;
            // a request whose first bytes left after sozu had already closed the idle connection is not in flight either
            let sent_done = oc.rec.sent_done.iter().any(|(id, _)| *id == r.id);
            if !ok && sent_done { v.push(Violation::new("request_cut", key("h1"), format!("h1 request #{}: status={:?} body {} of {want_len} complete={}", r.id, obs.status, obs.body_len, obs.complete))); }
        }
    }
    v
}

pub fn summarize(p: &SoftStopPlan) -> String {
    format!("{} soft stop at +{} ms, h2 deadline {:?}, {} h2 / {} h1 clients", p.mux.family, p.mux.soft_stop_at_ns.unwrap_or(0) / MS, p.mux.h2_deadline_secs, p.mux.h2_clients.len(), p.mux.h1_clients.len())
}

pub fn run(p: &SoftStopPlan, log: bool) -> (RunReport, String) {
    let o = run_mux(&p.mux, log);
    let violations = oracle(p, &o);
    let mut rep = RunReport { seed: p.mux.seed, family: p.mux.family.clone(), violations, trace_hash: o.trace_hash, stats: o.stats.clone(), summary: summarize(p), ..Default::default() };
    let inflight = o.h2_clients.iter().map(|r| r.streams.len()).sum::<usize>() + o.h1_clients.iter().map(|c| c.rec.sent_start.len()).sum::<usize>();
    rep.nontrivial = inflight > 0 && o.softstop_final.is_some();
    rep.probes.insert("softstop_acked".into(), o.softstop_final.is_some() as u64);
    rep.probes.insert("h2_streams_refused_by_goaway".into(), o.h2_clients.iter().map(|r| r.streams.values().filter(|s| s.refused_by_goaway).count() as u64 + r.requests_not_sent.len() as u64).sum());
    rep.probes.insert("h2_goaways_seen".into(), o.h2_clients.iter().map(|r| r.goaways.len() as u64).sum());
    if let Some(e) = &o.boot_error { rep.harness_error = Some(format!("worker boot failed: {e}")); }
    let dbg = if log { format!("{}\nviolations: {:#?}\nsoftstop_final={:?} sent_t={} master_eof={}\n{}", summarize(p), rep.violations, o.softstop_final, o.softstop_sent_t, o.master_eof, o.log.join("\n")) } else { String::new() };
    (rep, dbg)
}

pub fn shrink(p: &SoftStopPlan) -> Vec<SoftStopPlan> {
    c14::shrink_mux(&p.mux).into_iter().map(|mut m| { m.soft_stop_at_ns = p.mux.soft_stop_at_ns; m.h2_deadline_secs = p.mux.h2_deadline_secs; SoftStopPlan { mux: m } }).collect()
}
