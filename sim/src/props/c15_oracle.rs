//! C15 netsim oracles: the expectation of the model (c15_model.rs) against what the peers observed.
use super::c15_model::*;
use super::c15_net::*;
use crate::actors::h1::*;
use crate::actors::h2::*;
use crate::actors::h2codec::{ecode, ecode_name};
use crate::framework::*;
use crate::muxscn::*;
use crate::world::{MS, SEC};

/// bound on "GOAWAY, then the TCP connection is closed" (virtual time between the two as the peer sees them)
pub const RELEASE_AFTER_GOAWAY: u64 = 3 * SEC;
/// bound on the completion of a well-behaved request next to the abuse
pub const BYSTANDER_BOUND: u64 = 10 * SEC;

/// What the model expects for the abusive client of this plan.
pub fn expect_client(ca: &ClientAbuse, h2: &H2Knobs, buffer_size: u64) -> Expect {
    use ecode::*;
    let framing = |e: Expect| -> Expect { if ca.phase == Phase::AfterClientGoAway { e.or(Expect::Ends) } else { e } };
    if ca.drain {
        // sozu has announced the end of the connection: any prescribed error is still right, and so is simply ending it
        let mut c = ca.clone();
        c.drain = false;
        return match expect_client(&c, h2, buffer_size) { Expect::Any => Expect::Any, Expect::Tolerated | Expect::Ends => Expect::Ends, e => e.or(Expect::Ends) };
    }
    match &ca.kind {
        Kind::Silent => Expect::Ends,
        Kind::Garbage { len, .. } => match ca.phase {
            Phase::NoPreface => if *len >= 24 { Expect::Conn { codes: vec![PROTOCOL_ERROR], goaway_optional: true } } else { Expect::Conn { codes: vec![PROTOCOL_ERROR], goaway_optional: true }.or(Expect::Ends) },
            Phase::NoSettings => Expect::Conn { codes: vec![PROTOCOL_ERROR, FRAME_SIZE_ERROR], goaway_optional: true }.or(Expect::Ends),
            _ => Expect::Any,
        },
        Kind::Http1 => if ca.phase == Phase::NoPreface { Expect::Conn { codes: vec![PROTOCOL_ERROR], goaway_optional: true } } else { Expect::Any },
        Kind::PartialFrame { .. } => Expect::Ends,
        Kind::Frame { ty, flags, cls, tag, payload, .. } => classify_client_frame(ca.phase, *ty, *flags, *cls, payload.len() as u32, *tag),
        Kind::LenMismatch { .. } => Expect::Any,
        Kind::RBit { what, .. } => if what == "partial_preface" { Expect::Ends } else { Expect::Tolerated },
        Kind::RapidReset { count, .. } => framing(classify_rapid_reset(*count, h2.rst_window, h2.abusive_rst)),
        Kind::ContFlood { count, frag_len, finish, .. } => {
            // the block must also fit sozu's documented header budget to be served
            let bytes = *count as u64 * (*frag_len as u64 + 9);
            if *count <= h2.continuation && bytes + 200 > (h2.header_list as u64).min(buffer_size / 2) { Expect::Any } else { classify_continuation_flood(*count, h2.continuation, *finish) }
        }
        Kind::PingFlood { count, ack } => if *ack { Expect::Tolerated.or(Expect::conn(&[ENHANCE_YOUR_CALM])) } else { classify_window_flood(*count, h2.ping_window) },
        Kind::SettingsFlood { count, .. } => classify_window_flood(*count, h2.settings_window),
        Kind::EmptyData { count, .. } => classify_window_flood(*count, h2.empty_data_window),
        Kind::Wu0Flood { count } => classify_window_flood(*count, h2.wu0_window),
        // RFC 9113 §5.1: WINDOW_UPDATE on a closed stream is ignored (late ones MAY be PROTOCOL_ERROR); documented glitch budget
        Kind::GlitchFlood { count } => match classify_window_flood(*count, h2.glitch) { Expect::Tolerated => Expect::Tolerated, e => e.or(Expect::conn(&[PROTOCOL_ERROR])) },
        Kind::Oversized { fields, field_len } => {
            let size = header_list_size(&oversized_fields(*fields, *field_len));
            if size > h2.header_list as u64 { Expect::Refused { codes: vec![REFUSED_STREAM, ENHANCE_YOUR_CALM, PROTOCOL_ERROR, COMPRESSION_ERROR, INTERNAL_ERROR, CANCEL], status_ok: true } }
            else if size <= (h2.header_list as u64 / 2).min(buffer_size / 4) && *fields <= 100 { Expect::Tolerated }
            else { Expect::Any }
        }
        // RFC 9113 §5.1.2: stream error PROTOCOL_ERROR or REFUSED_STREAM for the streams above the limit
        Kind::TooManyStreams { .. } => Expect::Refused { codes: vec![REFUSED_STREAM, PROTOCOL_ERROR, ENHANCE_YOUR_CALM], status_ok: false },
    }
}

pub struct Mismatch { pub symptom: String, pub detail: String }
fn mm(symptom: &str, detail: String) -> Result<(), Mismatch> { Err(Mismatch { symptom: symptom.into(), detail }) }

/// One HTTP/2 connection as its (abusive) peer saw it.
pub struct ConnView<'a> {
    pub rec: &'a H2ConnRecord,
    /// stream the abuse names (stream errors are looked for here)
    pub target: Option<&'a StreamRec>,
    /// streams opened by the abuse itself
    pub abuse_streams: Vec<&'a StreamRec>,
    pub followup: Option<&'a StreamRec>,
    pub followup_planned: bool,
    /// virtual time the last abusive byte was queued
    pub t_abuse: u64,
}
impl<'a> ConnView<'a> {
    pub fn closed_by_peer(&self) -> bool { (self.rec.eof || self.rec.reset || self.rec.io_err.is_some() || self.rec.write_err.is_some()) && !self.rec.gave_up }
    pub fn first_goaway(&self) -> Option<&GoAwayRec> { self.rec.goaways.first() }
    pub fn error_goaway(&self) -> Option<&GoAwayRec> { self.rec.goaways.iter().find(|g| g.code != ecode::NO_ERROR) }
}

fn names(c: &[u32]) -> String { c.iter().map(|x| ecode_name(*x)).collect::<Vec<_>>().join("|") }

pub fn check(e: &Expect, v: &ConnView) -> Result<(), Mismatch> {
    match e {
        Expect::Any => Ok(()),
        Expect::Ends => if v.closed_by_peer() { Ok(()) } else { mm("not_released", format!("the connection was still open {} s after the client went quiet (goaways {:?})", ABUSER_LINGER / SEC, v.rec.goaways.iter().map(|g| ecode_name(g.code)).collect::<Vec<_>>())) },
        Expect::Conn { codes, goaway_optional } => {
            match v.first_goaway() {
                Some(g) if codes.contains(&g.code) => if v.closed_by_peer() { Ok(()) } else { mm("not_released", format!("GOAWAY({}) sent but the connection stayed open", ecode_name(g.code))) },
                // a NO_ERROR GOAWAY seconds later is the idle timeout, not a reaction
                Some(g) if g.code == ecode::NO_ERROR && g.t > v.t_abuse + 2 * SEC => mm("conn_error_ignored", format!("no reaction to the frame; the connection idled out {} ms later (expected GOAWAY({}))", (g.t - v.t_abuse) / MS, names(codes))),
                Some(g) => mm("wrong_goaway_code", format!("GOAWAY({}) where RFC 9113 prescribes {}", ecode_name(g.code), names(codes))),
                None if v.closed_by_peer() && v.rec.t_close_seen <= v.t_abuse + 2 * SEC => if *goaway_optional { Ok(()) } else { mm("goaway_omitted", format!("connection closed without GOAWAY (expected GOAWAY({}))", names(codes))) },
                None if v.closed_by_peer() => mm("conn_error_ignored", format!("no reaction to the input; the connection was only closed {} ms later (a timeout), without GOAWAY (expected GOAWAY({}) / prompt close)", v.rec.t_close_seen.saturating_sub(v.t_abuse) / MS, names(codes))),
                None => mm("conn_error_ignored", format!("no GOAWAY, connection left open (expected GOAWAY({}))", names(codes))),
            }
        }
        Expect::Stream { codes } => {
            if let Some(c) = v.target.and_then(|s| s.recv_rst) {
                if codes.contains(&c) { return Ok(()); }
                // a stream that sozu cancels for its own reasons later (idle timeout) is not the reaction
                let t = v.target.map_or(0, |s| s.t_rst);
                if t <= v.t_abuse + 2 * SEC { return mm("wrong_rst_code", format!("RST_STREAM({}) where RFC 9113 prescribes {}", ecode_name(c), names(codes))); }
            }
            match check(&Expect::Conn { codes: codes.clone(), goaway_optional: false }, v) {
                Ok(()) => Ok(()),
                Err(m) if m.symptom == "conn_error_ignored" => mm("stream_error_ignored", format!("neither RST_STREAM({0}) on the stream nor GOAWAY({0}); target stream: {1}", names(codes), v.target.map_or("-".to_string(), |s| format!("status {:?} rst {:?} end {}", s.status, s.recv_rst, s.recv_end)))),
                Err(m) => Err(m),
            }
        }
        Expect::Tolerated => {
            if let Some(g) = v.error_goaway() { return mm("valid_input_rejected", format!("GOAWAY({}) in answer to input that RFC 9113 says must be accepted or ignored", ecode_name(g.code))); }
            if v.followup_planned {
                match v.followup {
                    Some(s) if s.status == Some(200) && s.sim_id == Some(ID_FOLLOW) && s.recv_end && s.body_ok() => {}
                    Some(s) => return mm("valid_input_rejected", format!("the request that followed on the same connection was not served: status {:?} sim_id {:?} rst {:?} end {} refused_by_goaway {}", s.status, s.sim_id, s.recv_rst.map(ecode_name), s.recv_end, s.refused_by_goaway)),
                    None => return mm("valid_input_rejected", format!("the connection was gone before the next request could be sent (goaways {:?}, eof {}, closed at +{} ms)", v.rec.goaways.iter().map(|g| ecode_name(g.code)).collect::<Vec<_>>(), v.rec.eof, v.rec.t_close_seen.saturating_sub(v.t_abuse) / MS)),
                }
            } else if v.closed_by_peer() && v.rec.t_close_seen <= v.t_abuse + 2 * SEC && v.first_goaway().is_none() {
                return mm("valid_input_rejected", "connection closed right after input that must be accepted or ignored".to_string());
            }
            Ok(())
        }
        Expect::Refused { codes, status_ok } => {
            if let Some(g) = v.error_goaway() { if codes.contains(&g.code) { return if v.closed_by_peer() { Ok(()) } else { mm("not_released", format!("GOAWAY({}) sent but the connection stayed open", ecode_name(g.code))) }; } return mm("wrong_goaway_code", format!("GOAWAY({}), acceptable {}", ecode_name(g.code), names(codes))); }
            for s in &v.abuse_streams {
                if let Some(c) = s.recv_rst { if !codes.contains(&c) && s.t_rst <= v.t_abuse + 2 * SEC { return mm("wrong_rst_code", format!("stream {}: RST_STREAM({}), acceptable {}", s.id, ecode_name(c), names(codes))); } continue; }
                match s.status {
                    Some(st) if s.sim_id.is_some() && st < 400 => return mm("invalid_request_served", format!("stream {} was forwarded and answered with {st}", s.id)),
                    Some(st) if st >= 400 && *status_ok => {}
                    Some(st) => return mm("invalid_request_served", format!("stream {} answered with status {st}", s.id)),
                    None => if !v.closed_by_peer() || v.rec.t_close_seen > v.t_abuse + 20 * SEC { return mm("no_reaction", format!("stream {}: neither reset nor answered", s.id)); },
                }
            }
            Ok(())
        }
        Expect::AnyOf(list) => {
            let mut errs = Vec::new();
            for x in list { match check(x, v) { Ok(()) => return Ok(()), Err(m) => errs.push(m) } }
            // report the alternative that came closest: a wrong code tells more than "ignored"
            let pick = errs.iter().position(|m| m.symptom.starts_with("wrong_")).or_else(|| errs.iter().position(|m| m.symptom != "valid_input_rejected")).unwrap_or(0);
            let m = errs.swap_remove(pick);
            Err(Mismatch { symptom: m.symptom, detail: format!("{} (acceptable: {})", m.detail, e.short()) })
        }
    }
}

fn resp_len_of(p: &MuxPlan, cluster: usize, id: u64) -> Option<(u64, u16)> {
    match &p.clusters[cluster].backend {
        MuxBackend::H1(b) => b.responses.get(&id).map(|r| (r.body.len() as u64, r.status)),
        MuxBackend::H2(b) => b.responses.get(&id).map(|r| (r.body.len as u64, r.status)),
    }
}

/// A well-behaved request must be answered exactly, in bounded time.
fn judge_served(who: &str, id: u64, req_len: u64, want: (u64, u16), obs: &ClientObs, b: &BackendObs, feature: &str, class: &str, v: &mut Vec<Violation>) {
    let k = |s: &str| format!("{s}|{feature}");
    if !obs.answered { v.push(Violation::new(class, k("no_answer"), format!("{who} request #{id}: no response (aborted={:?})", obs.aborted))); return; }
    if obs.sim_id != Some(id) { v.push(Violation::new(class, k(&format!("status={}", obs.status.unwrap_or(0))), format!("{who} request #{id}: answered with status {:?} by the proxy (sim_id {:?}) body {:?}", obs.status, obs.sim_id, String::from_utf8_lossy(&obs.body_head[..obs.body_head.len().min(60)])))); return; }
    if obs.status != Some(want.1) { v.push(Violation::new(class, k("status_changed"), format!("{who} request #{id}: status {:?}", obs.status))); }
    if obs.first_bad.is_some() { v.push(Violation::new(class, k("body_corrupted"), format!("{who} request #{id}: response body differs at offset {:?}", obs.first_bad))); }
    else if obs.body_len != want.0 { v.push(Violation::new(class, k("body_truncated"), format!("{who} request #{id}: {} of {} response bytes (aborted {:?})", obs.body_len, want.0, obs.aborted))); }
    else if !obs.complete { v.push(Violation::new(class, k("not_terminated"), format!("{who} request #{id}: response not terminated"))); }
    if obs.t_sent > 0 && obs.t_end > obs.t_sent + BYSTANDER_BOUND { v.push(Violation::new(class, k("slow"), format!("{who} request #{id}: completed {} ms after it was sent", (obs.t_end - obs.t_sent) / MS))); }
    if b.seen == 1 && (!b.body_ok || b.body_len != req_len || !b.complete) { v.push(Violation::new(class, k("request_body"), format!("{who} request #{id}: backend got {} of {req_len} request bytes ok={} complete={}", b.body_len, b.body_ok, b.complete))); }
    if b.seen > 1 { v.push(Violation::new(class, k("request_replayed"), format!("{who} request #{id} reached the backend {} times", b.seen))); }
}

fn common(np: &NetPlan, o: &MuxOutcome, feature: &str, v: &mut Vec<Violation>) {
    let p = &np.mux;
    if p.soft_stop_at_ns.is_some() {
        // draining variant: the worker must finish by itself; requests that were never sent are nobody's fault
        if let Some(pn) = &o.panicked { v.push(Violation::new("panic", format!("worker|{feature}"), pn.clone())); }
        if let Some(a) = &o.aborted { v.push(Violation::new("wedge", format!("{a}|{feature}"), format!("run aborted by the simulator: {a}"))); }
        else if o.panicked.is_none() {
            match o.softstop_final {
                None => v.push(Violation::new("wedge", format!("worker_did_not_stop|{feature}"), "no final answer to SoftStop: the worker never finished draining".to_string())),
                Some((t, _)) if t > o.softstop_sent_t + 60 * SEC => v.push(Violation::new("wedge", format!("slow_soft_stop|{feature}"), format!("the worker needed {} s to drain", (t - o.softstop_sent_t) / SEC))),
                _ => {}
            }
        }
        return;
    }
    if let Some(pn) = &o.panicked {
        // the key names the panic itself (numbers blanked), so that a different panic is a different finding
        let norm: String = { let mut s = String::new(); let mut prev_digit = false; for c in pn.chars() { if c.is_ascii_digit() { if !prev_digit { s.push('#'); } prev_digit = true; } else { s.push(c); prev_digit = false; } } s.chars().take(80).collect() };
        v.push(Violation::new("panic", format!("worker|{norm}"), format!("{pn} [plan: {feature}]")));
    }
    if let Some(a) = &o.aborted { v.push(Violation::new("wedge", format!("{a}|{feature}"), format!("run aborted by the simulator: {a} (iterations {}, spin breaks {})", o.stats.epoll_waits, o.stats.spin_breaks))); }
    if o.panicked.is_some() || o.aborted.is_some() { return; }
    let c1 = cluster_index(p, "c1").unwrap();
    // ---- bystanders and probe
    for (ci, c) in p.h2_clients.iter().enumerate() {
        if c.name != "good2" && c.name != "probe" { continue; }
        let rec = &o.h2_clients[ci];
        let class = if c.name == "probe" { "probe_not_served" } else { "bystander_harmed" };
        if rec.connect_err.is_some() || rec.tls.as_ref().map_or(false, |t| !t.handshake_done) { v.push(Violation::new(class, format!("connect|{feature}"), format!("{}: connect_err {:?} tls {:?}", c.name, rec.connect_err, rec.tls.as_ref().and_then(|t| t.error.clone())))); continue; }
        for r in c.requests() {
            let want = resp_len_of(p, c1, r.id).unwrap_or((3, 200));
            judge_served(&c.name, r.id, r.body.len as u64, want, &h2_client_obs(rec, r.id), &backend_obs(&o.backends[c1], r.id), feature, class, v);
        }
        for lv in &rec.violations { if !lv.kind.ends_with("_pre_ack") { v.push(Violation::new("limit_exceeded", format!("{}|{}|{feature}", lv.kind, c.name), format!("{} stream {}: {}", c.name, lv.stream, lv.detail))); } }
    }
    for (ci, c) in p.h1_clients.iter().enumerate() {
        if c.name != "good1" && c.name != "probe" { continue; }
        let oc = &o.h1_clients[ci];
        let class = if c.name == "probe" { "probe_not_served" } else { "bystander_harmed" };
        if oc.rec.connect_err.is_some() { v.push(Violation::new(class, format!("connect|{feature}"), format!("{}: connect_err {:?}", c.name, oc.rec.connect_err))); continue; }
        for (ri, r) in c.requests.iter().enumerate() {
            let want = resp_len_of(p, c1, r.id).unwrap_or((3, 200));
            judge_served(&c.name, r.id, r.body.len() as u64, want, &h1_client_obs(oc, ri, r.id), &backend_obs(&o.backends[c1], r.id), feature, class, v);
        }
        if let Some(e) = &oc.rec.parse_error { v.push(Violation::new(class, format!("malformed_response|{feature}"), format!("{}: {e}", c.name))); }
    }
    // ---- footprint after quiescence
    if o.board.get("quiesced").copied().unwrap_or(0) == 1 {
        if o.leak_accepted > 0 { v.push(Violation::new("fd_leak", format!("client_socket|{feature}"), format!("{} accepted client socket(s) still open {} s after the last peer left", o.leak_accepted, SETTLE / SEC))); }
        if o.leak_connected > 0 { v.push(Violation::new("fd_leak", format!("backend_socket|{feature}"), format!("{} backend socket(s) still open {} s after the last peer left", o.leak_connected, SETTLE / SEC))); }
    } else {
        v.push(Violation::new("wedge", format!("never_quiesced|{feature}"), "the clients never all finished".to_string()));
    }
}

pub fn advertised(rec: &H2ConnRecord, id: u16) -> Option<u32> {
    rec.peer_settings.iter().flat_map(|(_, p)| p.iter()).filter(|(i, _)| *i == id).map(|(_, v)| *v).last()
}

pub fn oracle_client(np: &NetPlan, o: &MuxOutcome) -> Vec<Violation> {
    let mut v = Vec::new();
    let ca = np.client_abuse.as_ref().unwrap();
    let key = ca.key();
    let feature = key.as_str();
    common(np, o, feature, &mut v);
    if o.panicked.is_some() || o.aborted.is_some() { return v; }
    let p = &np.mux;
    let rec = &o.h2_clients[0];
    if ca.drain && (rec.connect_err.is_some() || rec.tls.as_ref().map_or(true, |t| !t.handshake_done)) { return v; }
    if rec.connect_err.is_some() || rec.tls.as_ref().map_or(true, |t| !t.handshake_done) {
        v.push(Violation::new("abuser_setup", format!("tls|{feature}"), format!("the abusive client could not even connect: {:?} {:?}", rec.connect_err, rec.tls.as_ref().and_then(|t| t.error.clone()))));
        return v;
    }
    if rec.abuse_sent.is_empty() && (ca.phase == Phase::AfterClientGoAway || ca.drain) { return v; }
    if rec.abuse_sent.is_empty() && !matches!(ca.kind, Kind::Silent) {
        // the setup did not get as far as the abuse (e.g. sozu already ended the connection): nothing to judge beyond the common clauses
        if !rec.goaways.is_empty() || rec.eof { v.push(Violation::new("valid_input_rejected", format!("setup|{feature}"), format!("the connection ended during the well-formed setup before any abuse was sent: goaways {:?} eof {} streams {:?}", rec.goaways.iter().map(|g| ecode_name(g.code)).collect::<Vec<_>>(), rec.eof, rec.streams.values().map(|s| (s.id, s.status, s.recv_rst)).collect::<Vec<_>>()))); }
        return v;
    }
    let expect = expect_client(ca, &np.h2, p.knobs.buffer_size);
    let target_id = match ca.setup { Setup::Closed => Some(ID_CLOSED), Setup::Open { .. } | Setup::HalfClosed { .. } => Some(ID_TARGET), Setup::None => None };
    let abuse_ids: Vec<u32> = rec.abuse_sent.iter().flat_map(|a| a.streams.iter().copied()).collect();
    let abuse_streams: Vec<&StreamRec> = abuse_ids.iter().filter_map(|i| rec.streams.get(i)).collect();
    let cls = match &ca.kind { Kind::Frame { cls, .. } => Some(*cls), _ => None };
    let target = match cls {
        Some(StreamClass::Fresh) => abuse_streams.last().copied(),
        Some(StreamClass::Open) if ca.phase == Phase::InHeaderBlock => abuse_streams.last().copied(),
        _ => target_id.and_then(|id| rec.stream_for(id)),
    };
    let t_abuse = rec.abuse_sent.iter().map(|a| a.t_end).max().unwrap_or(rec.t_connect);
    let view = ConnView { rec, target, abuse_streams: abuse_streams.clone(), followup: rec.stream_for(ID_FOLLOW), followup_planned: ca.followup && !matches!(ca.phase, Phase::NoPreface), t_abuse };
    let mut streams_to_refuse = view.abuse_streams.clone();
    // ---- the prescribed reaction
    let adv_mcs = advertised(rec, 3);
    let adv_hls = advertised(rec, 6);
    match &ca.kind {
        Kind::TooManyStreams { extra, .. } => {
            let m = adv_mcs.unwrap_or(u32::MAX) as usize;
            streams_to_refuse = abuse_streams.iter().skip(m).take(*extra as usize).copied().collect();
        }
        _ => {}
    }
    let view = ConnView { abuse_streams: streams_to_refuse, ..view };
    if let Err(m) = check(&expect, &view) {
        // for input that must be accepted the undefined flag bit is part of the trigger
        let k = if m.symptom == "valid_input_rejected" && ca.undefined_flag() && !feature.ends_with("+undefined_flag") { format!("{feature}+undefined_flag") } else { feature.to_string() };
        v.push(Violation::new(&m.symptom, k, format!("{}: {} [expected {}]", ca.feature, m.detail, expect.short())));
    }
    // ---- release: whatever happened, sozu must have let go of the connection by the end of the linger
    if !view.closed_by_peer() && !v.iter().any(|x| x.class == "not_released") {
        v.push(Violation::new("not_released", feature.to_string(), format!("the abusive connection was still open when the client left after {} s of silence (gave_up {}, goaways {:?})", ABUSER_LINGER / SEC, rec.gave_up, rec.goaways.iter().map(|g| ecode_name(g.code)).collect::<Vec<_>>())));
    }
    if let Some(g) = view.error_goaway() {
        if view.closed_by_peer() && rec.t_close_seen > g.t + RELEASE_AFTER_GOAWAY { v.push(Violation::new("slow_release", feature.to_string(), format!("connection closed {} ms after GOAWAY({})", (rec.t_close_seen - g.t) / MS, ecode_name(g.code)))); }
    }
    // ---- acknowledgements owed for tolerated control frames
    let clean = view.error_goaway().is_none();
    if clean {
        match &ca.kind {
            Kind::PingFlood { count, ack: false } => {
                let acks = rec.pings_recv.iter().filter(|p| p.2).count() as u32;
                if acks < *count { v.push(Violation::new("ack_missing", format!("ping|{feature}"), format!("{acks} PING acknowledgements for {count} PINGs on a connection that stayed up"))); }
            }
            Kind::SettingsFlood { .. } => {
                let un = rec.settings_sent.iter().filter(|s| s.t_wire.is_some() && s.t_acked.is_none()).count();
                if un > 0 { v.push(Violation::new("ack_missing", format!("settings|{feature}"), format!("{un} SETTINGS frames never acknowledged on a connection that stayed up"))); }
            }
            Kind::Frame { ty: 6, flags, cls: StreamClass::Zero, tag: Tag::Plain, .. } if flags & 1 == 0 && matches!(ca.phase, Phase::Established) => {
                if !rec.pings_recv.iter().any(|p| p.2 && p.1 == [5u8; 8]) { v.push(Violation::new("ack_missing", format!("ping|{feature}"), "PING not acknowledged".to_string())); }
            }
            _ => {}
        }
        // siblings on a connection that had no connection error complete byte-exactly
        let c0 = cluster_index(p, "c0").unwrap();
        for r in p.h2_clients[0].requests() {
            if r.id >= ID_TARGET { continue; }
            let want = resp_len_of(p, c0, r.id).unwrap_or((3, 200));
            // bytes that swallow what follows them (an unfinished frame) also swallow the siblings' later DATA frames
            if matches!(expect, Expect::Any) || matches!(&ca.kind, Kind::Frame { tag: Tag::GoAwayError, .. } | Kind::PartialFrame { .. } | Kind::LenMismatch { .. } | Kind::Garbage { .. }) { continue; }
            // RFC 9113 §6.8: a client's GOAWAY names the highest *server-initiated* stream it processed; its own requests stay valid
            let client_goaway = ca.phase == Phase::AfterClientGoAway || matches!(&ca.kind, Kind::Frame { ty: 7, tag: Tag::GoAwayNoError, cls: StreamClass::Zero, .. });
            let sk = if client_goaway { "client_goaway_with_streams_in_flight" } else { feature };
            judge_served("abuser sibling", r.id, r.body.len as u64, want, &h2_client_obs(rec, r.id), &backend_obs(&o.backends[c0], r.id), sk, "sibling_stream_harmed", &mut v);
        }
    }
    // ---- advertised limits
    let c0 = cluster_index(p, "c0").unwrap();
    let at_b0 = h1_backend_requests(o, c0);
    if let Some(m) = adv_mcs { if m != np.h2.max_streams && matches!(ca.kind, Kind::TooManyStreams { .. }) { v.push(Violation::new("advertised_limit_mismatch", "max_concurrent_streams".to_string(), format!("sozu advertised SETTINGS_MAX_CONCURRENT_STREAMS {m}, configured h2_max_concurrent_streams {}", np.h2.max_streams))); } }
    if let Some(m) = adv_hls { if m != np.h2.header_list && matches!(ca.kind, Kind::Oversized { .. }) { v.push(Violation::new("advertised_limit_mismatch", "max_header_list_size".to_string(), format!("sozu advertised SETTINGS_MAX_HEADER_LIST_SIZE {m}, configured h2_max_header_list_size {}", np.h2.header_list))); } }
    if let Kind::TooManyStreams { extra, hpack_probe: true, .. } = &ca.kind {
        // RFC 9113 §4.3: the field block of a refused stream still updates the HPACK state
        let total = (adv_mcs.unwrap_or(np.h2.max_streams) + extra) as usize;
        if abuse_streams.len() > total {
            let s = abuse_streams[total];
            let refused_ok = abuse_streams.iter().skip(total - *extra as usize).take(*extra as usize).all(|x| x.recv_rst.is_some());
            if refused_ok && !(s.status == Some(200) && s.sim_id == Some(ID_ABUSE)) {
                v.push(Violation::new("valid_input_rejected", format!("hpack_state|{feature}"), format!("a request that refers to a dynamic-table entry inserted by the field block of a refused stream: status {:?} rst {:?} goaways {:?}", s.status, s.recv_rst.map(ecode_name), rec.goaways.iter().map(|g| ecode_name(g.code)).collect::<Vec<_>>())));
            }
        }
    }
    // a body that follows a request sozu refused with RST_STREAM was in flight before the client could see the reset:
    // having chosen the stream error, sozu must be prepared for those frames (RFC 9113 5.1) and not end the connection
    // ... and must give their octets back to the connection window (RFC 9113 6.9: every DATA frame counts, also on a closed
    // stream): on a connection that stayed up, the upload that follows completes
    if let Kind::TooManyStreams { window_probe: true, .. } = &ca.kind {
        if view.error_goaway().is_none() {
            match rec.stream_for(ID_FOLLOW) {
                Some(s) if s.status == Some(200) && s.sim_id == Some(ID_FOLLOW) && s.recv_end => {}
                Some(s) => v.push(Violation::new("upload_stalled_after_refused_streams", feature.to_string(), format!("{} octets of DATA went to streams sozu had refused; the {}-octet upload that followed on the same connection (receive window 65535): sent {} octets, status {:?}, rst {:?}, connection send window left {}, connection WINDOW_UPDATE credit received {}", WINDOW_PROBE_REFUSED_BYTES, WINDOW_PROBE_UPLOAD, s.sent_body, s.status, s.recv_rst.map(ecode_name), rec.conn_send_window, rec.conn_wu_recv))),
                None => v.push(Violation::new("upload_stalled_after_refused_streams", feature.to_string(), "the upload that follows the refused streams was never opened although the connection stayed up".to_string())),
            }
        }
    }
    if let Kind::TooManyStreams { with_body: true, .. } = &ca.kind {
        let refused_by_rst = rec.streams.values().any(|s| s.recv_rst == Some(7));
        if refused_by_rst { if let Some(g) = view.error_goaway() { v.push(Violation::new("reset_stream_followup_killed_connection", feature.to_string(), format!("sozu refused a stream with RST_STREAM(REFUSED_STREAM) and then ended the connection with GOAWAY({}) when the request's DATA frame arrived", ecode_name(g.code)))); } }
    }
    if let Kind::TooManyStreams { .. } = &ca.kind {
        let n = at_b0.iter().filter(|m| m.target().starts_with("/mcs/")).count();
        let lim = adv_mcs.unwrap_or(np.h2.max_streams) as usize;
        if n > lim { v.push(Violation::new("over_commit", feature.to_string(), format!("{n} of the concurrently opened streams were forwarded to the backend, advertised SETTINGS_MAX_CONCURRENT_STREAMS = {lim}"))); }
    }
    if let Kind::Oversized { fields, field_len } = &ca.kind {
        let size = header_list_size(&oversized_fields(*fields, *field_len));
        let lim = adv_hls.unwrap_or(u32::MAX) as u64;
        if size > lim && at_b0.iter().any(|m| m.target().starts_with("/oversized-headers")) { v.push(Violation::new("over_commit", feature.to_string(), format!("a request with a header list of {size} octets was forwarded, advertised SETTINGS_MAX_HEADER_LIST_SIZE = {lim}"))); }
        if matches!(expect, Expect::Tolerated) && clean {
            if let Some(s) = abuse_streams.first() { if s.status != Some(200) { v.push(Violation::new("valid_input_rejected", format!("request|{feature}"), format!("request with a header list of {size} octets (advertised limit {lim}): status {:?} rst {:?}", s.status, s.recv_rst.map(ecode_name)))); } }
        }
    }
    // a well-formed request sent as a raw HEADERS frame on a fresh stream is an ordinary request
    if let Kind::Frame { ty: 1, cls: StreamClass::Fresh, tag: Tag::ValidRequest, flags, .. } = &ca.kind {
        if flags & 5 == 5 && clean && ca.phase == Phase::Established && !ca.drain {
            if let Some(s) = abuse_streams.last() { if s.status != Some(200) || s.sim_id != Some(ID_ABUSE) { v.push(Violation::new("valid_input_rejected", format!("request|{feature}"), format!("well-formed request on a new stream: status {:?} sim_id {:?} rst {:?}", s.status, s.sim_id, s.recv_rst.map(ecode_name)))); } }
        }
    }
    v
}

pub fn oracle_backend(np: &NetPlan, o: &MuxOutcome) -> Vec<Violation> {
    let mut v = Vec::new();
    let ba = np.backend_abuse.as_ref().unwrap();
    let key = ba.key();
    let feature = key.as_str();
    common(np, o, feature, &mut v);
    if o.panicked.is_some() || o.aborted.is_some() { return v; }
    let p = &np.mux;
    let cb = cluster_index(p, "cb").unwrap();
    let bound = (p.knobs.back_timeout as u64 + 4 * p.knobs.connect_timeout as u64 + 12) * SEC;
    let must_serve = ba.on_accept && ba.expect == Expect::Tolerated;
    let judge = |id: u64, obs: &ClientObs, conn_closed: bool, gave_up: bool, idx: usize, v: &mut Vec<Violation>| {
        let want = resp_len_of(p, cb, id).unwrap_or((3, 200));
        let k = |s: &str| format!("{s}|{feature}");
        let abused = !ba.on_accept && idx == 0;
        if abused && obs.answered {
            // the backend sent abuse in place of this answer: whatever reached the client, it must end
            if !obs.complete && obs.aborted.is_none() && !conn_closed { v.push(Violation::new("victim_wedged", k("response_never_ends"), format!("victim request #{id}: response started (status {:?}) but neither finished nor aborted", obs.status))); }
        } else if obs.answered && obs.sim_id == Some(id) {
            // an answer from the backend must be the right one
            if (obs.status != Some(200) || obs.first_bad.is_some() || (obs.complete && obs.body_len != want.0)) { v.push(Violation::new("victim_wrong_answer", k("corrupted"), format!("victim request #{id}: status {:?} body {} of {} first_bad {:?}", obs.status, obs.body_len, want.0, obs.first_bad))); }
            if !obs.complete && obs.aborted.is_none() && !conn_closed { v.push(Violation::new("victim_wedged", k("response_never_ends"), format!("victim request #{id}: response started but neither finished nor aborted"))); }
        } else if obs.answered {
            if !matches!(obs.status, Some(502) | Some(503) | Some(504)) { v.push(Violation::new("victim_wrong_answer", k(&format!("status={}", obs.status.unwrap_or(0))), format!("victim request #{id}: proxy answered {:?}", obs.status))); }
            if must_serve { v.push(Violation::new("valid_input_rejected", k("victim_not_served"), format!("victim request #{id}: status {:?} although the backend only sent frames that must be tolerated", obs.status))); }
        } else if obs.complete {
            // END_STREAM without any response HEADERS: reported as malformed_response_to_client below
        } else if obs.aborted.is_some() || conn_closed {
            if must_serve { v.push(Violation::new("valid_input_rejected", k("victim_not_served"), format!("victim request #{id}: {:?}", obs.aborted))); }
        } else if obs.t_sent > 0 || gave_up {
            v.push(Violation::new("victim_wedged", k("no_answer"), format!("victim request #{id}: neither an answer nor an error; gave_up={gave_up}")));
        }
        if obs.t_sent > 0 && obs.t_end > obs.t_sent + bound { v.push(Violation::new("victim_wedged", k("slow"), format!("victim request #{id}: ended {} ms after it was sent", (obs.t_end - obs.t_sent) / MS))); }
    };
    if let Some(ci) = p.h2_clients.iter().position(|c| c.name == "victim") {
        let rec = &o.h2_clients[ci];
        for (i, r) in p.h2_clients[ci].requests().iter().enumerate() {
            if rec.requests_not_sent.contains(&r.id) { continue; }
            judge(r.id, &h2_client_obs(rec, r.id), rec.eof || rec.io_err.is_some(), rec.gave_up, i, &mut v);
        }
        for lv in &rec.violations { if !lv.kind.ends_with("_pre_ack") { v.push(Violation::new("limit_exceeded", format!("{}|victim|{feature}", lv.kind), lv.detail.clone())); } }
        // what sozu sends to the client must be well-formed HTTP/2 whatever the backend did
        for s in rec.streams.values() {
            if let Some(i) = s.header_issues.first() { v.push(Violation::new("malformed_response_to_client", feature.to_string(), format!("victim stream {}: {i} (status {:?}, {} DATA frames, {} body octets)", s.id, s.status, s.data_frames, s.body_len))); }
        }
    }
    if let Some(ci) = p.h1_clients.iter().position(|c| c.name == "victim") {
        let oc = &o.h1_clients[ci];
        if let Some(e) = &oc.rec.parse_error { v.push(Violation::new("malformed_response_to_client", feature.to_string(), format!("victim (HTTP/1.1): {e}"))); }
        for (ri, r) in p.h1_clients[ci].requests.iter().enumerate() {
            if !oc.rec.sent_done.iter().any(|(i, _)| *i == r.id) || oc.rec.parse_error.is_some() { continue; }
            judge(r.id, &h1_client_obs(oc, ri, r.id), oc.rec.eof || oc.rec.io_err.is_some(), oc.rec.gave_up, ri, &mut v);
        }
    }
    // ---- sozu's reaction on the backend connection that carried the abuse
    if let BackendRecords::H2(recs) = &o.backends[cb] {
        if let Some(rec) = recs.iter().find(|r| !r.abuse_sent.is_empty()) {
            let t_abuse = rec.abuse_sent.iter().map(|a| a.t_end).max().unwrap_or(0);
            let target = rec.streams.values().find(|s| s.sim_id == Some(ID_VICTIM));
            let view = ConnView { rec, target, abuse_streams: vec![], followup: None, followup_planned: false, t_abuse };
            let e = match &ba.expect { Expect::Tolerated => Expect::Any, e => e.clone() };
            if let Err(m) = check(&e, &view) { v.push(Violation::new(&m.symptom, feature.to_string(), format!("backend connection {}: {} [expected {}]", rec.idx, m.detail, ba.expect.short()))); }
            if ba.expect == Expect::Tolerated { if let Some(g) = view.error_goaway() { v.push(Violation::new("valid_input_rejected", feature.to_string(), format!("sozu sent GOAWAY({}) to a backend that only sent frames that must be tolerated", ecode_name(g.code)))); } }
        }
    }
    v
}
