//! C12 traffic tier — reference model and history-based oracle.
//!
//! Inputs (nothing else): the plan, the acknowledged command history (each command is atomic somewhere inside
//! [handed to the channel, final answer read by the master]), every connect() the worker made as the simulated
//! network saw it (virtual time, destination, answer of the network, whether the socket was registered in the
//! health checker's token range), what the mock backends received and answered, what the clients received, the
//! QueryMetrics answer after quiescence, and virtual time.
//!
//! Model. A backend *instance* is born by an AddBackend for a (cluster, id, address) that is not a live member
//! and dies by a RemoveBackend for its address; an AddBackend for a live (id, address) updates backup flag /
//! cookie value in place. Per instance the model follows
//!  * retry state: a set of possible (tries, last failure, drawn wait range) — a connect failure outside the
//!    back-off arms a wait of 1 s (first two failures) or of 1..2^tries-1 s (unknown to the outside), a failure
//!    inside the back-off is ignored, an established connect resets; the back-off is *definite* during the first
//!    second and *possible* until the maximum of the range;
//!  * health: a set of possible (status, success streak, failure streak) driven by the probe results the mock
//!    backends produced (200 / 500 / no answer / refused), with the thresholds of the configuration in force.
//! Every predicate is three-valued (definitely / possibly / no). A connect made for a request is accepted iff
//! some admissible state puts its destination in the allowed set: members possibly eligible and not definitely
//! backups; backups only if no primary is definitely eligible; the fail-open set (members possibly outside their
//! back-off) only if nobody is definitely eligible; the holder of the request's cookie whenever it is possibly
//! eligible.
#![allow(dead_code)]
use std::collections::{BTreeMap, BTreeSet};

use sozu_command_lib::proto::command::{filtered_metrics::Inner, response_content::ContentType, ResponseStatus};

use super::c12_net::*;
use crate::actors::h1::BackConnRecord;
use crate::framework::Violation;
use crate::scenario::HttpOutcome;
use crate::world::{MS, SEC};

/// slack between an event of the simulated network and the worker acting on it (virtual time only moves by
/// 1 us per loop iteration while the worker has work; 2 ms is far above any queueing in these plans)
pub const EPS: u64 = 2 * MS;
const MAX_TRIES: u8 = 6;

#[derive(Clone, Copy, Debug, PartialEq)]
pub struct Span { pub lo: u64, pub hi: u64 }

#[derive(Clone, Debug)]
struct Attr { span: Span, backup: bool, sticky: Option<String> }

#[derive(Clone, Debug)]
struct Inst { c: usize, id: String, slot: usize, add: Span, remove: Option<Span>, attrs: Vec<Attr> }
impl Inst {
    fn mem_def(&self, t: u64) -> bool { self.add.hi < t && self.remove.map_or(true, |r| t < r.lo) }
    fn mem_pos(&self, t: u64) -> bool { self.add.lo <= t && self.remove.map_or(true, |r| t <= r.hi) }
    fn attrs_at(&self, t: u64) -> &[Attr] {
        let mut k = 0;
        for (i, a) in self.attrs.iter().enumerate() { if a.span.hi < t { k = i; } }
        let mut e = k;
        for (i, a) in self.attrs.iter().enumerate() { if a.span.lo <= t { e = e.max(i); } }
        &self.attrs[k..=e]
    }
    fn backup_def(&self, t: u64) -> bool { self.attrs_at(t).iter().all(|a| a.backup) }
    fn backup_pos(&self, t: u64) -> bool { self.attrs_at(t).iter().any(|a| a.backup) }
    fn sticky_pos(&self, t: u64, k: &str) -> bool { self.attrs_at(t).iter().any(|a| a.sticky.as_deref() == Some(k)) }
    fn sticky_def(&self, t: u64, k: &str) -> bool { self.attrs_at(t).iter().all(|a| a.sticky.as_deref() == Some(k)) }
    fn name(&self) -> String { format!("{}:{}@slot{}", self.c, self.id, self.slot) }
}

#[derive(Clone, Copy, Debug, PartialEq)]
enum RKind { Fail, Success, Either }
#[derive(Clone, Debug)]
struct REv { lo: u64, hi: u64, kind: RKind, optional: bool, conn: usize }

#[derive(Clone, Debug, PartialEq)]
struct RState { tries: u8, armed: Option<(u64, u64, u64, u64)> }

#[derive(Clone, Copy, Debug, PartialEq)]
enum HKind { Ok, Fail, Either, Reset }
#[derive(Clone, Debug)]
struct HEv { lo: u64, hi: u64, kind: HKind, up: u32, down: u32, optional: bool }

#[derive(Clone, Debug)]
struct HcCfg { span: Span, hc: Option<NHc>, drops_in_flight: bool, resets: bool }

#[derive(Clone, Debug)]
struct Conn {
    t: u64, slot: Option<usize>, answer: u8, done_at: u64, t_close: u64, probe: bool,
    /// index of the mock's connection record (established connects only)
    rec: Option<usize>,
    /// sim ids of the requests the mock read on this connection
    reqs: Vec<u64>,
    /// the mock wrote at least one complete answer on it
    answered: bool,
    /// the mock closed it without reading anything
    closed_unread: bool,
    backend_t_close: u64,
}
impl Conn {
    fn failed(&self) -> bool { self.answer != 1 || !self.answered }
}

#[derive(Clone, Debug)]
struct Req { ci: usize, ri: usize, id: u64, c: usize, cookie: Option<String>, t_start: u64, t_sent: Option<u64>, status: Option<u16>, sim: Option<u64>, t_answer: u64, conn: Option<(usize, usize)> }

pub struct Judgement {
    pub violations: Vec<Violation>,
    pub probes: BTreeMap<String, u64>,
    pub nontrivial: bool,
    pub log: Vec<String>,
    pub harness: Option<String>,
}

struct Model<'a> {
    p: &'a NetPlan,
    insts: Vec<Inst>,
    hc: Vec<Vec<HcCfg>>,
    conns: Vec<Conn>,
    reqs: Vec<Req>,
    /// per instance
    retry: Vec<Vec<REv>>,
    /// per (cluster, slot)
    health: BTreeMap<(usize, usize), Vec<HEv>>,
    cookies: Vec<BTreeSet<String>>,
    v: Vec<Violation>,
    probes: BTreeMap<String, u64>,
    log: Vec<String>,
    verbose: bool,
    t0: u64,
    binary_probe: bool,
    /// per cluster: (span, algo, metric) of every AddCluster, the initial one first
    policy: Vec<Vec<(Span, u8, u8)>>,
}

fn secs(t: u64, t0: u64) -> String { if t == 0 { "-".into() } else if t == u64::MAX { "never".into() } else { format!("{:.4}", (t as f64 - t0 as f64) / 1e9) } }

fn wait_hi_s(tries_before: u8) -> u64 {
    let max_secs = std::cmp::max(1u64, 1u64 << tries_before.min(20));
    if max_secs == 1 { 1 } else { max_secs - 1 }
}

fn apply_retry(states: &[RState], ev: &REv, kind: RKind) -> Vec<RState> {
    let mut out: Vec<RState> = Vec::new();
    let mut push = |s: RState| if !out.contains(&s) { out.push(s) };
    for s in states {
        match kind {
            RKind::Success => push(RState { tries: 0, armed: None }),
            RKind::Fail => {
                let fresh = RState { tries: (s.tries + 1).min(MAX_TRIES), armed: Some((ev.lo, ev.hi, SEC, wait_hi_s(s.tries) * SEC)) };
                match s.armed {
                    None => push(fresh),
                    Some((llo, lhi, wlo, whi)) => {
                        // outside the back-off (for the shortest possible wait): a new window is armed
                        if ev.hi.saturating_sub(llo) >= wlo { push(fresh); }
                        // inside the back-off (for the longest possible wait): ignored
                        if ev.lo.saturating_sub(lhi) < whi { push(s.clone()); }
                    }
                }
            }
            RKind::Either => unreachable!(),
        }
    }
    out
}

fn step_retry(states: Vec<RState>, ev: &REv, definite: bool) -> Vec<RState> {
    let mut out: Vec<RState> = if definite { Vec::new() } else { states.clone() };
    let kinds: &[RKind] = match ev.kind { RKind::Either => &[RKind::Success, RKind::Fail], RKind::Fail => &[RKind::Fail], RKind::Success => &[RKind::Success] };
    for k in kinds { for s in apply_retry(&states, ev, *k) { if !out.contains(&s) { out.push(s); } } }
    out
}

/// possible retry states at `t`, ignoring the events of connect `skip`; `None` = too many possibilities (anything goes)
fn retry_states(evs: &[REv], t: u64, skip: usize) -> Option<Vec<RState>> {
    let mut states = vec![RState { tries: 0, armed: None }];
    let mut unknown = false;
    let evs: Vec<&REv> = evs.iter().filter(|e| e.conn != skip && e.lo <= t).collect();
    let mut i = 0;
    while i < evs.len() {
        let e = evs[i];
        let definite = e.hi < t && !e.optional;
        // two events of different kinds whose windows overlap may have happened in either order
        if i + 1 < evs.len() && evs[i + 1].lo <= e.hi && evs[i + 1].kind != e.kind {
            let f = evs[i + 1];
            if i + 2 < evs.len() && evs[i + 2].lo <= e.hi.max(f.hi) { unknown = true; i += 1; continue; }
            let fdef = f.hi < t && !f.optional;
            let a = step_retry(step_retry(states.clone(), e, definite), f, fdef);
            let b = step_retry(step_retry(states.clone(), f, fdef), e, definite);
            states = a;
            for s in b { if !states.contains(&s) { states.push(s); } }
            i += 2;
        } else {
            states = step_retry(states, e, definite);
            if definite && e.kind == RKind::Success { unknown = false; }
            i += 1;
        }
        if states.len() > 48 { unknown = true; states.truncate(48); }
    }
    if unknown { None } else { Some(states) }
}

fn bo_def(st: &Option<Vec<RState>>, t: u64) -> bool {
    match st { None => false, Some(v) => v.iter().all(|s| matches!(s.armed, Some((llo, lhi, wlo, _)) if t >= lhi && t + EPS < llo + wlo)) }
}
fn bo_pos(st: &Option<Vec<RState>>, t: u64) -> bool {
    match st { None => true, Some(v) => v.iter().any(|s| matches!(s.armed, Some((_, lhi, _, whi)) if t < lhi + whi + EPS)) }
}

/// possible (healthy, successes, failures) at `t`
fn health_states(evs: &[HEv], inst: &Inst, t: u64) -> Vec<(bool, u32, u32)> {
    let mut states: Vec<(bool, u32, u32)> = vec![(true, 0, 0)];
    for e in evs.iter().filter(|e| e.lo <= t && e.hi >= inst.add.lo) {
        let definite = e.hi < t && !e.optional && e.lo > inst.add.hi;
        let mut next: Vec<(bool, u32, u32)> = if definite { Vec::new() } else { states.clone() };
        let kinds: &[HKind] = match e.kind { HKind::Either => &[HKind::Ok, HKind::Fail], HKind::Ok => &[HKind::Ok], HKind::Fail => &[HKind::Fail], HKind::Reset => &[HKind::Reset] };
        for s in &states {
            for k in kinds {
                let n = match k {
                    HKind::Ok => { let succ = (s.1 + 1).min(e.up.max(1)); (s.0 || succ >= e.up, succ, 0) }
                    HKind::Fail => { let f = (s.2 + 1).min(e.down.max(1)); (s.0 && f < e.down, 0, f) }
                    _ => (true, 0, 0),
                };
                if !next.contains(&n) { next.push(n); }
            }
        }
        states = next;
    }
    states
}

#[derive(Clone, Debug)]
struct View { i: usize, mem_def: bool, mem_pos: bool, h_def: bool, h_pos: bool, bo_def: bool, bo_pos: bool, backup_def: bool, backup_pos: bool }
impl View {
    fn elig_def(&self) -> bool { self.mem_def && self.h_def && !self.bo_pos }
    fn elig_pos(&self) -> bool { self.mem_pos && self.h_pos && !self.bo_def }
}

impl<'a> Model<'a> {
    fn probe(&mut self, k: &str) { *self.probes.entry(k.to_string()).or_insert(0) += 1; }
    fn viol(&mut self, class: &str, key: &str, detail: String) {
        // plan-level trigger of a recorded defect: the health checker cannot read an answer whose first octets are not UTF-8
        let key = &if self.binary_probe && ["ineligible_backend_connected", "sticky_ignored", "sticky_to_ineligible", "no_backend_despite_eligible", "least_loaded_not_least"].contains(&class) { "probe_answer_not_utf8".to_string() } else { key.to_string() };
        if self.verbose { self.log.push(format!("  !! {class} {key}: {detail}")); }
        if !self.v.iter().any(|x| x.class == class && x.key == *key) { self.v.push(Violation::new(class, key.as_str(), detail)); }
    }
    /// the policy in force at `t` if it is certain: (algo, metric)
    fn policy_def(&self, c: usize, t: u64) -> Option<(u8, u8)> {
        let v = &self.policy[c];
        if v.iter().any(|(s, _, _)| s.lo <= t && t <= s.hi) { return None; }
        v.iter().rev().find(|(s, _, _)| s.hi < t).map(|(_, a, m)| (*a, *m))
    }
    fn policy_at(&self, c: usize, t: u64) -> String {
        match self.policy_def(c, t) { Some((a, _)) => POLICIES[a as usize % 6].to_string(), None => "policy change in flight".into() }
    }
    /// connections of sessions to instance `i` that are certainly / possibly open at `t` (connect `skip` left out)
    fn open_conns(&self, i: usize, t: u64, skip: usize) -> (usize, usize) {
        let inst = &self.insts[i];
        let (mut lo, mut hi) = (0, 0);
        for (j, k) in self.conns.iter().enumerate() {
            if j == skip || k.probe || k.slot != Some(inst.slot) || !matches!(k.answer, 1 | 3 | 4) || !inst.mem_pos(k.t) { continue; }
            let others = self.insts.iter().enumerate().any(|(x, o)| x != i && o.slot == inst.slot && o.mem_pos(k.t));
            if k.t <= t && (k.t_close == 0 || k.t_close + EPS >= t) { hi += 1; }
            if !others && inst.mem_def(k.t) && k.t + EPS < t && (k.t_close == 0 || k.t_close > t + EPS) { lo += 1; }
        }
        (lo, hi)
    }

    fn view(&self, i: usize, t: u64, skip: usize) -> View {
        let inst = &self.insts[i];
        let st = retry_states(&self.retry[i], t, skip);
        let hs = match self.health.get(&(inst.c, inst.slot)) { Some(e) => health_states(e, inst, t), None => vec![(true, 0, 0)] };
        View {
            i, mem_def: inst.mem_def(t), mem_pos: inst.mem_pos(t), h_def: hs.iter().all(|s| s.0), h_pos: hs.iter().any(|s| s.0),
            bo_def: bo_def(&st, t), bo_pos: bo_pos(&st, t), backup_def: inst.backup_def(t), backup_pos: inst.backup_pos(t),
        }
    }
    fn cluster_views(&self, c: usize, t: u64, skip: usize) -> Vec<View> {
        (0..self.insts.len()).filter(|&i| self.insts[i].c == c && self.insts[i].mem_pos(t)).map(|i| self.view(i, t, skip)).collect()
    }
    fn describe(&self, v: &View, _t: u64) -> String {
        let i = &self.insts[v.i];
        let tri = |d: bool, p: bool, yes: &str, no: &str| if d { yes.to_string() } else if p { format!("{yes}?") } else { no.to_string() };
        format!("{}[{} {} {} {}{}]", i.name(), tri(v.mem_def, v.mem_pos, "member", "gone"), tri(v.h_def, v.h_pos, "healthy", "UNHEALTHY"), tri(v.bo_def, v.bo_pos, "BACKOFF", "ready"), tri(v.backup_def, v.backup_pos, "backup", "primary"),
            if let Some(r) = i.remove { format!(" removed@{}..{}", secs(r.lo, self.t0), secs(r.hi, self.t0)) } else { String::new() })
    }

    /// can instance `v` be in the allowed set at `t` in some admissible state? Err(reason) if not
    fn allowed(&self, v: &View, all: &[View], cookies: &BTreeSet<String>, sticky_cluster: bool, t: u64) -> Result<&'static str, &'static str> {
        if !v.mem_pos { return Err("removed"); }
        let inst = &self.insts[v.i];
        if sticky_cluster && v.elig_pos() && cookies.iter().any(|k| inst.sticky_pos(t, k)) { return Ok("cookie"); }
        if v.elig_pos() && !v.backup_def { return Ok("primary"); }
        let primary_def = all.iter().any(|x| x.i != v.i && x.elig_def() && !x.backup_pos);
        if v.elig_pos() && v.backup_pos && !primary_def { return Ok("backup"); }
        let anyone_def = all.iter().any(|x| x.elig_def());
        if !v.bo_def && !anyone_def { return Ok("fail_open"); }
        if v.bo_def { return Err("in_backoff"); }
        if !v.h_pos { return Err("unhealthy"); }
        if v.backup_def && primary_def { return Err("backup_while_primary_qualifies"); }
        Err("not_in_allowed_set")
    }
}

fn final_ack(o: &HttpOutcome, id: &str) -> Option<(u64, bool)> {
    o.responses.iter().find(|(_, r)| r.id == id && r.status != ResponseStatus::Processing as i32).map(|(t, r)| (*t, r.status == ResponseStatus::Ok as i32))
}

pub fn gauges_of(o: &HttpOutcome, id: &str) -> Option<BTreeMap<String, u64>> {
    let r = o.responses.iter().map(|(_, r)| r).find(|r| r.id == id && r.status == ResponseStatus::Ok as i32)?;
    let ContentType::WorkerMetrics(wm) = r.content.as_ref()?.content_type.as_ref()? else { return None };
    let mut m = BTreeMap::new();
    for (k, v) in &wm.proxy { if let Some(Inner::Gauge(g)) = v.inner { m.insert(k.clone(), g); } }
    for (cid, cm) in &wm.clusters {
        for (k, v) in &cm.cluster { if let Some(Inner::Gauge(g)) = v.inner { m.insert(format!("{cid}/{k}"), g); } }
        for b in &cm.backends { for (k, v) in &b.metrics { if let Some(Inner::Gauge(g)) = v.inner { m.insert(format!("{cid}/{}/{k}", b.backend_id), g); } } }
    }
    Some(m)
}

pub fn judge(p: &NetPlan, o: &HttpOutcome, s: &Side, verbose: bool) -> Judgement {
    let ncl = p.clusters.len();
    let nslots = p.slots.len();
    let mut m = Model { p, insts: Vec::new(), hc: vec![Vec::new(); ncl], conns: Vec::new(), reqs: Vec::new(), retry: Vec::new(), health: BTreeMap::new(), cookies: vec![BTreeSet::new(); ncl], v: Vec::new(), probes: BTreeMap::new(), log: Vec::new(), verbose, t0: s.t0, binary_probe: p.has_hc() && p.slots.iter().any(|s| s.probe_body % 3 == 2), policy: p.clusters.iter().map(|c| vec![(Span { lo: 0, hi: s.t0.saturating_sub(1) }, c.algo % 6, c.metric % 4)]).collect() };
    let mut harness: Option<String> = None;
    if let Some(pn) = &o.panicked { m.viol("panic", "worker", pn.clone()); }
    if let Some(a) = &o.aborted { harness = Some(format!("run aborted: {a}")); }
    let t0 = s.t0;

    // ---------------------------------------------------------------- command history -> instances
    let apply_add = |insts: &mut Vec<Inst>, c: usize, b: &NBackend, span: Span| -> bool {
        let slot = b.slot % nslots;
        let attr = Attr { span, backup: b.backup == 2, sticky: b.sticky.clone() };
        if let Some(i) = insts.iter_mut().find(|i| i.c == c && i.remove.is_none() && i.id == b.id && i.slot == slot) { i.attrs.push(attr); false }
        else { insts.push(Inst { c, id: b.id.clone(), slot, add: span, remove: None, attrs: vec![attr] }); true }
    };
    for (c, cl) in p.clusters.iter().enumerate() { for b in &cl.backends { apply_add(&mut m.insts, c, b, Span { lo: 0, hi: t0.saturating_sub(1) }); } }
    for (i, op) in p.ops.iter().enumerate() {
        let Some(sent) = s.cmd_sent.get(&i).copied() else { continue };
        let ack = final_ack(o, &format!("K{i}"));
        if let Some((_, false)) = ack { harness = Some(format!("command K{i} {:?} was answered FAILURE", op.kind)); }
        let span = Span { lo: sent, hi: ack.map(|a| a.0).unwrap_or(u64::MAX) };
        match &op.kind {
            NOpKind::Add { c, b } => {
                let c = c % ncl;
                let same_addr_other = m.insts.iter().any(|x| x.c == c && x.remove.is_none() && x.slot == b.slot % nslots && x.id != b.id);
                let was_removed = m.insts.iter().any(|x| x.c == c && x.remove.is_some() && x.slot == b.slot % nslots);
                if apply_add(&mut m.insts, c, b, span) { if was_removed { m.probe("cmd_readd_at_removed_address"); } if same_addr_other { m.probe("cmd_add_second_id_at_address"); } m.probe("cmd_add_backend"); } else { m.probe("cmd_update_in_place"); }
            }
            NOpKind::Remove { c, slot, .. } => {
                let (c, slot) = (c % ncl, slot % nslots);
                let mut n = 0;
                for x in m.insts.iter_mut().filter(|x| x.c == c && x.remove.is_none() && x.slot == slot) { x.remove = Some(span); n += 1; }
                m.probe(if n > 0 { "cmd_remove_effective" } else { "cmd_remove_noop" });
            }
            NOpKind::Policy { c, hc, algo, metric } => { m.policy[c % ncl].push((span, algo % 6, metric % 4)); m.hc[c % ncl].push(HcCfg { span, hc: hc.clone(), drops_in_flight: false, resets: hc.is_none() }); m.probe("cmd_policy_change"); }
            NOpKind::SetHc { c, hc } => { m.hc[c % ncl].push(HcCfg { span, hc: Some(hc.clone()), drops_in_flight: false, resets: false }); m.probe("cmd_set_health_check"); }
            NOpKind::RemoveHc { c } => { m.hc[c % ncl].push(HcCfg { span, hc: None, drops_in_flight: true, resets: false }); m.probe("cmd_remove_health_check"); }
            NOpKind::Net { .. } | NOpKind::Probe { .. } => {}
        }
    }
    m.retry = vec![Vec::new(); m.insts.len()];
    for (ci, c) in p.clients.iter().enumerate() { if let Some(k) = &c.cookie { for cl in &c.reqs { m.cookies[cl % ncl].insert(k.clone()); } let _ = ci; } }

    // ---------------------------------------------------------------- connects and what the mocks saw
    let has_hc = p.has_hc();
    let slot_of = |a: &std::net::SocketAddr| p.slots.iter().position(|s| s.addr == *a);
    let recs: Vec<BTreeMap<usize, &BackConnRecord>> = (0..nslots).map(|k| o.backends.first().and_then(|b| b.get(k)).map(|v| v.iter().map(|r| (r.idx, r)).collect()).unwrap_or_default()).collect();
    let mut est_count = vec![0usize; nslots];
    for c in &s.connects {
        let slot = slot_of(&c.dst);
        let probe = is_probe_token(c.token);
        if c.token.is_none() && has_hc && (c.answer == 2 || c.answer == 5) { harness = Some(format!("synchronous connect failure to {} in a plan with health checks: cannot tell a probe from a request", c.dst)); }
        let mut k = Conn { t: c.t, slot, answer: c.answer, done_at: c.done_at, t_close: c.t_close, probe, rec: None, reqs: vec![], answered: false, closed_unread: false, backend_t_close: 0 };
        if let (Some(sl), 1) = (slot, c.answer) {
            let idx = est_count[sl];
            est_count[sl] += 1;
            if let Some(r) = recs[sl].get(&idx) {
                k.rec = Some(idx);
                k.reqs = r.requests.iter().filter_map(|q| q.sim_id).collect();
                k.answered = r.responded.iter().any(|(_, w, tot)| *tot > 0 && w >= tot);
                k.closed_unread = r.closed_by_us && r.raw_in_total == 0;
                k.backend_t_close = r.t_close;
            }
        }
        m.conns.push(k);
    }

    // ---------------------------------------------------------------- requests
    for (ci, c) in p.clients.iter().enumerate() {
        let oc = &o.clients[ci];
        for (ri, cl) in c.reqs.iter().enumerate() {
            let id = NetPlan::req_id(ci, ri);
            let Some(t_start) = oc.rec.sent_start.iter().find(|x| x.0 == id).map(|x| x.1) else { continue };
            let t_sent = oc.rec.sent_done.iter().find(|x| x.0 == id).map(|x| x.1);
            let resp = oc.responses.get(ri);
            let conn = m.conns.iter().enumerate().find_map(|(j, k)| k.reqs.iter().position(|x| *x == id).map(|pos| (j, pos)));
            m.reqs.push(Req { ci, ri, id, c: cl % ncl, cookie: c.cookie.clone(), t_start, t_sent, status: resp.map(|r| r.status()), sim: resp.and_then(|r| r.sim_id), t_answer: resp.map(|r| r.t_start).unwrap_or(oc.rec.t_end.max(t_start)), conn });
        }
    }
    let req_of_conn = |m: &Model, j: usize| -> Option<usize> { m.conns[j].reqs.first().and_then(|id| m.reqs.iter().position(|r| r.id == *id)) };

    // ---------------------------------------------------------------- retry events (session connects)
    for j in 0..m.conns.len() {
        let k = m.conns[j].clone();
        if k.probe { continue; }
        let Some(slot) = k.slot else { continue };
        let rc = req_of_conn(&m, j).map(|r| m.reqs[r].c);
        let cands: Vec<usize> = (0..m.insts.len()).filter(|&i| m.insts[i].slot == slot && m.insts[i].mem_pos(k.t) && rc.map_or(true, |c| m.insts[i].c == c)).collect();
        let ambiguous = cands.len() > 1;
        let closed_before = |t: u64| k.t_close != 0 && k.t_close < t;
        let ev: Option<REv> = match k.answer {
            2 | 5 => Some(REv { lo: k.t, hi: k.t, kind: RKind::Fail, optional: false, conn: j }),
            3 => if closed_before(k.done_at) { None } else { Some(REv { lo: k.done_at, hi: k.done_at + EPS, kind: RKind::Fail, optional: false, conn: j }) },
            // a connect that never completes: the worker gives up after connect_timeout; documented as a connect
            // failure (doc/configure.md) but not fed to the retry policy by the code: both accepted
            4 => if k.t_close == 0 { None } else { Some(REv { lo: k.t_close.saturating_sub(EPS), hi: k.t_close + EPS, kind: RKind::Fail, optional: true, conn: j }) },
            1 => {
                // the mock closed the accepted connection at once: the worker sees either a hang-up while connecting
                // (a failure) or an established connection that ends (a success) depending on what it polls first
                let mock_early = k.rec.is_none() || (k.closed_unread && k.backend_t_close <= k.done_at + EPS);
                if mock_early && k.rec.is_some() {
                    let at = k.backend_t_close.min(k.done_at);
                    Some(REv { lo: at, hi: k.backend_t_close.max(k.done_at) + EPS, kind: RKind::Either, optional: k.t_close != 0 && k.t_close < at, conn: j })
                } else if closed_before(k.done_at) { None } else {
                    Some(REv { lo: k.done_at, hi: k.done_at + EPS, kind: if mock_early { RKind::Either } else { RKind::Success }, optional: k.t_close != 0 && k.t_close <= k.done_at + EPS, conn: j })
                }
            }
            _ => None,
        };
        if let Some(mut e) = ev {
            e.optional |= ambiguous;
            for i in cands { m.retry[i].push(e.clone()); }
        }
    }
    for r in m.retry.iter_mut() { r.sort_by_key(|e| (e.lo, e.hi)); }

    // ---------------------------------------------------------------- health events (probes + resets)
    for c in 0..ncl {
        for cfg in m.hc[c].clone() {
            if cfg.resets {
                let slots: BTreeSet<usize> = m.insts.iter().filter(|i| i.c == c).map(|i| i.slot).collect();
                for sl in slots { m.health.entry((c, sl)).or_default().push(HEv { lo: cfg.span.lo, hi: cfg.span.hi, kind: HKind::Reset, up: 1, down: 1, optional: false }); }
            }
        }
    }
    for j in 0..m.conns.len() {
        let k = m.conns[j].clone();
        if !k.probe { continue; }
        let Some(slot) = k.slot else { continue };
        // the configuration the probe was started under
        let cl: Vec<usize> = (0..ncl).filter(|&c| m.insts.iter().any(|i| i.c == c && i.slot == slot && i.mem_pos(k.t)) && m.hc[c].iter().any(|h| h.hc.is_some() && h.span.lo <= k.t)).collect();
        if cl.is_empty() { m.viol("unexpected_probe", "no_health_check_configured", format!("health-check connect to slot{slot} at {} but no cluster with that member has a health check configured", secs(k.t, t0))); continue; }
        let ambiguous_cluster = cl.len() > 1;
        for c in cl {
            let cfgs: Vec<&HcCfg> = m.hc[c].iter().filter(|h| h.span.lo <= k.t).collect();
            let mut in_force: Vec<&NHc> = Vec::new();
            for (n, h) in cfgs.iter().enumerate() {
                let superseded = cfgs.iter().skip(n + 1).any(|g| g.span.hi < k.t);
                if !superseded { if let Some(x) = &h.hc { in_force.push(x); } }
            }
            if in_force.is_empty() { continue; }
            let (up, down) = (in_force[0].up, in_force[0].down);
            let mut optional = ambiguous_cluster || in_force.iter().any(|h| h.up != up || h.down != down);
            let tmin = in_force.iter().map(|h| h.timeout).min().unwrap() as u64 * SEC;
            let tmax = in_force.iter().map(|h| h.timeout).max().unwrap() as u64 * SEC;
            let timeout_ev = (k.t + tmin, k.t + tmax + SEC + 2 * EPS);
            let (lo, hi, kind) = match k.answer {
                3 => (k.done_at, k.done_at + EPS, HKind::Fail),
                4 => (timeout_ev.0, timeout_ev.1, HKind::Fail),
                1 => match k.rec.and_then(|idx| recs[slot].get(&idx)) {
                    None => { optional = true; (k.done_at, u64::MAX, HKind::Either) }
                    Some(r) => {
                        if r.closed_by_us && r.raw_in_total == 0 { (r.t_close.min(k.done_at), r.t_close.max(k.done_at) + EPS, HKind::Fail) } // sozu learns of the close between the mock's close and the end of its own connect
                        else if let (Some(q), true) = (r.requests.first(), r.responded.first().map_or(false, |x| x.2 > 0 && x.1 >= x.2)) {
                            // which answer was the mock configured with? (flips are recorded with their virtual times)
                            let mut kind_now = p.slots[slot].probe % 3;
                            let mut flipped_during = false;
                            for (ft, fs, fk) in &s.flips { if *fs == slot { if *ft + EPS < r.t_accept { kind_now = *fk; } else if *ft <= q.t_end + EPS { flipped_during = true; } } }
                            if flipped_during { (q.t_end, q.t_end + EPS, HKind::Either) } else { (q.t_end, q.t_end + EPS, if kind_now == 0 { HKind::Ok } else { HKind::Fail }) }
                        } else { (timeout_ev.0.min(if k.t_close != 0 { k.t_close } else { u64::MAX }), timeout_ev.1, HKind::Fail) }
                    }
                },
                _ => continue,
            };
            // in-flight probes are dropped by RemoveHealthCheck
            let mut dropped = false;
            for h in m.hc[c].iter().filter(|h| h.drops_in_flight) {
                if h.span.hi < k.t || h.span.lo > hi { continue; }
                if k.t < h.span.lo && h.span.hi < lo { dropped = true; } else { optional = true; }
            }
            // a result that lands while the cluster has no health check (an AddCluster without one removed it and reset the
            // members to healthy; the probe itself stays in flight) is not recorded (fix C12-H2): dropped when the cluster
            // definitely has none over the whole interval, either way when that is uncertain
            {
                let last_before = m.hc[c].iter().filter(|h| h.span.hi < lo).last();
                let overlapping: Vec<&HcCfg> = m.hc[c].iter().filter(|h| h.span.lo <= hi && h.span.hi >= lo).collect();
                let none_before = last_before.map_or(false, |h| h.hc.is_none());
                if overlapping.is_empty() { if none_before { dropped = true; } }
                else if none_before && overlapping.iter().all(|h| h.hc.is_none()) { dropped = true; }
                else if none_before || overlapping.iter().any(|h| h.hc.is_none()) { optional = true; }
            }
            // the worker closed the probe socket before any result (cluster configuration dropped, worker stopping)
            if k.t_close != 0 && k.t_close + EPS < lo { dropped = true; }
            if dropped { m.probe("probe_dropped_in_flight"); continue; }
            m.probe(match kind { HKind::Ok => "probe_ok", HKind::Fail => if k.answer == 1 && hi - lo > SEC { "probe_timeout" } else { "probe_fail" }, _ => "probe_ambiguous" });
            m.health.entry((c, slot)).or_default().push(HEv { lo, hi, kind, up, down, optional });
        }
    }
    for e in m.health.values_mut() {
        // a probe result that lands while a reset is in flight may have been recorded before or after it
        let resets: Vec<(u64, u64)> = e.iter().filter(|x| x.kind == HKind::Reset).map(|x| (x.lo.saturating_sub(EPS), x.hi.saturating_add(EPS))).collect();
        for x in e.iter_mut() { if x.kind != HKind::Reset && resets.iter().any(|r| x.lo <= r.1 && x.hi >= r.0) { x.optional = true; } }
        e.sort_by_key(|e| (e.lo, e.hi));
    }

    if verbose {
        m.log.push(format!("t0 = {:.6} s; times below are relative to t0", t0 as f64 / 1e9));
        for i in &m.insts { m.log.push(format!("instance {} add {}..{} remove {} attrs {:?}", i.name(), secs(i.add.lo, t0), secs(i.add.hi, t0), i.remove.map(|r| format!("{}..{}", secs(r.lo, t0), secs(r.hi, t0))).unwrap_or("-".into()), i.attrs.iter().map(|a| (secs(a.span.lo, t0), a.backup, a.sticky.clone())).collect::<Vec<_>>())); }
        for (i, e) in m.retry.iter().enumerate() { if !e.is_empty() { m.log.push(format!("retry events {}: {}", m.insts[i].name(), e.iter().map(|e| format!("{:?}{}#{}@{}..{}", e.kind, if e.optional { "?" } else { "" }, e.conn, secs(e.lo, t0), secs(e.hi, t0))).collect::<Vec<_>>().join(" "))); } }
        for ((c, sl), e) in &m.health { m.log.push(format!("health events c{c} slot{sl}: {}", e.iter().map(|e| format!("{:?}{}@{}..{}", e.kind, if e.optional { "?" } else { "" }, secs(e.lo, t0), secs(e.hi, t0))).collect::<Vec<_>>().join(" "))); }
    }

    // ---------------------------------------------------------------- judge every connect made for a request
    let mut judged_with_exclusion = 0u64;
    for j in 0..m.conns.len() {
        let k = m.conns[j].clone();
        if k.probe { continue; }
        m.probe(match k.answer { 1 => if k.closed_unread { "connect_accepted_then_closed" } else { "connect_established" }, 2 => "connect_refused_sync", 3 => "connect_refused_async", 4 => "connect_blackholed", 5 => "connect_unreachable", _ => "connect_other" });
        let Some(slot) = k.slot else { m.viol("ineligible_backend_connected", "unknown_address", format!("connect at {} to an address that is no backend of any cluster", secs(k.t, t0))); continue };
        let r = req_of_conn(&m, j);
        let rc = r.map(|r| m.reqs[r].c);
        let t = k.t;
        let cands: Vec<usize> = (0..m.insts.len()).filter(|&i| m.insts[i].slot == slot && m.insts[i].mem_pos(t) && rc.map_or(true, |c| m.insts[i].c == c)).collect();
        let what = format!("connect #{j} at {} to slot{slot} ({}){}", secs(t, t0), p.slots[slot].addr, r.map(|r| format!(" for request {} of cluster c{}{}", m.reqs[r].id, m.reqs[r].c, m.reqs[r].cookie.as_ref().map(|k| format!(" cookie {k}")).unwrap_or_default())).unwrap_or_default());
        if cands.is_empty() {
            let at_slot: Vec<&Inst> = m.insts.iter().filter(|i| i.slot == slot).collect();
            let why = if let Some(c) = rc {
                if at_slot.iter().any(|i| i.c == c && i.remove.map_or(false, |r| r.hi < t)) { "removed" } else if at_slot.iter().any(|i| i.c != c) { "other_cluster" } else { "unknown_address" }
            } else if at_slot.iter().any(|i| i.remove.map_or(false, |r| r.hi < t)) { "removed" } else { "unknown_address" };
            let d = format!("{what}: no backend instance at that address can be a member then; instances there: {}", at_slot.iter().map(|i| format!("{} add {}..{} remove {}", i.name(), secs(i.add.lo, t0), secs(i.add.hi, t0), i.remove.map(|r| format!("sent {} acked {}", secs(r.lo, t0), secs(r.hi, t0))).unwrap_or("-".into()))).collect::<Vec<_>>().join("; "));
            if verbose { m.log.push(format!("{what} -> {why}")); }
            m.viol("ineligible_backend_connected", why, d);
            continue;
        }
        let mut verdict: Result<&'static str, &'static str> = Err("not_in_allowed_set");
        let mut excluded = false;
        let mut holder_of_cookie = false;
        let mut detail = String::new();
        for &i in &cands {
            let c = m.insts[i].c;
            let views = m.cluster_views(c, t, j);
            let Some(v) = views.iter().find(|v| v.i == i) else { continue };
            let cookies: BTreeSet<String> = match r { Some(r) => m.reqs[r].cookie.iter().cloned().collect(), None => m.cookies[c].clone() };
            let res = m.allowed(v, &views, &cookies, p.clusters[c].sticky, t);
            if let Some(r) = r { if let Some(k) = &m.reqs[r].cookie { if p.clusters[c].sticky && m.insts[i].sticky_pos(t, k) { holder_of_cookie = true; } } }
            // was anybody definitely outside the allowed set? (non-triviality, as in the model tier)
            let primary_def = views.iter().any(|x| x.elig_def() && !x.backup_pos);
            if views.iter().any(|x| x.bo_def || (!x.h_pos && views.iter().any(|y| y.elig_def())) || (x.backup_def && primary_def)) || m.insts.iter().any(|x| x.c == c && x.remove.map_or(false, |r| r.hi < t)) { excluded = true; }
            if verbose || res.is_err() { detail = format!("{what}: cluster state [{}]", views.iter().map(|x| m.describe(x, t)).collect::<Vec<_>>().join(", ")); }
            if verdict.is_err() { verdict = res; }
            if verdict.is_ok() { break; }
        }
        if excluded { judged_with_exclusion += 1; }
        m.probe("connects_judged");
        match verdict {
            Ok(regime) => { m.probe(&format!("connect_regime_{regime}")); if verbose { m.log.push(format!("{detail} -> ok ({regime})")); } }
            Err(why) => {
                let pol = rc.map(|c| m.policy_at(c, t)).unwrap_or_default();
                if verbose { m.log.push(format!("{detail} -> {why}")); }
                m.viol(if holder_of_cookie { "sticky_to_ineligible" } else { "ineligible_backend_connected" }, why, format!("{detail} ({pol}): destination is outside the allowed set in every admissible state: {why}"));
            }
        }
        // least_loaded on connections: the chosen primary must not certainly hold more open connections than a
        // primary that certainly qualifies (ties and everything uncertain are accepted)
        if verdict == Ok("primary") && cands.len() == 1 {
            let i = cands[0];
            let c = m.insts[i].c;
            let by_cookie_possible = p.clusters[c].sticky && match r { Some(r) => m.reqs[r].cookie.is_some(), None => !m.cookies[c].is_empty() };
            if let (Some((2, 0 | 1)), false) = (m.policy_def(c, t), by_cookie_possible) {
                let views = m.cluster_views(c, t, j);
                if !m.insts[i].backup_pos(t) {
                    m.probe("least_loaded_judged");
                    let mine = m.open_conns(i, t, j);
                    for x in views.iter().filter(|x| x.i != i && x.elig_def() && !x.backup_pos) {
                        let other = m.open_conns(x.i, t, j);
                        if mine.0 != other.1 { m.probe("least_loaded_judged_with_unequal_load"); }
                        if mine.0 > other.1 {
                            let d = format!("{what}: least_loaded (connections) chose {} which certainly has {} open connections while {} qualifies with at most {}", m.insts[i].name(), mine.0, m.insts[x.i].name(), other.1);
                            m.viol("least_loaded_not_least", "connections", d);
                        }
                    }
                }
            }
        }
        // sticky: the holder of the cookie must win whenever it qualifies
        if let Some(r) = r {
            let rq = m.reqs[r].clone();
            if let (true, Some(key)) = (p.clusters[rq.c].sticky, rq.cookie.as_ref()) {
                let holders: Vec<usize> = (0..m.insts.len()).filter(|&i| m.insts[i].c == rq.c && m.insts[i].mem_pos(t) && m.insts[i].sticky_pos(t, key)).collect();
                if holders.len() == 1 {
                    let h = holders[0];
                    let hv = m.view(h, t, j);
                    if hv.elig_def() && m.insts[h].sticky_def(t, key) {
                        m.probe("sticky_holder_qualifies");
                        if !cands.contains(&h) {
                            let d = format!("{what}: the holder {} definitely qualifies ({}) but the connection went elsewhere", m.insts[h].name(), m.describe(&hv, t));
                            m.viol("sticky_ignored", "single_holder", d);
                        }
                    } else { m.probe(if hv.elig_pos() { "sticky_holder_maybe_qualifies" } else { "sticky_holder_does_not_qualify" }); }
                } else { m.probe(if holders.is_empty() { "sticky_no_holder" } else { "sticky_ambiguous_holder" }); }
            }
        }
    }

    // reach probes about the histories themselves
    for i in 0..m.insts.len() {
        if let Some(rm) = m.insts[i].remove {
            let sl = m.insts[i].slot;
            if m.conns.iter().any(|k| !k.probe && k.slot == Some(sl) && k.answer == 1 && k.t < rm.lo && (k.t_close == 0 || k.t_close > rm.hi)) { m.probe("removed_with_open_connections"); }
            let st = retry_states(&m.retry[i], rm.lo, usize::MAX);
            if bo_pos(&st, rm.lo) { m.probe("removed_while_possibly_in_backoff"); }
            if bo_def(&st, rm.lo) { m.probe("removed_while_in_backoff"); }
        }
        let fails = m.retry[i].iter().filter(|e| e.kind == RKind::Fail && !e.optional).count();
        if fails >= 2 { m.probe("instance_with_several_backoff_windows"); }
        if fails >= 3 { m.probe("instance_with_uncertain_backoff_length"); }
    }

    // ---------------------------------------------------------------- every request is answered
    for ri in 0..m.reqs.len() {
        let rq = m.reqs[ri].clone();
        let oc = &o.clients[rq.ci];
        let Some(status) = rq.status else {
            if rq.t_sent.is_some() && oc.rec.gave_up { m.viol("unanswered", "client_gave_up", format!("request {} (cluster c{}) sent at {} got no answer in 120 s", rq.id, rq.c, secs(rq.t_start, t0))); }
            else if rq.t_sent.is_some() { m.probe("request_without_answer_connection_closed"); }
            continue;
        };
        m.probe(&format!("answer_{status}"));
        // connect attempts of that cluster that went wrong while the request was pending
        let faults: Vec<usize> = (0..m.conns.len()).filter(|&j| { let k = &m.conns[j]; !k.probe && k.failed() && k.t + EPS >= rq.t_start && k.t <= rq.t_answer && k.slot.map_or(false, |sl| m.insts.iter().any(|i| i.c == rq.c && i.slot == sl && i.mem_pos(k.t))) }).collect();
        match status {
            200 if rq.sim == Some(rq.id) => {
                match rq.conn {
                    Some((j, pos)) => {
                        if pos > 0 {
                            m.probe("request_on_reused_backend_connection");
                            let first = m.conns[j].reqs[0];
                            if let Some(f) = m.reqs.iter().find(|x| x.id == first) { if f.c != rq.c { m.viol("ineligible_backend_connected", "other_cluster_reuse", format!("request {} of cluster c{} was sent on the kept-alive connection #{j} opened for cluster c{}", rq.id, rq.c, f.c)); } }
                        }
                    }
                    None => { harness.get_or_insert(format!("request {} answered 200 with its id but no mock backend recorded it", rq.id)); }
                }
            }
            503 => {
                if !faults.is_empty() { m.probe("answer_503_after_failed_connect"); continue; }
                // legitimate only if at some moment of the request's window nobody could be selected
                let mut times: BTreeSet<u64> = [rq.t_start, rq.t_answer].into_iter().collect();
                for i in 0..m.insts.len() {
                    if m.insts[i].c != rq.c { continue; }
                    let inst = &m.insts[i];
                    for t in [inst.add.lo, inst.add.hi, inst.remove.map_or(0, |r| r.lo), inst.remove.map_or(0, |r| r.hi)] { times.insert(t); times.insert(t.saturating_add(1)); }
                    for e in &m.retry[i] { times.insert(e.lo); times.insert(e.hi.saturating_add(1)); }
                }
                let mut empty_possible = false;
                let mut last_state = String::new();
                for t in times.into_iter().filter(|t| *t >= rq.t_start && *t <= rq.t_answer) {
                    let views = m.cluster_views(rq.c, t, usize::MAX);
                    if !views.iter().any(|v| v.mem_def && !v.bo_pos) { empty_possible = true; break; }
                    last_state = views.iter().map(|x| m.describe(x, t)).collect::<Vec<_>>().join(", ");
                }
                if empty_possible { m.probe("answer_503_allowed_set_possibly_empty"); } else {
                    let views = m.cluster_views(rq.c, rq.t_start, usize::MAX);
                    let regime = if views.iter().any(|v| v.elig_def() && !v.backup_pos) { "primary" } else if views.iter().any(|v| v.elig_def()) { "backup" } else { "fail_open" };
                    m.viol("no_backend_despite_eligible", regime, format!("request {} (cluster c{}, {}) sent at {} was answered 503 at {} without any failed connect attempt although members were selectable during the whole window: [{last_state}]", rq.id, rq.c, m.policy_at(rq.c, rq.t_start), secs(rq.t_start, t0), secs(rq.t_answer, t0)));
                }
            }
            502 | 504 => {
                if !faults.is_empty() { m.probe("answer_5xx_after_backend_fault"); } else {
                    // a kept-alive backend connection that the mock closed meanwhile is a fault too
                    m.viol("unexpected_answer", &status.to_string(), format!("request {} (cluster c{}) sent at {} was answered {status} at {} although no connect attempt of its cluster failed in that window", rq.id, rq.c, secs(rq.t_start, t0), secs(rq.t_answer, t0)));
                }
            }
            other => { m.viol("unexpected_answer", &other.to_string(), format!("request {} (cluster c{}) was answered {other} (x-sim-id {:?})", rq.id, rq.c, rq.sim)); }
        }
    }

    // ---------------------------------------------------------------- counters after quiescence
    match gauges_of(o, "Q1") {
        Some(g) => {
            for (k, v) in &g {
                let name = k.rsplit('/').next().unwrap_or(k);
                if !["connections_per_backend", "backend.connections", "http.active_requests", "backend.pool.size"].contains(&name) { continue; }
                m.probe("gauges_checked");
                if *v > (1u64 << 31) { m.viol("counter_negative", name, format!("gauge {k} = {v} after quiescence")); }
                else if *v != 0 { m.viol("counter_not_zero", name, format!("gauge {k} = {v} after all clients finished and {} s passed ({} backend sockets of sessions still open in the simulator)", p.settle_s, s.open_backend_sockets_at_quiescence)); }
            }
        }
        None => { if harness.is_none() && o.panicked.is_none() { harness = Some("QueryMetrics after quiescence returned no worker metrics".into()); } }
    }
    if s.open_backend_sockets_at_quiescence > 0 { m.probe("backend_sockets_open_at_quiescence"); }

    if verbose {
        for rq in &m.reqs { m.log.push(format!("request {} c{} cookie {:?} sent {} answer {:?} (sim {:?}) at {} via {:?}", rq.id, rq.c, rq.cookie, secs(rq.t_start, t0), rq.status, rq.sim, secs(rq.t_answer, t0), rq.conn)); }
        for (j, k) in m.conns.iter().enumerate() { if k.probe { m.log.push(format!("probe connect #{j} at {} slot {:?} answer {} done {} closed {}", secs(k.t, t0), k.slot, k.answer, secs(k.done_at, t0), secs(k.t_close, t0))); } }
    }
    let nontrivial = judged_with_exclusion > 0;
    m.probes.insert("connects_judged_with_a_member_excluded".into(), judged_with_exclusion);
    Judgement { violations: m.v, probes: m.probes, nontrivial, log: m.log, harness }
}
