//! C15 netsim plan generators (pure functions of the seed).
use std::collections::BTreeMap;

use super::c15_model::*;
use super::c15_net::*;
use crate::actors::h1::*;
use crate::actors::h2::*;
use crate::actors::h2codec::{ecode, flag, ftype, type_name, FrameHeader};
use crate::actors::tls::TlsPlan;
use crate::actors::Pace;
use crate::framework::Tier;
use crate::muxscn::*;
use crate::netsim::{self, Knobs};
use crate::prng::Prng;
use crate::scenario::{boundary_size, BackendMode};
use crate::world::{MS, SEC};

fn knobs(rng: &mut Prng) -> Knobs {
    let mut k = Knobs::default();
    k.buffer_size = *rng.pick(&[16393u64, 16393, 16393, 32768, 65536]);
    k.front_timeout = 8;
    k.back_timeout = 8;
    k.connect_timeout = 2;
    k.request_timeout = 6;
    k
}

fn h2knobs(rng: &mut Prng) -> H2Knobs {
    let mut h = H2Knobs::default();
    h.header_list = *rng.pick(&[65536u32, 65536, 4096, 2048]);
    h
}

/// Lower the one documented threshold the plan's flood is aimed at (the listener's knobs are shared
/// with the well-behaved connections, which must stay far below every threshold).
fn aim_knobs(rng: &mut Prng, h: &mut H2Knobs, which: u64) {
    if rng.below(2) == 0 { return; }
    match which {
        0 => h.ping_window = 10,
        1 => h.settings_window = 6,
        2 => h.empty_data_window = 10,
        3 => h.wu0_window = 10,
        4 => h.glitch = 10,
        5 => h.continuation = *rng.pick(&[3u32, 5]),
        _ => { h.rst_window = 10; h.abusive_rst = 5; }
    }
}

/// stream id the next `Fresh` reference resolves to
fn next_id(setup: &Setup, phase: Phase) -> u32 {
    let used = match setup { Setup::None => 0, Setup::Open { siblings } | Setup::HalfClosed { siblings } => siblings + 1, Setup::Closed => 1 };
    1 + 2 * (used + if phase == Phase::InHeaderBlock { 1 } else { 0 })
}
fn id_of(cls: StreamClass, setup: &Setup, phase: Phase, even_high: bool) -> u32 {
    match cls {
        StreamClass::Zero => 0,
        StreamClass::Open | StreamClass::HalfClosedRemote | StreamClass::Closed => next_id(setup, phase) - 2,
        StreamClass::Idle => next_id(setup, phase) + 6,
        StreamClass::Even => if even_high { 1000 } else { 2 },
        StreamClass::Fresh => next_id(setup, phase),
    }
}

fn cls_name(c: StreamClass) -> &'static str {
    match c { StreamClass::Zero => "conn", StreamClass::Open => "open", StreamClass::HalfClosedRemote => "half_closed_remote", StreamClass::Closed => "closed", StreamClass::Idle => "idle", StreamClass::Even => "even", StreamClass::Fresh => "fresh" }
}
fn phase_name(p: Phase) -> &'static str {
    match p { Phase::NoPreface => "no_preface", Phase::NoSettings => "no_settings", Phase::Established => "est", Phase::InHeaderBlock => "in_header_block", Phase::AfterClientGoAway => "after_client_goaway" }
}

/// One frame with boundary-value payload. Returns (kind, feature suffix, followup allowed).
fn gen_frame(rng: &mut Prng, phase: Phase, setup: &Setup) -> (Kind, String, bool) {
    let types: &[u8] = &[0, 1, 2, 3, 4, 5, 6, 7, 8, 9, 0x10, 0x0b, 0x42, 0xff];
    let ty = *rng.pick(types);
    let target = match setup { Setup::Open { .. } => Some(StreamClass::Open), Setup::HalfClosed { .. } => Some(StreamClass::HalfClosedRemote), Setup::Closed => Some(StreamClass::Closed), Setup::None => if phase == Phase::InHeaderBlock { Some(StreamClass::Open) } else { None } };
    let zero_types = matches!(ty, 4 | 6 | 7 | 0x10);
    let mut cls = match (target, rng.below(10)) {
        (_, 0) => StreamClass::Zero,
        (_, 1) => StreamClass::Idle,
        (_, 2) => StreamClass::Even,
        (Some(t), 3..=7) if !zero_types => t,
        _ => if zero_types { StreamClass::Zero } else if ty == ftype::HEADERS { StreamClass::Fresh } else { target.unwrap_or(StreamClass::Idle) },
    };
    if ty == ftype::HEADERS && cls == StreamClass::Idle { cls = StreamClass::Fresh; }
    if ty == ftype::WINDOW_UPDATE && rng.below(3) == 0 { cls = StreamClass::Zero; }
    let even_high = cls == StreamClass::Even && rng.below(2) == 0;
    let own = id_of(cls, setup, phase, even_high);
    let mut flags: u8 = 0;
    let mut repeat = 1;
    let mut follow = true;
    let (tag, payload): (Tag, Vec<u8>) = match ty {
        ftype::DATA => match rng.below(7) {
            0 => (Tag::Plain, vec![7u8; 10]),
            1 => { flags |= flag::END_STREAM; (Tag::Plain, vec![7u8; 10]) }
            2 => { flags |= flag::PADDED; (Tag::PadOk, vec![3, 1, 2, 3, 4, 0, 0, 0]) }
            3 => { flags |= flag::PADDED; let l = *rng.pick(&[1usize, 2, 8, 100]); let mut p = vec![0u8; l]; p[0] = *rng.pick(&[l as u8, 255]); (Tag::PadTooLong, p) }
            4 => { flags |= flag::PADDED; (Tag::BadLength, vec![]) }
            5 => (Tag::Oversize, vec![0u8; 16385]),
            _ => { flags |= flag::PADDED; (Tag::PadOk, vec![0]) }
        },
        ftype::HEADERS => {
            let on_new = matches!(cls, StreamClass::Fresh);
            match rng.below(10) {
                0 | 1 => { flags |= flag::END_HEADERS | flag::END_STREAM; (Tag::ValidRequest, req_block(ID_ABUSE, "/abuse/0")) }
                2 => { flags |= flag::END_HEADERS; if on_new { follow = true; } (Tag::ValidRequest, req_block(ID_ABUSE, "/abuse/1")) }
                3 => { flags |= flag::END_STREAM; follow = false; (Tag::ValidRequest, req_block(ID_ABUSE, "/abuse/2")) }
                4 => { flags |= flag::END_HEADERS | flag::END_STREAM; (Tag::BadHpack, bad_hpack(rng.below(4) as u32)) }
                5 => { flags |= flag::END_HEADERS | flag::END_STREAM; (Tag::MalformedRequest, static_block(&malformed_fields(rng.below(8) as u32, ID_ABUSE))) }
                6 => { flags |= flag::END_HEADERS | flag::END_STREAM | flag::PADDED; (Tag::PadTooLong, vec![255, 1, 2, 3]) }
                7 => { flags |= flag::END_HEADERS | flag::END_STREAM | flag::PRIORITY; (Tag::BadLength, vec![0, 0, 0]) }
                8 => {
                    flags |= flag::END_HEADERS | flag::END_STREAM | flag::PRIORITY;
                    let mut p = own.to_be_bytes().to_vec(); p.push(15); p.extend_from_slice(&req_block(ID_ABUSE, "/abuse/3"));
                    (Tag::SelfDependency, p)
                }
                _ => { flags |= flag::END_HEADERS; (Tag::Plain, static_block(&[("x-t".to_string(), "v".to_string())])) }
            }
        }
        ftype::PRIORITY => match rng.below(4) {
            0 => (Tag::BadLength, vec![0u8; *rng.pick(&[0usize, 4, 6])]),
            1 => { let mut p = own.to_be_bytes().to_vec(); p.push(1); (Tag::SelfDependency, p) }
            _ => (Tag::Plain, vec![0, 0, 0, 0, 16]),
        },
        ftype::RST_STREAM => match rng.below(4) {
            0 => (Tag::BadLength, vec![0u8; *rng.pick(&[0usize, 3, 5])]),
            1 => (Tag::Plain, 0xdead_beefu32.to_be_bytes().to_vec()),
            _ => (Tag::Plain, ecode::CANCEL.to_be_bytes().to_vec()),
        },
        ftype::SETTINGS => {
            let enc = |v: &[(u16, u32)]| -> Vec<u8> { let mut p = Vec::new(); for (i, x) in v { p.extend_from_slice(&i.to_be_bytes()); p.extend_from_slice(&x.to_be_bytes()); } p };
            match rng.below(11) {
                0 => (Tag::Plain, vec![]),
                1 => (Tag::Plain, enc(&[(4, 70_000), (3, 10)])),
                2 => (Tag::SettingsUnknownId, enc(&[(0xf0f0, 1)])),
                3 => (Tag::SettingsBadValue, enc(&[*rng.pick(&[(2u16, 2u32), (5, 16383), (5, 1 << 24)])])),
                4 => (Tag::SettingsWindowTooLarge, enc(&[(4, 0x8000_0000)])),
                5 => (Tag::SettingsManyEntries, enc(&vec![(3u16, 100u32); 65])),
                6 => (Tag::BadLength, vec![0u8; *rng.pick(&[1usize, 5, 7])]),
                7 => { flags |= flag::ACK; (Tag::Plain, vec![]) }
                8 => { flags |= flag::ACK; (Tag::BadLength, enc(&[(3, 10)])) }
                9 => (Tag::Plain, enc(&[(1, 0), (4, 0x7fff_ffff)])),
                _ => (Tag::Plain, enc(&[(5, 16384), (6, 100), (2, 0)])),
            }
        }
        ftype::PUSH_PROMISE => { flags |= flag::END_HEADERS; let mut p = 2u32.to_be_bytes().to_vec(); p.extend_from_slice(&req_block(ID_ABUSE, "/pushed")); (Tag::Plain, p) }
        ftype::PING => match rng.below(4) {
            0 => (Tag::BadLength, vec![0u8; *rng.pick(&[0usize, 7, 9])]),
            1 => { flags |= flag::ACK; (Tag::Plain, vec![9u8; 8]) }
            _ => (Tag::Plain, vec![5u8; 8]),
        },
        ftype::GOAWAY => {
            follow = false;
            match rng.below(4) {
                0 => (Tag::BadLength, vec![0u8; *rng.pick(&[0usize, 4, 7])]),
                1 => { let mut p = vec![0u8; 8]; p[7] = 2; p.extend_from_slice(b"debug data here"); (Tag::GoAwayError, p) }
                _ => (Tag::GoAwayNoError, vec![0u8; 8]),
            }
        }
        ftype::WINDOW_UPDATE => match rng.below(6) {
            0 => (Tag::BadLength, vec![0u8; *rng.pick(&[0usize, 3, 5])]),
            1 => (Tag::ZeroIncrement, vec![0, 0, 0, 0]),
            2 => (Tag::ZeroIncrement, vec![0x80, 0, 0, 0]),
            3 => { repeat = 2; (Tag::Overflow, vec![0x7f, 0xff, 0xff, 0xff]) }
            _ => (Tag::Plain, 1000u32.to_be_bytes().to_vec()),
        },
        ftype::CONTINUATION => { flags |= if rng.below(2) == 0 { flag::END_HEADERS } else { 0 }; (Tag::Plain, if rng.below(2) == 0 { vec![] } else { req_block(ID_ABUSE, "/cont") }) }
        0x10 => { let mut p = 1u32.to_be_bytes().to_vec(); p.extend_from_slice(b"u=3"); (Tag::Plain, p) }
        _ => match rng.below(4) { 0 => (Tag::Oversize, vec![0u8; 16385]), 1 => (Tag::Plain, vec![]), _ => (Tag::Plain, vec![1u8; 10]) },
    };
    // undefined flag bits must be ignored (§4.1)
    let junk = rng.below(4) == 0;
    if junk { flags |= *rng.pick(&[0x02u8, 0x10, 0x40, 0x80]); }
    if phase == Phase::InHeaderBlock || phase == Phase::AfterClientGoAway { follow = false; }
    let tname = if ty <= 9 { type_name(ty).to_string() } else { format!("type{ty:#x}") };
    let feat = format!("frame/{}/{}/{:?}{}{}", tname, cls_name(cls), tag, if junk { "+undefined_flag" } else { "" }, if even_high { "/hi" } else { "" });
    (Kind::Frame { ty, flags, cls, tag, payload, repeat }, feat, follow)
}

fn flood_count(rng: &mut Prng, t: u32) -> (u32, &'static str) {
    match rng.below(3) {
        0 => (*rng.pick(&[(t / 4).max(1), t / 2]), "below"),
        1 => (*rng.pick(&[t, t + 1, 2 * t]), "around"),
        _ => (*rng.pick(&[3 * t + 3, 4 * t]), "above"),
    }
}

pub fn gen_abuse(rng: &mut Prng, h2: &mut H2Knobs, tier: Tier) -> ClientAbuse {
    let mut ca = ClientAbuse { phase: Phase::Established, setup: Setup::None, settled: rng.below(2) == 0, kind: Kind::Silent, rate: Rate::all_at_once(), followup: false, feature: String::new(), drain: false };
    let pick_setup = |rng: &mut Prng| match rng.below(6) { 0 | 1 => Setup::None, 2 => Setup::Open { siblings: rng.below(3) as u32 }, 3 => Setup::HalfClosed { siblings: rng.below(3) as u32 }, 4 => Setup::Closed, _ => Setup::Open { siblings: 0 } };
    match rng.below(20) {
        // ---------------- before the preface
        0 => {
            ca.phase = Phase::NoPreface;
            match rng.below(5) {
                0 => { ca.kind = Kind::Silent; ca.feature = "silent".into(); }
                1 => { let len = *rng.pick(&[1u32, 9, 23, 24, 25, 100, 5000]); ca.kind = Kind::Garbage { len, seed: rng.next_u64() }; ca.feature = format!("garbage/{}", if len < 24 { "short" } else { "long" }); }
                2 => { ca.kind = Kind::Http1; ca.feature = "http1_text".into(); }
                3 => { let n = *rng.pick(&[1usize, 10, 23]); ca.kind = Kind::RBit { what: "partial_preface".into(), bytes: crate::actors::h2codec::PREFACE[..n].to_vec() }; ca.feature = "partial_preface".into(); }
                _ => { let (k, f, _) = gen_frame(rng, Phase::NoPreface, &Setup::None); ca.kind = k; ca.feature = f; }
            }
        }
        // ---------------- where the first SETTINGS must stand
        1 => {
            ca.phase = Phase::NoSettings;
            match rng.below(4) {
                0 => { ca.kind = Kind::Silent; ca.feature = "silent".into(); }
                1 => { ca.kind = Kind::Garbage { len: *rng.pick(&[5u32, 9, 40, 3000]), seed: rng.next_u64() }; ca.feature = "garbage".into(); }
                _ => { let (k, f, fo) = gen_frame(rng, Phase::NoSettings, &Setup::None); ca.followup = fo && matches!(&k, Kind::Frame { ty: 4, cls: StreamClass::Zero, tag: Tag::Plain | Tag::SettingsUnknownId, flags, .. } if flags & flag::ACK == 0); ca.kind = k; ca.feature = f; }
            }
        }
        // ---------------- single frames in every state
        2..=9 => {
            ca.phase = match rng.below(8) { 0 => Phase::InHeaderBlock, 1 => Phase::AfterClientGoAway, _ => Phase::Established };
            ca.setup = if ca.phase == Phase::InHeaderBlock { Setup::None } else { pick_setup(rng) };
            let (k, f, fo) = gen_frame(rng, ca.phase, &ca.setup);
            ca.kind = k; ca.feature = f; ca.followup = fo && rng.below(5) != 0;
        }
        // ---------------- framing faults
        10 => {
            ca.setup = pick_setup(rng);
            match rng.below(4) {
                0 => { ca.kind = Kind::Garbage { len: *rng.pick(&[1u32, 9, 50, 20000]), seed: rng.next_u64() }; ca.feature = "garbage".into(); }
                1 => { ca.kind = Kind::Http1; ca.feature = "http1_text".into(); }
                2 => { let ty = *rng.pick(&[0u8, 1, 4, 6, 0x42]); ca.kind = Kind::PartialFrame { ty, declared: *rng.pick(&[8u32, 100, 16384]), sent: rng.below(8) as u32 }; ca.feature = format!("partial_frame/{}", type_name(ty)); }
                _ => {
                    let (k, f, _) = gen_frame(rng, Phase::Established, &ca.setup);
                    if let Kind::Frame { ty, flags, cls, payload, .. } = k {
                        let l = payload.len() as u32;
                        let declared = *rng.pick(&[l + 1, l + 9, l.saturating_sub(1), 0, 0xff_ffff]);
                        ca.kind = Kind::LenMismatch { ty, flags, cls, declared, payload };
                        ca.feature = format!("len_mismatch/{}", f.split('/').nth(1).unwrap_or(""));
                    }
                }
            }
        }
        // ---------------- reserved bit
        11 => {
            let (what, ty, payload): (&str, u8, Vec<u8>) = match rng.below(3) { 0 => ("ping", 6, vec![1u8; 8]), 1 => ("settings", 4, vec![]), _ => ("window_update", 8, 100u32.to_be_bytes().to_vec()) };
            let mut b = FrameHeader { len: payload.len() as u32, ty, flags: 0, r: true, stream: 0 }.encode().to_vec();
            b.extend_from_slice(&payload);
            ca.kind = Kind::RBit { what: what.into(), bytes: b };
            ca.feature = format!("reserved_bit/{what}");
            ca.followup = true;
        }
        // ---------------- floods against the documented thresholds
        12..=17 => {
            let burst_rate = |rng: &mut Prng, count: u32| -> Rate { if rng.below(2) == 0 { Rate::all_at_once() } else { let b = (count / 4).max(1); Rate { burst: b, gap_ns: rng.below(40 * MS) / (count / b + 1) as u64 + 1 } } };
            let which = rng.below(8);
            aim_knobs(rng, h2, which.min(6));
            match which {
                0 => { let (c, z) = flood_count(rng, h2.ping_window); ca.kind = Kind::PingFlood { count: c, ack: false }; ca.rate = burst_rate(rng, c); ca.feature = format!("flood/ping/{z}"); }
                1 => { let (c, z) = flood_count(rng, h2.settings_window); let params = match rng.below(3) { 0 => vec![], 1 => vec![(4u16, 65535u32)], _ => vec![(3, 50)] }; ca.kind = Kind::SettingsFlood { count: c, params }; ca.rate = burst_rate(rng, c); ca.feature = format!("flood/settings/{z}"); }
                2 => { let (c, z) = flood_count(rng, h2.empty_data_window); ca.kind = Kind::EmptyData { count: c, pad: if rng.below(3) == 0 { Some(0) } else { None } }; ca.rate = burst_rate(rng, c); ca.feature = format!("flood/empty_data/{z}"); }
                3 => { let (c, z) = flood_count(rng, h2.wu0_window); ca.kind = Kind::Wu0Flood { count: c }; ca.feature = format!("flood/window_update_conn/{z}"); }
                4 => { let (c, z) = flood_count(rng, h2.glitch); ca.setup = Setup::Closed; ca.kind = Kind::GlitchFlood { count: c }; ca.feature = format!("flood/window_update_closed_stream/{z}"); }
                5 => {
                    let t = h2.continuation;
                    let c = *rng.pick(&[1u32, t - 1, t, t + 1, t + 2, 3 * t]);
                    let finish = rng.below(4) != 0;
                    // (own PRNG stream: the plans drawn before this variant existed stay what they were)
                    let prelude = if c <= t && finish && Prng::derive(((c as u64) << 40) ^ ((h2.rst_window as u64) << 24) ^ ((h2.settings_window as u64) << 12) ^ (h2.glitch as u64 * 31 + h2.header_list as u64 + h2.max_streams as u64 * 7), "c15/cont_prelude").below(2) == 0 { t } else { 0 };
                    ca.kind = Kind::ContFlood { count: c, frag_len: *rng.pick(&[0u32, 0, 20, 200]), finish, prelude };
                    ca.rate = burst_rate(rng, c);
                    ca.feature = format!("flood/continuation/{}{}{}", if c > t { "above" } else if c == t { "at" } else { "below" }, if finish { "" } else { "/unfinished" }, if prelude > 0 { "/after_stream_error_block" } else { "" });
                }
                _ => {
                    let cap = h2.abusive_rst.min(h2.rst_window / 2);
                    let c = *rng.pick(&[1u32, cap / 2 + 1, cap, h2.abusive_rst + 1, h2.abusive_rst * 2, 3 * h2.rst_window + 3]);
                    ca.kind = Kind::RapidReset { count: c, end_stream: rng.below(2) == 0 };
                    ca.rate = burst_rate(rng, c);
                    ca.feature = format!("flood/rapid_reset/{}", if c <= cap { "below" } else if c > h2.abusive_rst { "above" } else { "around" });
                }
            }
            if !matches!(ca.kind, Kind::GlitchFlood { .. }) && rng.below(3) == 0 { ca.setup = Setup::HalfClosed { siblings: 1 }; }
            ca.followup = !matches!(ca.kind, Kind::ContFlood { finish: false, .. });
        }
        // ---------------- advertised limits
        18 => {
            let limit = h2.header_list;
            let (fields, field_len) = match rng.below(5) {
                0 => (4u32, limit / 8),                       // well below
                1 => (8, limit / 8),                          // just above (8 x (limit/8 + name + 32) > limit)
                2 => (2, limit),                              // far above, few fields
                3 => (*rng.pick(&[90u32, 200]), 10),          // many small fields
                _ => (3, *rng.pick(&[5000u32, 14000, 20000])),
            };
            let size = header_list_size(&oversized_fields(fields, field_len));
            ca.kind = Kind::Oversized { fields, field_len };
            ca.feature = format!("header_list/{}", if size > limit as u64 { "above_advertised" } else { "within_advertised" });
            ca.followup = true;
        }
        _ => {
            let extra = *rng.pick(&[1u32, 2, 5]);
            let hpack_probe = rng.below(2) == 0;
            let with_body = !hpack_probe && rng.below(2) == 0;
            // (own PRNG stream: the plans drawn before this variant existed stay what they were)
            let window_probe = with_body && Prng::derive(((extra as u64) << 40) ^ ((h2.rst_window as u64) << 24) ^ ((h2.settings_window as u64) << 12) ^ (h2.glitch as u64 * 31 + h2.header_list as u64 + h2.continuation as u64 * 7), "c15/window_probe").below(2) == 0;
            ca.kind = Kind::TooManyStreams { extra, hpack_probe, with_body, window_probe };
            ca.feature = format!("max_concurrent_streams/exceeded{}{}{}", if hpack_probe { "/hpack_reference_to_refused_block" } else { "" }, if with_body { "/with_body" } else { "" }, if window_probe { "/then_upload" } else { "" });
            ca.followup = false;
        }
    }
    // thorough tier, one plan in three hundred (sozu polls its sessions without pause while draining, which is costly in wall time):
    // the same abuse while sozu drains the connection after a soft stop
    if ca.phase == Phase::Established && !matches!(ca.kind, Kind::TooManyStreams { .. } | Kind::Silent) && tier == Tier::Thorough && rng.below(300) == 0 {
        ca.drain = true;
        ca.rate = Rate::all_at_once();
        ca.followup = false;
        if ca.setup == Setup::None || ca.setup == Setup::Closed { ca.setup = Setup::Open { siblings: 1 }; if let Kind::Frame { cls, .. } = &mut ca.kind { if *cls == StreamClass::Closed { *cls = StreamClass::Open; } } if matches!(ca.kind, Kind::GlitchFlood { .. }) { ca.drain = false; ca.setup = Setup::Closed; } }
    }
    ca.feature = format!("{}/{}", phase_name(ca.phase), ca.feature);
    if ca.drain { ca.feature += "@draining"; }
    match &ca.setup { Setup::None => {} Setup::Open { .. } => ca.feature += "@open_streams", Setup::HalfClosed { .. } => ca.feature += "@half_closed", Setup::Closed => ca.feature += "@after_closed" }
    ca
}

pub fn h1_backend(name: &str, addr: &str, responses: BTreeMap<u64, RespSpec>, default: RespSpec, pace: Pace) -> MuxBackend {
    MuxBackend::H1(BackendPlan { name: name.into(), addr: addr.parse().unwrap(), pace, responses, default, close_on_accept: vec![], listen_from_ns: 0, listen_until_ns: 0 })
}

/// well-behaved bystanders (to cluster c1) and the probe; returns (h1 clients, h2 clients, b1 responses)
fn bystanders(rng: &mut Prng, tier: Tier, buffer_size: usize, window_ns: u64) -> (Vec<ClientPlan>, Vec<H2ClientPlan>, BTreeMap<u64, RespSpec>) {
    let max_body = match tier { Tier::Quick => 60_000, Tier::Thorough => 300_000 };
    let http_front = "10.0.0.1:80".parse().unwrap();
    let https_front = "10.0.0.1:443".parse().unwrap();
    let mut resp = BTreeMap::new();
    let mut h1 = Vec::new();
    let mut h2 = Vec::new();
    let which = rng.below(3); // 0: h2 only, 1: h1 only, 2: both
    if which != 1 {
        let n = 1 + rng.below(3);
        let mut reqs = Vec::new();
        let mut hint = 0;
        for i in 0..n {
            let id = ID_GOOD2 + i;
            let req_len = if rng.below(2) == 0 { 0 } else { boundary_size(rng, buffer_size, max_body) };
            let resp_len = boundary_size(rng, buffer_size, max_body);
            hint += req_len + resp_len + 500;
            let mut r = if req_len > 0 { H2ReqSpec::post(id, HOST_G, &format!("/g/{id}"), req_len) } else { H2ReqSpec::get(id, HOST_G, &format!("/g/{id}")) };
            r.delay_ns = if i == 0 { 0 } else { rng.below(window_ns + 1) };
            reqs.push(r);
            resp.insert(id, RespSpec::ok(BodySpec::Cl(resp_len)));
        }
        let mut c = H2ClientPlan::simple("good2", "192.0.2.8:40002".parse().unwrap(), https_front, Some(TlsPlan::h2(HOST_G)), reqs);
        c.pace = Pace::random_budget(rng, hint, 300_000_000);
        c.conn.settings = SettingsSpec { enable_push: Some(0), ..Default::default() };
        // one connection-level WINDOW_UPDATE up front, none later; per-stream updates in large steps
        c.conn.conn_window_bonus = 4_000_000;
        // (no idle fallback either: it would grant connection credit after every pause of a slow transfer)
        c.conn.wu = WuPolicy { stream: WuMode::Threshold(30_000), conn: WuMode::WhenExhausted, fallback_ns: 0 };
        c.max_concurrent = *rng.pick(&[1u32, 3]);
        c.give_up_ns = 40 * SEC;
        c.start_ns = rng.below(3 * MS);
        h2.push(c);
    }
    if which != 0 {
        let n = 1 + rng.below(2);
        let mut reqs = Vec::new();
        let mut hint = 0;
        for i in 0..n {
            let id = ID_GOOD1 + i;
            let req_len = if rng.below(2) == 0 { 0 } else { boundary_size(rng, buffer_size, max_body) };
            let resp_len = boundary_size(rng, buffer_size, max_body);
            hint += req_len + resp_len + 500;
            let mut r = ReqSpec::get(id, HOST_G, &format!("/g/{id}"));
            if req_len > 0 { r.method = "POST".into(); r.body = BodySpec::Cl(req_len); } else { r.headers.push(("Content-Length".into(), "0".into())); }
            reqs.push(r);
            resp.insert(id, RespSpec::ok(BodySpec::Cl(resp_len)));
        }
        h1.push(ClientPlan { name: "good1".into(), src: "192.0.2.9:40003".parse().unwrap(), dst: http_front, start_ns: rng.below(3 * MS), pace: Pace::random_budget(rng, hint, 300_000_000), pipeline: false, requests: reqs, abort: None, sndbuf: None, think_ns: rng.below(window_ns + 1), linger_ns: 0, give_up_ns: 40 * SEC, wait_board: None });
    }
    // the probe: a fresh well-behaved connection after the abuse is over
    resp.insert(ID_PROBE, RespSpec::ok(BodySpec::Cl(1234)));
    if rng.below(3) == 0 {
        let mut r = ReqSpec::get(ID_PROBE, HOST_G, "/probe");
        r.headers.push(("Content-Length".into(), "0".into()));
        h1.push(ClientPlan { name: "probe".into(), src: "192.0.2.200:50000".parse().unwrap(), dst: http_front, start_ns: PROBE_AT, pace: Pace::greedy(), pipeline: false, requests: vec![r], abort: None, sndbuf: None, think_ns: 0, linger_ns: 0, give_up_ns: 30 * SEC, wait_board: None });
    } else {
        let mut c = H2ClientPlan::simple("probe", "192.0.2.200:50000".parse().unwrap(), https_front, Some(TlsPlan::h2(HOST_G)), vec![H2ReqSpec::get(ID_PROBE, HOST_G, "/probe")]);
        c.conn.settings = SettingsSpec { enable_push: Some(0), ..Default::default() };
        c.conn.conn_window_bonus = 1_000_000;
        c.conn.wu = WuPolicy { stream: WuMode::Threshold(30_000), conn: WuMode::WhenExhausted, fallback_ns: 0 };
        c.start_ns = PROBE_AT;
        c.give_up_ns = 30 * SEC;
        h2.push(c);
    }
    (h1, h2, resp)
}

/// `MuxPlan` through serde, so that fields added to it later (with serde defaults) do not break this module.
fn mk_mux(seed: u64, family: String, knobs: Knobs, sched: crate::world::SchedCfg, clusters: Vec<MuxCluster>, h1_clients: Vec<ClientPlan>, h2_clients: Vec<H2ClientPlan>, sndbufs: Option<Vec<i32>>) -> MuxPlan {
    let http_front: std::net::SocketAddr = "10.0.0.1:80".parse().unwrap();
    let https_front: std::net::SocketAddr = "10.0.0.1:443".parse().unwrap();
    serde_json::from_value(serde_json::json!({
        "seed": seed, "family": family, "knobs": knobs, "sched": sched, "http_front": http_front, "https_front": https_front,
        "clusters": clusters, "h1_clients": h1_clients, "h2_clients": h2_clients, "sndbufs": sndbufs, "settle_ns": SETTLE,
    })).expect("MuxPlan")
}

pub fn gen_client(seed: u64, tier: Tier) -> NetPlan {
    let mut rng = Prng::derive(seed, "c15/abuse_client");
    let faulty = rng.below(3) == 0;
    let k = knobs(&mut rng);
    let h2 = h2knobs(&mut rng);
    let h2_base = h2;
    let (ca, mut h2) = loop {
        let mut h = h2_base.clone();
        let ca = gen_abuse(&mut rng, &mut h, tier);
        if preface_flags_supported() || !matches!(ca.phase, Phase::NoPreface | Phase::NoSettings) { break (ca, h); }
    };
    if matches!(ca.kind, Kind::TooManyStreams { .. }) { h2.max_streams = *rng.pick(&[2u32, 4, 10, 100]); }
    if matches!(ca.kind, Kind::TooManyStreams { window_probe: true, .. }) { h2.conn_window = 65535; }
    let sibling_len = *rng.pick(&[2000usize, 9000, 30_000]);
    // ---- backend of the abuser's cluster
    let mut r0: Vec<(u64, usize, u64)> = Vec::new();
    for i in 0..3u64 { r0.push((ID_SIBLING + i, 1 + rng.below(20_000) as usize, 0)); }
    r0.push((ID_TARGET, 500, 3 * SEC));
    r0.push((ID_CLOSED, 300, 0));
    r0.push((ID_FOLLOW, 700, 0));
    let mut default0 = RespSpec::ok(BodySpec::Cl(3));
    default0.delay_ns = match ca.kind { Kind::TooManyStreams { .. } => 2 * SEC, Kind::RapidReset { .. } => 300 * MS, _ => 0 };
    let b0 = h1_backend("b0", "10.1.0.1:8000", resp_map_h1(&r0), default0, Pace::greedy());
    let (h1_clients, mut h2_clients, r1) = bystanders(&mut rng, tier, k.buffer_size as usize, 30 * MS);
    let b1 = h1_backend("b1", "10.1.0.2:8000", r1, RespSpec::ok(BodySpec::Cl(3)), Pace::random_budget(&mut rng, 100_000, 300_000_000));
    // ---- the abuser
    let (no_preface, no_settings, script) = build_abuser(&ca, &h2, sibling_len);
    let mut a = H2ClientPlan::simple("abuser", "192.0.2.7:40001".parse().unwrap(), "10.0.0.1:443".parse().unwrap(), Some(TlsPlan::h2(HOST_A)), vec![]);
    a.script = script;
    a.conn.settings = SettingsSpec { enable_push: Some(0), ..Default::default() };
    set_preface_flags(&mut a.conn, no_preface, no_settings);
    a.conn.batch = 1 + rng.below(4) as u32;
    a.pace = if rng.below(2) == 0 { Pace::greedy() } else { Pace::random_budget(&mut rng, 40_000, 200_000_000) };
    a.max_concurrent = 100;
    a.end = EndPlan { goaway: None, mode: CloseMode::WaitPeer, linger_ns: ABUSER_LINGER };
    a.give_up_ns = ABUSER_GIVE_UP;
    a.start_ns = rng.below(10 * MS);
    h2_clients.insert(0, a);
    let mux = mk_mux(seed, format!("abuse_client{}", if faulty { "+buggify" } else { "" }), k, netsim::default_sched(&mut rng, faulty), vec![
            MuxCluster { id: "c0".into(), host: HOST_A.into(), backend: b0, mode: BackendMode::Listen { delay_ns: 0 } },
            MuxCluster { id: "c1".into(), host: HOST_G.into(), backend: b1, mode: BackendMode::Listen { delay_ns: 0 } },
        ], h1_clients, h2_clients, if rng.below(4) == 0 { Some(vec![0, 4608, 32768]) } else { None });
    let mut mux = mux;
    if ca.drain {
        mux.soft_stop_at_ns = Some(SOFT_STOP_AT);
        // sozu polls its sessions without pause while it drains (costly in wall time): a short graceful deadline
        mux.h2_deadline_secs = Some(1);
        mux.h2_clients.retain(|c| c.name != "probe");
        mux.h1_clients.retain(|c| c.name != "probe");
        mux.family = mux.family.replace("abuse_client", "abuse_client_draining");
    }
    NetPlan { mux, h2, client_abuse: Some(ca), backend_abuse: None }
}

/// rebuild the abuser's script after a shrink step changed `client_abuse`
pub fn rebuild(np: &mut NetPlan) {
    if let Some(ca) = &np.client_abuse {
        let sibling_len = np.mux.h2_clients[0].requests().iter().find(|r| r.id < ID_TARGET).map_or(2000, |r| r.body.len);
        let (no_preface, no_settings, script) = build_abuser(ca, &np.h2, sibling_len);
        let a = &mut np.mux.h2_clients[0];
        a.script = script; set_preface_flags(&mut a.conn, no_preface, no_settings);
    }
}

// ------------------------------------------------------------------------------------ abusive backend

fn server_frame(ty: u8, flags: u8, stream: StreamRef, payload: Vec<u8>) -> AbuseOp { AbuseOp::Frame { ty, flags, stream, declared_len: None, payload } }

fn gen_backend_abuse(rng: &mut Prng) -> BackendAbuse {
    use crate::actors::h2codec::ecode::*;
    let status_block = |extra: &[(&str, &str)]| -> Vec<u8> { let mut f = vec![(":status".to_string(), "200".to_string())]; f.extend(extra.iter().map(|(a, b)| (a.to_string(), b.to_string()))); static_block(&f) };
    // frames behind the backend's SETTINGS on every accepted connection, or in place of the answer to the victim's first request
    let on_accept = rng.below(4) == 0;
    let conn_level = on_accept || rng.below(2) == 0;
    let (feature, ops, expect): (String, Vec<AbuseOp>, Expect) = if conn_level {
        match rng.below(17) {
            0 => ("garbage".into(), vec![AbuseOp::Garbage { len: *rng.pick(&[9u32, 50, 4000]), seed: rng.next_u64() }], Expect::Any),
            1 => ("push_promise".into(), vec![server_frame(ftype::PUSH_PROMISE, flag::END_HEADERS, StreamRef::Id(1), { let mut p = 2u32.to_be_bytes().to_vec(); p.extend_from_slice(&req_block(1, "/pushed")); p })], Expect::conn(&[PROTOCOL_ERROR])),
            2 => ("headers_on_even_stream".into(), vec![server_frame(ftype::HEADERS, flag::END_HEADERS | flag::END_STREAM, StreamRef::Id(2), status_block(&[]))], Expect::conn(&[PROTOCOL_ERROR])),
            3 => ("data_on_stream0".into(), vec![server_frame(ftype::DATA, 0, StreamRef::Conn, vec![1, 2, 3])], Expect::conn(&[PROTOCOL_ERROR])),
            4 => ("ping_bad_length".into(), vec![server_frame(ftype::PING, 0, StreamRef::Conn, vec![0u8; 7])], Expect::conn(&[FRAME_SIZE_ERROR])),
            5 => ("window_update_zero_conn".into(), vec![AbuseOp::WindowUpdate { stream: StreamRef::Conn, increment: 0, count: 1 }], Expect::conn(&[PROTOCOL_ERROR])),
            6 => ("window_update_overflow_conn".into(), vec![AbuseOp::WindowUpdate { stream: StreamRef::Conn, increment: 0x7fff_ffff, count: 2 }], Expect::conn(&[FLOW_CONTROL_ERROR])),
            7 => ("settings_enable_push_1".into(), vec![server_frame(ftype::SETTINGS, 0, StreamRef::Conn, vec![0, 2, 0, 0, 0, 1])], Expect::conn(&[PROTOCOL_ERROR])),
            8 => ("settings_window_too_large".into(), vec![server_frame(ftype::SETTINGS, 0, StreamRef::Conn, vec![0, 4, 0x80, 0, 0, 0])], Expect::conn(&[FLOW_CONTROL_ERROR])),
            9 => ("unknown_frame".into(), vec![server_frame(0x42, 0xff, StreamRef::Id(7), vec![1u8; 20])], Expect::Tolerated),
            10 => ("ping".into(), vec![AbuseOp::PingFlood { count: 3, ack: false, rate: Rate::all_at_once() }], Expect::Tolerated),
            11 => ("priority_idle".into(), vec![server_frame(ftype::PRIORITY, 0, StreamRef::Id(9), vec![0, 0, 0, 0, 5])], Expect::Tolerated),
            12 => ("ping_flood".into(), vec![AbuseOp::PingFlood { count: *rng.pick(&[30u32, 400]), ack: false, rate: Rate::all_at_once() }], Expect::Any),
            13 => ("settings_flood".into(), vec![AbuseOp::SettingsFlood { count: *rng.pick(&[10u32, 200]), params: vec![], rate: Rate::all_at_once() }], Expect::Any),
            14 => ("goaway".into(), vec![server_frame(ftype::GOAWAY, 0, StreamRef::Conn, { let mut p = vec![0u8; 8]; p[7] = *rng.pick(&[0u8, 2, 11]); p })], Expect::Ends),
            15 => ("continuation_standalone".into(), vec![server_frame(ftype::CONTINUATION, flag::END_HEADERS, StreamRef::Id(1), vec![])], Expect::conn(&[PROTOCOL_ERROR])),
            _ => ("headers_on_idle_stream".into(), vec![server_frame(ftype::HEADERS, flag::END_HEADERS | flag::END_STREAM, StreamRef::Id(99), status_block(&[]))], Expect::conn(&[PROTOCOL_ERROR])),
        }
    } else {
        match rng.below(12) {
            0 => ("rst_stream".into(), vec![server_frame(ftype::RST_STREAM, 0, StreamRef::LastOpened, (*rng.pick(&[REFUSED_STREAM, INTERNAL_ERROR, CANCEL, 0xdead_beef])).to_be_bytes().to_vec())], Expect::Any),
            1 => ("data_before_headers".into(), vec![server_frame(ftype::DATA, flag::END_STREAM, StreamRef::LastOpened, vec![1u8; 10])], Expect::stream(&[PROTOCOL_ERROR])),
            2 => ("response_bad_hpack".into(), vec![server_frame(ftype::HEADERS, flag::END_HEADERS | flag::END_STREAM, StreamRef::LastOpened, bad_hpack(rng.below(4) as u32))], Expect::conn(&[COMPRESSION_ERROR])),
            3 => ("response_without_status".into(), vec![server_frame(ftype::HEADERS, flag::END_HEADERS | flag::END_STREAM, StreamRef::LastOpened, static_block(&[("x-a".to_string(), "b".to_string())]))], Expect::stream(&[PROTOCOL_ERROR])),
            4 => ("window_update_zero_stream".into(), vec![AbuseOp::WindowUpdate { stream: StreamRef::LastOpened, increment: 0, count: 1 }], Expect::stream(&[PROTOCOL_ERROR])),
            5 => ("empty_data_flood".into(), vec![AbuseOp::EmptyDataFlood { count: *rng.pick(&[20u32, 400]), pad: None, end_stream_last: false, authority: String::new(), rate: Rate::all_at_once() }], Expect::Any),
            6 => ("data_pad_too_long".into(), vec![server_frame(ftype::HEADERS, flag::END_HEADERS, StreamRef::LastOpened, status_block(&[])), server_frame(ftype::DATA, flag::PADDED, StreamRef::LastOpened, vec![200, 1, 2])], Expect::conn(&[PROTOCOL_ERROR])),
            7 => ("headers_on_stream0".into(), vec![server_frame(ftype::HEADERS, flag::END_HEADERS, StreamRef::Conn, status_block(&[]))], Expect::conn(&[PROTOCOL_ERROR])),
            8 => ("no_answer".into(), vec![server_frame(0x42, 0, StreamRef::LastOpened, vec![])], Expect::Any),
            9 => ("window_update_overflow_stream".into(), vec![AbuseOp::WindowUpdate { stream: StreamRef::LastOpened, increment: 0x7fff_ffff, count: 2 }], Expect::stream(&[FLOW_CONTROL_ERROR])),
            10 => ("response_headers_twice_without_end_stream".into(), vec![server_frame(ftype::HEADERS, flag::END_HEADERS, StreamRef::LastOpened, status_block(&[])), server_frame(ftype::HEADERS, flag::END_HEADERS, StreamRef::LastOpened, status_block(&[]))], Expect::stream(&[PROTOCOL_ERROR])),
            _ => ("response_uppercase_header".into(), vec![server_frame(ftype::HEADERS, flag::END_HEADERS | flag::END_STREAM, StreamRef::LastOpened, status_block(&[("X-Up", "v")]))], Expect::stream(&[PROTOCOL_ERROR])),
        }
    };
    BackendAbuse { on_accept, ops, expect, feature: format!("backend/{}/{feature}", if on_accept { "behind_settings" } else { "instead_of_answer" }), short_writes: false }
}
impl BackendAbuse {
    /// Trigger part of violation keys.
    pub fn key(&self) -> String { if self.short_writes { "backend/with_short_writes".to_string() } else { self.feature.clone() } }
}

pub fn gen_backend(seed: u64, tier: Tier) -> NetPlan {
    let mut rng = Prng::derive(seed, "c15/abuse_backend");
    let faulty = rng.below(3) == 0;
    let k = knobs(&mut rng);
    let h2 = H2Knobs::default();
    let mut ba = gen_backend_abuse(&mut rng);
    // short / would-block writes on the h2c backend connection only in one plan out of eight (see BackendAbuse::short_writes)
    let sched = { let mut c = netsim::default_sched(&mut rng, faulty); if rng.below(8) != 0 { c.short_write_pm = 0; c.eagain_pm = 0; } c };
    ba.short_writes = sched.short_write_pm > 0 || sched.eagain_pm > 0;
    // ---- the abusive h2c backend
    let mut responses = BTreeMap::new();
    let l0 = 100 + rng.below(2900) as usize;
    let l1 = 100 + rng.below(2900) as usize;
    let mut r0 = H2RespSpec::ok(l0);
    r0.respond_on = RespondOn::EndStream;
    // a few ms after the request, when sozu's own control frames of the connection set-up are on the wire
    r0.delay_ns = 5 * MS;
    if !ba.on_accept { r0.abuse = ba.ops.clone(); }
    responses.insert(ID_VICTIM, r0);
    let mut r1 = H2RespSpec::ok(l1);
    r1.respond_on = RespondOn::EndStream;
    r1.delay_ns = 2 * MS;
    responses.insert(ID_VICTIM + 1, r1);
    let mut bb = H2BackendPlan::simple("bb", "10.1.0.3:8000".parse().unwrap(), responses);
    bb.conn.settings = SettingsSpec { max_concurrent_streams: Some(100), ..Default::default() };
    if ba.on_accept { bb.on_accept_abuse = ba.ops.clone(); }
    let (mut h1_clients, mut h2_clients, r1map) = bystanders(&mut rng, tier, k.buffer_size as usize, 30 * MS);
    let b1 = h1_backend("b1", "10.1.0.2:8000", r1map, RespSpec::ok(BodySpec::Cl(3)), Pace::random_budget(&mut rng, 100_000, 300_000_000));
    // ---- the victim
    let nreq = 1 + rng.below(2);
    if rng.below(2) == 0 {
        let reqs: Vec<H2ReqSpec> = (0..nreq).map(|i| H2ReqSpec::get(ID_VICTIM + i, HOST_B, &format!("/v/{i}"))).collect();
        let mut c = H2ClientPlan::simple("victim", "192.0.2.7:40001".parse().unwrap(), "10.0.0.1:443".parse().unwrap(), Some(TlsPlan::h2(HOST_B)), reqs);
        c.conn.settings = SettingsSpec { enable_push: Some(0), ..Default::default() };
        c.conn.conn_window_bonus = 1_000_000;
        c.conn.wu = WuPolicy { stream: WuMode::Threshold(30_000), conn: WuMode::WhenExhausted, fallback_ns: 0 };
        c.max_concurrent = 1;
        c.give_up_ns = 60 * SEC;
        c.start_ns = rng.below(5 * MS);
        h2_clients.insert(0, c);
    } else {
        let reqs: Vec<ReqSpec> = (0..nreq).map(|i| { let mut r = ReqSpec::get(ID_VICTIM + i, HOST_B, &format!("/v/{i}")); r.headers.push(("Content-Length".into(), "0".into())); r }).collect();
        h1_clients.insert(0, ClientPlan { name: "victim".into(), src: "192.0.2.7:40001".parse().unwrap(), dst: "10.0.0.1:80".parse().unwrap(), start_ns: rng.below(5 * MS), pace: Pace::greedy(), pipeline: false, requests: reqs, abort: None, sndbuf: None, think_ns: 0, linger_ns: 0, give_up_ns: 60 * SEC, wait_board: None });
    }
    let mux = mk_mux(seed, format!("abuse_backend{}", if faulty { "+buggify" } else { "" }), k, sched, vec![
            MuxCluster { id: "cb".into(), host: HOST_B.into(), backend: MuxBackend::H2(bb), mode: BackendMode::Listen { delay_ns: 0 } },
            MuxCluster { id: "c1".into(), host: HOST_G.into(), backend: b1, mode: BackendMode::Listen { delay_ns: 0 } },
        ], h1_clients, h2_clients, None);
    NetPlan { mux, h2, client_abuse: None, backend_abuse: Some(ba) }
}
