//! C03 reference reader: a strict RFC 9112 request-stream parser written from the RFC text only
//! (never from sozu / kawa). Two modes:
//!
//! * `Mode::Client` (R_c): reads what a client sent. Accepts exactly what RFC 9112 *defines*; the two
//!   recoveries the RFC spells out for intermediaries (Transfer-Encoding overrides Content-Length and
//!   the Content-Length must then be removed, §6.3; identical repeated Content-Length values may be
//!   collapsed, RFC 9110 §8.6; absolute-form overrides Host, §3.2.2) are accepted and recorded in
//!   `Req::norm` ("must be normalised before forwarding"). Everything else that is malformed or
//!   ambiguous stops the reading: the *reject point*.
//! * `Mode::Backend` (R_b): reads what a backend received. No recovery at all: no CL+TE, one
//!   Content-Length line with 1*DIGIT, Transfer-Encoding exactly `chunked`, exactly one valid Host,
//!   exact chunk syntax, no forbidden byte anywhere.
#![allow(dead_code)]

#[derive(Clone, Copy, Debug, PartialEq)]
pub enum Mode {
    Client,
    Backend,
}

#[derive(Clone, Debug, PartialEq)]
pub enum Framing {
    /// neither Content-Length nor Transfer-Encoding: no body (RFC 9112 §6.3 rule 7)
    None,
    Cl(u64),
    Chunked,
}

#[derive(Clone, Debug)]
pub struct Req {
    pub start: usize,
    pub head_end: usize,
    pub end: usize,
    pub method: Vec<u8>,
    pub target: Vec<u8>,
    pub minor: u8,
    /// (name as sent, value with OWS trimmed), in order
    pub headers: Vec<(Vec<u8>, Vec<u8>)>,
    /// effective host: authority of an absolute-form target, else the Host field value
    pub host: Option<Vec<u8>>,
    pub framing: Framing,
    /// decoded body
    pub body: Vec<u8>,
    pub trailers: Vec<(Vec<u8>, Vec<u8>)>,
    pub id: Option<u64>,
    /// the connection ends after this request (Connection: close, HTTP/1.0 without keep-alive, CONNECT)
    pub last: bool,
    /// recoveries used (client mode only): the forwarded form must not show them
    pub norm: Vec<&'static str>,
    pub complete: bool,
}

impl Req {
    pub fn header(&self, name: &str) -> Option<&[u8]> {
        self.headers.iter().find(|(n, _)| n.eq_ignore_ascii_case(name.as_bytes())).map(|(_, v)| v.as_slice())
    }
    pub fn has(&self, name: &str) -> bool {
        self.header(name).is_some()
    }
    pub fn lengthless(&self) -> bool {
        self.framing == Framing::None
    }
}

#[derive(Clone, Debug, PartialEq)]
pub enum Stop {
    /// the stream ended exactly at a message boundary
    End,
    /// the stream ended inside a message (head or body): the sender was cut
    Incomplete { at: usize },
    /// first malformed / ambiguous byte position and why
    Reject { at: usize, why: String },
}

#[derive(Clone, Debug)]
pub struct Reading {
    /// complete, valid requests before the stop
    pub reqs: Vec<Req>,
    /// the request being read when the stream stopped, if its head was complete and valid
    /// (`body` = the part of the body decoded so far)
    pub tail: Option<Req>,
    pub stop: Stop,
}
impl Reading {
    pub fn clean(&self) -> bool {
        self.stop == Stop::End
    }
    pub fn reject_reason(&self) -> Option<&str> {
        match &self.stop { Stop::Reject { why, .. } => Some(why), _ => None }
    }
}

pub fn is_tchar(c: u8) -> bool {
    c.is_ascii_alphanumeric() || b"!#$%&'*+-.^_`|~".contains(&c)
}
fn is_token(s: &[u8]) -> bool {
    !s.is_empty() && s.iter().all(|c| is_tchar(*c))
}
/// field-vchar / SP / HTAB / obs-text
fn is_field_byte(c: u8) -> bool {
    c == b'\t' || (0x20..=0x7e).contains(&c) || c >= 0x80
}
fn trim_ows(mut s: &[u8]) -> &[u8] {
    while let [b' ' | b'\t', rest @ ..] = s { s = rest; }
    while let [rest @ .., b' ' | b'\t'] = s { s = rest; }
    s
}
fn all_digits(s: &[u8]) -> bool {
    !s.is_empty() && s.iter().all(|c| c.is_ascii_digit())
}
fn parse_dec(s: &[u8]) -> Option<u64> {
    let mut v: u64 = 0;
    for c in s {
        v = v.checked_mul(10)?.checked_add((*c - b'0') as u64)?;
    }
    Some(v)
}

enum Line<'a> {
    Ok(&'a [u8], usize),
    Incomplete,
    Bad(usize, &'static str),
}

/// One CRLF-terminated line starting at `p`: content without the terminator and the next position.
fn line(buf: &[u8], p: usize) -> Line<'_> {
    let Some(rel) = buf[p..].iter().position(|c| *c == b'\n') else {
        // no LF yet; a CR that is not the last byte can never become CRLF
        if let Some(cr) = buf[p..].iter().position(|c| *c == b'\r') {
            if p + cr + 1 < buf.len() { return Line::Bad(p + cr, "bare_cr"); }
        }
        return Line::Incomplete;
    };
    let q = p + rel;
    if q == p || buf[q - 1] != b'\r' { return Line::Bad(q, "bare_lf"); }
    let content = &buf[p..q - 1];
    if let Some(cr) = content.iter().position(|c| *c == b'\r') { return Line::Bad(p + cr, "bare_cr"); }
    Line::Ok(content, q + 1)
}

fn valid_host_value(h: &[u8]) -> bool {
    // uri-host [ ":" port ] ; reg-name / IPv4 / IP-literal characters only
    if h.is_empty() { return false; }
    let (host, port) = if h[0] == b'[' {
        match h.iter().position(|c| *c == b']') {
            Some(e) => (&h[..=e], &h[e + 1..]),
            None => return false,
        }
    } else {
        match h.iter().rposition(|c| *c == b':') {
            Some(i) => (&h[..i], &h[i..]),
            None => (h, &h[h.len()..]),
        }
    };
    if host.is_empty() { return false; }
    if host[0] == b'[' {
        if !host[1..host.len() - 1].iter().all(|c| c.is_ascii_hexdigit() || *c == b':' || *c == b'.') { return false; }
    } else if !host.iter().all(|c| c.is_ascii_alphanumeric() || b"-._~%!$&'()*+,;=".contains(c)) {
        return false;
    }
    if !port.is_empty() {
        let digits = &port[1..];
        if port[0] != b':' || !digits.iter().all(|c| c.is_ascii_digit()) { return false; }
        if !digits.is_empty() && parse_dec(digits).map_or(true, |p| p > 65535) { return false; }
    }
    true
}

/// Authority of an absolute-form target (userinfo removed), or an error tag.
fn absolute_authority(t: &[u8]) -> Result<Vec<u8>, &'static str> {
    let Some(i) = t.windows(3).position(|w| w == b"://") else { return Err("bad_target_form") };
    let scheme = &t[..i];
    if scheme.is_empty() || !scheme[0].is_ascii_alphabetic() || !scheme.iter().all(|c| c.is_ascii_alphanumeric() || b"+-.".contains(c)) {
        return Err("bad_target_form");
    }
    let rest = &t[i + 3..];
    let end = rest.iter().position(|c| b"/?#".contains(c)).unwrap_or(rest.len());
    let mut auth = &rest[..end];
    if let Some(at) = auth.iter().rposition(|c| *c == b'@') { auth = &auth[at + 1..]; }
    if !valid_host_value(auth) { return Err("bad_target_authority"); }
    Ok(auth.to_vec())
}

struct HeadOut {
    req: Req,
}

fn parse_head(buf: &[u8], start: usize, mode: Mode) -> Result<Option<HeadOut>, (usize, String)> {
    let bad = |at: usize, why: &str| -> Result<Option<HeadOut>, (usize, String)> { Err((at, why.to_string())) };
    let mut p = start;
    // ---- request line (a client-side reader ignores empty lines before it, RFC 9112 §2.2)
    let (rl, after_rl) = loop {
        match line(buf, p) {
            Line::Incomplete => {
                // early detection of bytes that can never start a request line
                if p < buf.len() && !(is_tchar(buf[p]) || buf[p] == b'\r') { return bad(p, "bad_request_line_start"); }
                return Ok(None);
            }
            Line::Bad(at, why) => return bad(at, why),
            Line::Ok(c, next) => {
                if c.is_empty() {
                    if mode == Mode::Backend { return bad(p, "leading_crlf"); }
                    p = next;
                    if p >= buf.len() { return Ok(None); }
                    continue;
                }
                break (c, next);
            }
        }
    };
    let rl_start = p;
    let parts: Vec<&[u8]> = rl.split(|c| *c == b' ').collect();
    if parts.len() != 3 || parts.iter().any(|x| x.is_empty()) {
        if rl.first().map_or(false, |c| *c == b' ' || *c == b'\t') { return bad(rl_start, "ws_before_request_line"); }
        return bad(rl_start, if parts.len() == 2 { "http09_or_missing_version" } else { "request_line_spacing" });
    }
    let (method, target, version) = (parts[0], parts[1], parts[2]);
    if !is_token(method) { return bad(rl_start, "bad_method"); }
    if !target.iter().all(|c| (0x21..=0x7e).contains(c)) { return bad(rl_start, "bad_target_byte"); }
    let minor = match version { b"HTTP/1.1" => 1, b"HTTP/1.0" => 0, _ => return bad(rl_start, "bad_version") };
    let mut uri_host: Option<Vec<u8>> = None;
    let mut connect = false;
    if target == b"*" {
        if method != b"OPTIONS" { return bad(rl_start, "asterisk_form_without_options"); }
    } else if method == b"CONNECT" {
        if !valid_host_value(target) || !target.contains(&b':') { return bad(rl_start, "bad_connect_target"); }
        uri_host = Some(target.to_vec());
        connect = true;
    } else if target[0] == b'/' {
    } else {
        match absolute_authority(target) {
            Ok(a) => uri_host = Some(a),
            Err(e) => return bad(rl_start, e),
        }
    }
    // ---- header section
    let mut headers: Vec<(Vec<u8>, Vec<u8>)> = Vec::new();
    p = after_rl;
    let head_end;
    loop {
        match line(buf, p) {
            Line::Incomplete => return Ok(None),
            Line::Bad(at, why) => return bad(at, why),
            Line::Ok(c, next) => {
                if c.is_empty() { head_end = next; break; }
                if c[0] == b' ' || c[0] == b'\t' { return bad(p, if headers.is_empty() { "ws_after_request_line" } else { "obs_fold" }); }
                let Some(colon) = c.iter().position(|x| *x == b':') else { return bad(p, "header_without_colon") };
                let name = &c[..colon];
                if name.is_empty() { return bad(p, "empty_header_name"); }
                if name.last().map_or(false, |x| *x == b' ' || *x == b'\t') { return bad(p, "ws_before_colon"); }
                if !is_token(name) { return bad(p, "bad_header_name_byte"); }
                let value = &c[colon + 1..];
                if let Some(i) = value.iter().position(|x| !is_field_byte(*x)) { return bad(p + colon + 1 + i, "bad_header_value_byte"); }
                headers.push((name.to_vec(), trim_ows(value).to_vec()));
                p = next;
            }
        }
    }
    let all = |n: &str| -> Vec<&[u8]> { headers.iter().filter(|(k, _)| k.eq_ignore_ascii_case(n.as_bytes())).map(|(_, v)| v.as_slice()).collect() };
    let mut norm: Vec<&'static str> = Vec::new();
    // ---- Host
    let hosts = all("host");
    let host: Option<Vec<u8>>;
    if hosts.len() > 1 { return bad(rl_start, "duplicate_host"); }
    if let Some(h) = hosts.first() {
        if !valid_host_value(h) { return bad(rl_start, if h.is_empty() { "empty_host" } else { "bad_host_value" }); }
    }
    match (&uri_host, hosts.first()) {
        (Some(u), Some(h)) => {
            if !u.eq_ignore_ascii_case(h) {
                if mode == Mode::Backend { return bad(rl_start, "host_differs_from_target"); }
                norm.push("host_replaced_by_target_authority");
            }
            host = Some(u.clone());
        }
        (Some(u), None) => {
            if minor == 1 { return bad(rl_start, "missing_host"); }
            host = Some(u.clone());
        }
        (None, Some(h)) => host = Some(h.to_vec()),
        (None, None) => {
            if minor == 1 { return bad(rl_start, "missing_host"); }
            host = None;
        }
    }
    // ---- framing
    let te = all("transfer-encoding");
    let cl = all("content-length");
    let framing;
    if !te.is_empty() {
        if minor == 0 { return bad(rl_start, "te_in_http10"); }
        let mut codings: Vec<Vec<u8>> = Vec::new();
        // RFC 9110 §5.6.1: empty list elements are ignored by recipients
        for v in &te { for t in v.split(|c| *c == b',') { let t = trim_ows(t); if !t.is_empty() { codings.push(t.to_ascii_lowercase()); } } }
        if codings.is_empty() { return bad(rl_start, "te_without_chunked"); }
        // chunked must be applied exactly once, last; the only other codings a strict recipient may meet are
        // the registered compression codings (it answers 501 if it does not implement them, but the framing
        // is not in doubt): the body is then compared in its encoded form
        let n_chunked = codings.iter().filter(|c| c.as_slice() == b"chunked").count();
        let others_ok = codings.iter().rev().skip(1).all(|c| [&b"gzip"[..], b"x-gzip", b"deflate", b"compress", b"x-compress"].contains(&c.as_slice()));
        if codings.last().map(|c| c.as_slice()) != Some(b"chunked") || n_chunked != 1 || !others_ok { return bad(rl_start, if n_chunked > 0 { "te_chunked_not_alone" } else { "te_without_chunked" }); }
        if !cl.is_empty() {
            if mode == Mode::Backend { return bad(rl_start, "cl_and_te"); }
            // the TE reading is the defined one, but only if the CL itself is not garbage on top
            norm.push("cl_removed_because_te");
        }
        framing = Framing::Chunked;
    } else if !cl.is_empty() {
        let mut vals: Vec<&[u8]> = Vec::new();
        for v in &cl { for t in v.split(|c| *c == b',') { vals.push(trim_ows(t)); } }
        if vals.iter().any(|v| !all_digits(v)) { return bad(rl_start, "cl_not_digits"); }
        let Some(first) = parse_dec(vals[0]) else { return bad(rl_start, "cl_overflow") };
        for v in &vals { if parse_dec(v) != Some(first) { return bad(rl_start, if parse_dec(v).is_none() { "cl_overflow" } else { "cl_conflict" }); } }
        if vals.len() > 1 {
            if mode == Mode::Backend { return bad(rl_start, "cl_repeated"); }
            norm.push("cl_collapsed");
        }
        framing = Framing::Cl(first);
    } else {
        framing = Framing::None;
    }
    // ---- connection persistence
    let mut close = false;
    let mut keep = false;
    for v in all("connection") {
        for t in v.split(|c| *c == b',') {
            let t = trim_ows(t);
            if t.eq_ignore_ascii_case(b"close") { close = true; }
            if t.eq_ignore_ascii_case(b"keep-alive") { keep = true; }
        }
    }
    let last = close || (minor == 0 && !keep) || connect;
    let id = all("x-sim-id").first().and_then(|v| if all_digits(v) { parse_dec(v) } else { None });
    Ok(Some(HeadOut {
        req: Req {
            start: rl_start, head_end, end: head_end, method: method.to_vec(), target: target.to_vec(), minor, headers, host, framing,
            body: Vec::new(), trailers: Vec::new(), id, last, norm, complete: false,
        },
    }))
}

enum BodyEnd {
    Done(usize),
    Incomplete,
    Bad(usize, String),
}

fn parse_chunked(buf: &[u8], mut p: usize, req: &mut Req) -> BodyEnd {
    loop {
        // chunk-size [ chunk-ext ] CRLF
        let (c, next) = match line(buf, p) {
            Line::Incomplete => {
                // anything that cannot start / continue a chunk-size line is already wrong
                if p < buf.len() && !buf[p].is_ascii_hexdigit() { return BodyEnd::Bad(p, "bad_chunk_size".into()); }
                return BodyEnd::Incomplete;
            }
            Line::Bad(at, why) => return BodyEnd::Bad(at, format!("chunk_line_{why}")),
            Line::Ok(c, n) => (c, n),
        };
        let hex_end = c.iter().position(|x| !x.is_ascii_hexdigit()).unwrap_or(c.len());
        if hex_end == 0 { return BodyEnd::Bad(p, "bad_chunk_size".into()); }
        let hex = &c[..hex_end];
        let sig: Vec<u8> = hex.iter().copied().skip_while(|x| *x == b'0').collect();
        if sig.len() > 16 { return BodyEnd::Bad(p, "chunk_size_overflow".into()); }
        let mut size: u64 = 0;
        for d in &sig { size = size * 16 + (*d as char).to_digit(16).unwrap() as u64; }
        // chunk-ext = *( ";" chunk-ext-name [ "=" ( token / quoted-string ) ] )   (no BWS: it is "bad" whitespace)
        let mut e = hex_end;
        while e < c.len() {
            if c[e] != b';' { return BodyEnd::Bad(p + e, "bad_chunk_ext".into()); }
            e += 1;
            let ns = e;
            while e < c.len() && is_tchar(c[e]) { e += 1; }
            if e == ns { return BodyEnd::Bad(p + e, "bad_chunk_ext".into()); }
            if e < c.len() && c[e] == b'=' {
                e += 1;
                if e < c.len() && c[e] == b'"' {
                    e += 1;
                    loop {
                        if e >= c.len() { return BodyEnd::Bad(p + e, "bad_chunk_ext_quote".into()); }
                        match c[e] {
                            b'"' => { e += 1; break; }
                            b'\\' => { if e + 1 >= c.len() || !is_field_byte(c[e + 1]) { return BodyEnd::Bad(p + e, "bad_chunk_ext_quote".into()); } e += 2; }
                            x if is_field_byte(x) => e += 1,
                            _ => return BodyEnd::Bad(p + e, "bad_chunk_ext_quote".into()),
                        }
                    }
                } else {
                    let vs = e;
                    while e < c.len() && is_tchar(c[e]) { e += 1; }
                    if e == vs { return BodyEnd::Bad(p + e, "bad_chunk_ext".into()); }
                }
            }
        }
        p = next;
        if size == 0 { break; }
        let have = (buf.len() - p) as u64;
        if have < size {
            req.body.extend_from_slice(&buf[p..]);
            return BodyEnd::Incomplete;
        }
        let n = size as usize;
        req.body.extend_from_slice(&buf[p..p + n]);
        p += n;
        if buf.len() < p + 2 {
            if buf.len() == p + 1 && buf[p] != b'\r' { return BodyEnd::Bad(p, "missing_crlf_after_chunk".into()); }
            return BodyEnd::Incomplete;
        }
        if &buf[p..p + 2] != b"\r\n" { return BodyEnd::Bad(p, "missing_crlf_after_chunk".into()); }
        p += 2;
    }
    // trailer section
    loop {
        match line(buf, p) {
            Line::Incomplete => return BodyEnd::Incomplete,
            Line::Bad(at, why) => return BodyEnd::Bad(at, format!("trailer_{why}")),
            Line::Ok(c, next) => {
                if c.is_empty() { return BodyEnd::Done(next); }
                if c[0] == b' ' || c[0] == b'\t' { return BodyEnd::Bad(p, "trailer_obs_fold".into()); }
                let Some(colon) = c.iter().position(|x| *x == b':') else { return BodyEnd::Bad(p, "trailer_without_colon".into()) };
                let name = &c[..colon];
                if !is_token(name) { return BodyEnd::Bad(p, "bad_trailer_name".into()); }
                let value = &c[colon + 1..];
                if let Some(i) = value.iter().position(|x| !is_field_byte(*x)) { return BodyEnd::Bad(p + colon + 1 + i, "bad_trailer_value_byte".into()); }
                req.trailers.push((name.to_vec(), trim_ows(value).to_vec()));
                p = next;
            }
        }
    }
}

/// Read a whole byte stream as a sequence of requests.
pub fn read_stream(buf: &[u8], mode: Mode) -> Reading {
    let mut reqs = Vec::new();
    let mut p = 0usize;
    loop {
        if p >= buf.len() { return Reading { reqs, tail: None, stop: Stop::End }; }
        // trailing empty lines after the last request are not a message
        if mode == Mode::Client && buf[p..].chunks(2).all(|c| c == b"\r\n") { return Reading { reqs, tail: None, stop: Stop::End }; }
        let mut req = match parse_head(buf, p, mode) {
            Ok(Some(h)) => h.req,
            Ok(None) => return Reading { reqs, tail: None, stop: Stop::Incomplete { at: p } },
            Err((at, why)) => return Reading { reqs, tail: None, stop: Stop::Reject { at, why } },
        };
        let b = req.head_end;
        let end = match req.framing.clone() {
            Framing::None => BodyEnd::Done(b),
            Framing::Cl(n) => {
                let have = (buf.len() - b) as u64;
                if have < n { req.body.extend_from_slice(&buf[b..]); BodyEnd::Incomplete } else { req.body.extend_from_slice(&buf[b..b + n as usize]); BodyEnd::Done(b + n as usize) }
            }
            Framing::Chunked => parse_chunked(buf, b, &mut req),
        };
        match end {
            BodyEnd::Done(e) => {
                req.end = e;
                req.complete = true;
                let last = req.last;
                reqs.push(req);
                p = e;
                if last && p < buf.len() && mode == Mode::Client {
                    // RFC 9112 §9.6: nothing after a request that closes the connection is to be processed
                    return Reading { reqs, tail: None, stop: Stop::Reject { at: p, why: "bytes_after_final_request".into() } };
                }
            }
            BodyEnd::Incomplete => return Reading { reqs, tail: Some(req), stop: Stop::Incomplete { at: buf.len() } },
            BodyEnd::Bad(at, why) => return Reading { reqs, tail: Some(req), stop: Stop::Reject { at, why } },
        }
    }
}

pub fn show(b: &[u8]) -> String {
    let mut s = String::new();
    for c in b.iter().take(160) {
        match *c {
            b'\r' => s.push_str("\\r"),
            b'\n' => s.push_str("\\n"),
            b'\t' => s.push_str("\\t"),
            0x20..=0x7e => s.push(*c as char),
            x => s.push_str(&format!("\\x{x:02x}")),
        }
    }
    if b.len() > 160 { s.push_str(&format!("...(+{})", b.len() - 160)); }
    s
}
