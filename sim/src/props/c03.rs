//! C03 — client and backend always agree on request boundaries (no smuggling). HTTP/1.1 tier.
//!
//! Black-box differential with three readers on netsim (real sozu worker, scripted peers):
//!   R_c  strict RFC 9112 reading of the byte stream the client sent (`c03_ref`, `Mode::Client`),
//!   R_b  strict reading of the raw bytes each backend connection received (`Mode::Backend`),
//!   the client-visible outcome (statuses / echoed ids of the responses).
//! The same byte streams are delivered twice under different segmentations and schedules
//! (metamorphic check).
use std::collections::BTreeMap;

use serde::{Deserialize, Serialize};
use serde_json::Value;

#[path = "c03_gen.rs"]
pub mod generator;
#[path = "c03_ref.rs"]
pub mod reference;

use self::generator as g;
use self::reference::{read_stream, show, Mode, Reading, Req, Stop};
use super::c01;
use crate::actors::h1::*;
use crate::actors::Pace;
use crate::framework::*;
use crate::netsim::{self, Knobs};
use crate::prng::{Prng, TraceHash};
use crate::scenario::*;
use crate::world::{SchedCfg, MS, SEC};

pub struct C03;

#[derive(Clone, Debug, Serialize, Deserialize)]
pub struct Plan {
    pub http: HttpPlan,
    /// per client, per element: generator label (plan-level information for keys / probes only)
    pub labels: Vec<Vec<String>>,
    /// the plan is meant to contain the known trigger "bytes pipelined behind a length-less request"
    pub want_trigger: bool,
    // ---- second delivery of the same byte streams
    pub alt_seed: u64,
    pub alt_paces: Vec<Pace>,
    pub alt_backend_pace: Pace,
    pub alt_sched: SchedCfg,
    pub alt_sndbufs: Option<Vec<i32>>,
}

const ID_SPAN: u64 = 1000;

fn client_stream(c: &ClientPlan) -> Vec<u8> {
    let mut v = Vec::new();
    for r in &c.requests { v.extend_from_slice(&r.render()); }
    v
}

/// Plan-level trigger of the known finding: the client sends bytes right behind the header block of a
/// request that names neither Content-Length nor Transfer-Encoding, before its response can have
/// completed: the next pipelined request, or bytes in the same write burst of a sequential client.
/// Computed from the plan (R_c, plus a lenient look at the elements: a reader more lenient than R_c may
/// accept an element R_c rejects and read it as length-less). Returns the stream offset of those bytes.
fn lengthless_trigger(c: &ClientPlan, rc: &Reading, stream: &[u8]) -> Option<usize> {
    // sequential clients send element k+1 only after the answers to elements 1..k: boundaries of elements
    // are safe there, bytes inside one element are not
    let mut bounds = Vec::new();
    let mut off = 0;
    for r in &c.requests { off += r.render().len(); bounds.push(off); }
    let burst_end = |pos: usize| -> usize { if c.pipeline { stream.len() } else { bounds.iter().copied().find(|b| *b >= pos).unwrap_or(stream.len()).min(stream.len()) } };
    if let Some(r) = rc.reqs.iter().find(|r| r.lengthless() && r.end < burst_end(r.end)) { return Some(r.end); }
    let mut off = 0;
    for (i, r) in c.requests.iter().enumerate() {
        let b = r.render();
        if !names_framing_field(&b) {
            let he = b.windows(4).position(|w| w == b"\r\n\r\n").map(|p| p + 4).unwrap_or(b.len());
            if he < b.len() || (c.pipeline && i + 1 < c.requests.len()) { return Some(off + he); }
        }
        off += b.len();
    }
    None
}

pub fn generate(seed: u64, _tier: Tier) -> Plan {
    let mut rng = Prng::derive(seed, "c03/plan");
    let mode = rng.below(8); // 0: known trigger, 1: all valid, else: one mutated element (sometimes two)
    let want_trigger = mode == 0;
    let mut knobs = Knobs::default();
    knobs.front_timeout = 6;
    knobs.request_timeout = 4;
    knobs.back_timeout = 5;
    knobs.connect_timeout = 2;
    knobs.buffer_size = *rng.pick(&[16393u64, 16393, 16393, 16400, 32768]);
    let front: std::net::SocketAddr = "10.0.0.1:80".parse().unwrap();
    let nclients = if rng.below(4) == 0 { 2 } else { 1 };
    let mut clients = Vec::new();
    let mut labels: Vec<Vec<String>> = Vec::new();
    let mut total = 0usize;
    for ci in 0..nclients {
        let pipeline = want_trigger || rng.below(4) != 0;
        let mut n = 1 + rng.below(4) as usize;
        if want_trigger && ci == 0 { n = n.max(2); }
        let mutated: Vec<usize> = if mode >= 2 && (ci == 0 || rng.below(2) == 0) {
            // one mutated element per connection: two would only show each other's symptoms under mixed keys
            vec![rng.below(n as u64) as usize]
        } else { vec![] };
        let trig_pos = if want_trigger && ci == 0 { Some(rng.below(n as u64 - 1) as usize) } else { None };
        let mut els: Vec<g::El> = Vec::new();
        for j in 0..n {
            let id = ci as u64 * ID_SPAN + j as u64 + 1;
            let el = if trig_pos == Some(j) {
                g::seed(&mut rng, id, true)
            } else if mutated.contains(&j) {
                let k = rng.below(g::N_MUT + g::N_E2E);
                if k < g::N_MUT { g::mutant(&mut rng, id, k) } else { g::e2e(id, k - g::N_MUT) }
            } else {
                // a length-less body-less request only where nothing can follow it
                let lengthless = j == n - 1 && rng.below(3) == 0;
                g::seed(&mut rng, id, lengthless)
            };
            els.push(el);
        }
        let mk = |els: &Vec<g::El>, pace: Pace| ClientPlan {
            name: format!("cl{ci}"),
            src: format!("192.0.2.{}:{}", 7 + ci, 40001 + ci).parse().unwrap(),
            dst: front,
            start_ns: 0,
            pace,
            pipeline,
            requests: els.iter().enumerate().map(|(j, e)| ReqSpec { id: ci as u64 * ID_SPAN + j as u64 + 1, method: e.method.clone(), host: g::HOST.into(), path: "/".into(), headers: vec![], body: BodySpec::None, raw: Some(e.bytes.clone()) }).collect(),
            abort: None,
            sndbuf: None,
            think_ns: 0,
            linger_ns: 1500 * MS,
            give_up_ns: 90 * SEC,
            wait_board: None,
        };
        // keep the known trigger out of every plan that is not meant to have it: cut the stream
        // behind the first length-less request that has bytes following it
        if !want_trigger {
            loop {
                let c = mk(&els, Pace::greedy());
                let s = client_stream(&c);
                let rc = read_stream(&s, Mode::Client);
                let Some(r_end) = lengthless_trigger(&c, &rc, &s) else { break };
                let mut off = 0;
                let mut keep = 0;
                for (j, e) in els.iter().enumerate() { off += e.bytes.len(); if off >= r_end { keep = j + 1; break; } }
                let before = els.len();
                if keep < els.len() { els.truncate(keep); }
                // the bytes follow inside the last kept element itself: drop that element
                if els.len() == before || { let c2 = mk(&els, Pace::greedy()); let s2 = client_stream(&c2); lengthless_trigger(&c2, &read_stream(&s2, Mode::Client), &s2).is_some() } { els.pop(); }
                if els.is_empty() { break; }
            }
            if els.is_empty() { els.push(g::seed(&mut rng, ci as u64 * ID_SPAN + 1, false)); }
        }
        let bytes: usize = els.iter().map(|e| e.bytes.len()).sum();
        total += bytes;
        let mut c = mk(&els, Pace::greedy());
        c.pace = segmentation(&mut rng, bytes);
        // never 0: the backend actor must have had its first step (listen) before sozu can dial it
        c.start_ns = 1000 + rng.below(2) * rng.below(2 * MS);
        if rng.below(4) == 0 { c.sndbuf = Some(*rng.pick(&[4608, 9216])); }
        labels.push(els.iter().map(|e| e.label.clone()).collect());
        clients.push(c);
    }
    let backend = BackendPlan {
        name: "b0".into(),
        addr: "10.1.0.1:8000".parse().unwrap(),
        pace: Pace::random_budget(&mut rng, total + 400, 300_000_000),
        responses: BTreeMap::new(),
        default: RespSpec::ok(BodySpec::None),
        close_on_accept: vec![],
        listen_from_ns: 0,
        listen_until_ns: 0,
    };
    let alt_paces = clients.iter().map(|c| { let n = client_stream(c).len(); segmentation(&mut rng, n) }).collect();
    let alt_backend_pace = Pace::random_budget(&mut rng, total + 400, 300_000_000);
    let faulty = rng.below(3) == 0;
    let sched = netsim::default_sched(&mut rng, faulty);
    let alt_faulty = rng.below(3) == 0;
    let alt_sched = netsim::default_sched(&mut rng, alt_faulty);
    let fam = match mode { 0 => "h1_lengthless_pipelined".to_string(), 1 => "h1_valid_only".into(), _ => format!("h1_mut_{}", labels.iter().flatten().find(|l: &&String| !l.starts_with("seed:")).map(|l: &String| l.split(':').next().unwrap_or("x").to_string()).unwrap_or("none".into())) };
    let http = HttpPlan {
        seed,
        family: fam,
        knobs,
        sched,
        front,
        clusters: vec![ClusterPlan { id: "c0".into(), host: g::HOST.into(), backends: vec![(backend, BackendMode::Listen { delay_ns: rng.below(2) * rng.below(5 * MS) })] }],
        clients,
        sndbufs: if rng.below(3) == 0 { Some(vec![0, 4608, 9216, 32768]) } else { None },
        // let the backend actor drain what sozu wrote before the worker is stopped
        settle_ns: 300 * MS,
        extra_frontends: vec![("localhost".into(), Some("c0".into()))],
    };
    Plan { http, labels, want_trigger, alt_seed: seed ^ 0x5eed_a17e_c03c_03c0, alt_paces, alt_backend_pace, alt_sched, alt_sndbufs: if rng.below(3) == 0 { Some(vec![0, 4608, 9216]) } else { None } }
}

/// Write quanta from one byte to everything, with pauses small enough to stay below sozu's timeouts.
fn segmentation(rng: &mut Prng, bytes: usize) -> Pace {
    use crate::actors::Quantum;
    let mut p = Pace::random_budget(rng, bytes, 800_000_000);
    if bytes <= 4096 {
        match rng.below(6) {
            0 => p.wq = Quantum::Fixed(1),
            1 => p.wq = Quantum::Uniform(1, 4),
            2 => p.wq = Quantum::Fixed(2 + rng.below(40) as usize),
            _ => {}
        }
        if matches!(p.wq, Quantum::Fixed(1) | Quantum::Uniform(1, 4)) && p.gap_pm > 0 { p.gap_ns = p.gap_ns.min(800_000_000 / (bytes as u64 + 1)).max(1); }
    }
    p
}

fn alt_http(p: &Plan) -> HttpPlan {
    let mut h = p.http.clone();
    h.seed = p.alt_seed;
    for (c, pace) in h.clients.iter_mut().zip(p.alt_paces.iter()) { c.pace = pace.clone(); }
    h.clusters[0].backends[0].0.pace = p.alt_backend_pace.clone();
    h.sched = p.alt_sched.clone();
    h.sndbufs = p.alt_sndbufs.clone();
    h
}

// ------------------------------------------------------------------------------------------ oracle

const PROXY_SET: &[&str] = &["x-forwarded-for", "forwarded", "x-forwarded-proto", "x-forwarded-port", "x-request-id", "sozu-id", "x-real-ip", "connection"];

fn decorated(r: &Req) -> bool { r.has("sozu-id") }
fn lossy(b: &[u8]) -> String { show(b) }
fn fnv(b: &[u8]) -> u64 { let mut h = 0xcbf29ce484222325u64; for c in b { h = (h ^ *c as u64).wrapping_mul(0x100000001b3); } h }

pub struct Judged {
    pub v: Vec<Violation>,
    pub digest: Vec<String>,
    pub probes: BTreeMap<String, u64>,
    /// the known finding was observed: derived checks (and the metamorphic comparison) are skipped
    pub f3: bool,
    pub backend_requests: usize,
    pub proxy_answers: usize,
    /// the scripted backend's own (limited) reader refused something and closed: pairing and the
    /// metamorphic comparison say nothing about sozu then
    pub actor_refused: bool,
    pub has_trigger: bool,
}

/// First `x-sim-id: N` anywhere in a byte string (lenient; only used to attribute a connection to a client).
fn lenient_id(raw: &[u8]) -> Option<u64> {
    let low = raw.to_ascii_lowercase();
    let at = low.windows(9).position(|w| w == b"x-sim-id:")?;
    let rest = &raw[at + 9..];
    let digits: Vec<u8> = rest.iter().copied().skip_while(|c| *c == b' ').take_while(|c| c.is_ascii_digit()).collect();
    std::str::from_utf8(&digits).ok()?.parse().ok()
}

/// Plan-level, lenient: does this element's header block name a Content-Length or Transfer-Encoding field at all?
fn names_framing_field(el: &[u8]) -> bool {
    let head = match el.windows(4).position(|w| w == b"\r\n\r\n") { Some(p) => &el[..p], None => el };
    head.split(|c| *c == b'\n').any(|l| { let l = l.to_ascii_lowercase(); l.starts_with(b"content-length:") || l.starts_with(b"transfer-encoding:") })
}

/// Offset in the client's stream just behind the header block of the element that carries `id`.
fn head_end_of_element(c: &ClientPlan, id: u64) -> Option<(usize, bool)> {
    let mut off = 0;
    for r in &c.requests {
        let b = r.render();
        if lenient_id(&b) == Some(id) {
            let he = b.windows(4).position(|w| w == b"\r\n\r\n")? + 4;
            return Some((off + he, names_framing_field(&b)));
        }
        off += b.len();
    }
    None
}

/// Label (operator part) of the plan element of client `ci` that carries `id` (ids of hidden requests and
/// trailer fields map back to their element); falls back to the client's first mutated element.
fn label_of(p: &Plan, http: &HttpPlan, ci: usize, id: Option<u64>) -> String {
    if let (Some(id), Some(c)) = (id, http.clients.get(ci)) {
        let base = id % ID_SPAN;
        let base = if base > 700 { base - 700 } else if base > 500 { base - 500 } else { base };
        if let Some(k) = c.requests.iter().position(|r| r.id % ID_SPAN == base) {
            if let Some(l) = p.labels.get(ci).and_then(|l| l.get(k)) { return l.split('/').next().unwrap_or(l).to_string(); }
        }
    }
    mut_label(p, ci)
}

const TRIGGER_LABEL: &str = "trigger:bytes_after_lengthless_request";

fn mut_label(p: &Plan, ci: usize) -> String {
    p.labels.get(ci).and_then(|l| l.iter().find(|x| !x.starts_with("seed:"))).map(|l| l.split('/').next().unwrap_or(l).to_string()).unwrap_or_else(|| "none".into())
}

/// Header provenance for a backend request matched to the client's request `c`.
fn foreign_lines(b: &Req, c: &Req) -> Option<String> {
    let mut pool: Vec<(Vec<u8>, &[u8], bool)> = c.headers.iter().map(|(n, v)| (n.to_ascii_lowercase(), v.as_slice(), false)).collect();
    for (n, v) in &b.headers {
        let ln = n.to_ascii_lowercase();
        let lns = String::from_utf8_lossy(&ln).to_string();
        if PROXY_SET.contains(&lns.as_str()) || lns == "host" || lns == "content-length" || lns == "transfer-encoding" { continue; }
        if lns == "cookie" { if c.has("cookie") { continue; } return Some(format!("{}: {}", lossy(n), lossy(v))); }
        match pool.iter_mut().find(|(pn, pv, used)| !*used && *pn == ln && *pv == v.as_slice()) {
            Some(e) => e.2 = true,
            None => return Some(format!("{}: {}", lossy(n), lossy(v))),
        }
    }
    for (n, v) in &b.trailers {
        if !c.trailers.iter().any(|(cn, cv)| cn.eq_ignore_ascii_case(n) && cv == v) { return Some(format!("trailer {}: {}", lossy(n), lossy(v))); }
    }
    None
}

fn compare(b: &Req, c: &Req, partial: bool) -> Option<(&'static str, String)> {
    if b.method != c.method { return Some(("method", format!("backend {:?} client {:?}", lossy(&b.method), lossy(&c.method)))); }
    if b.target != c.target { return Some(("target", format!("backend {:?} client {:?}", lossy(&b.target), lossy(&c.target)))); }
    let bh = b.host.clone().unwrap_or_default();
    let ch = c.host.clone().unwrap_or_default();
    if !bh.eq_ignore_ascii_case(&ch) { return Some(("host", format!("backend {:?} client {:?}", lossy(&bh), lossy(&ch)))); }
    if partial {
        if !(c.body.starts_with(&b.body)) { return Some(("body", format!("backend partial body ({} bytes) is not a prefix of the client's body ({} bytes decoded so far)", b.body.len(), c.body.len()))); }
    } else {
        if b.body.len() != c.body.len() { return Some(("body_len", format!("backend {} client {}", b.body.len(), c.body.len()))); }
        if b.body != c.body { let at = b.body.iter().zip(c.body.iter()).position(|(x, y)| x != y).unwrap_or(0); return Some(("body", format!("differs at offset {at}"))); }
    }
    None
}

pub fn judge(p: &Plan, http: &HttpPlan, o: &HttpOutcome) -> Judged {
    let mut j = Judged { v: Vec::new(), digest: Vec::new(), probes: BTreeMap::new(), f3: false, backend_requests: 0, proxy_answers: 0, actor_refused: false, has_trigger: false };
    let probe = |j: &mut Judged, k: String| { *j.probes.entry(k).or_insert(0) += 1; };
    if let Some(pn) = &o.panicked {
        // key = the panic message with numbers blanked
        let mut k = String::new();
        let mut last_digit = false;
        for c in pn.chars().take(90) { if c.is_ascii_digit() { if !last_digit { k.push('N'); } last_digit = true; } else { k.push(if c == ' ' { '_' } else { c }); last_digit = false; } }
        j.v.push(Violation::new("panic", format!("worker:{k}"), pn.clone()));
    }
    if let Some(a) = &o.aborted { j.v.push(Violation::new("hang", format!("run_aborted:{a}"), format!("simulation aborted: {a}"))); }
    let nclients = http.clients.len();
    let full_streams: Vec<Vec<u8>> = http.clients.iter().map(client_stream).collect();
    // R_c reads what the client actually sent (a sequential client stops sending when an answer is missing;
    // sozu closing the connection cuts a pipelining one)
    let streams: Vec<Vec<u8>> = full_streams.iter().enumerate().map(|(ci, s)| s[..o.clients[ci].rec.sent_bytes.min(s.len())].to_vec()).collect();
    let rcs: Vec<Reading> = streams.iter().map(|s| read_stream(s, Mode::Client)).collect();
    let triggers: Vec<Option<usize>> = (0..nclients).map(|ci| lengthless_trigger(&http.clients[ci], &rcs[ci], &streams[ci])).collect();
    // sozu itself refused something on this connection (it may be stricter than R_c): a request it was
    // streaming at that moment legitimately stays partial at the backend
    let refused: Vec<bool> = (0..nclients).map(|ci| o.clients[ci].responses.iter().any(|m| m.sim_id.is_none() && (400..500).contains(&m.status()))).collect();
    let actor_refused = o.backends.iter().flatten().flatten().any(|r| r.parse_error.is_some());
    j.actor_refused = actor_refused;
    if actor_refused { probe(&mut j, "backend_actor_refused_what_sozu_forwarded".into()); }
    j.has_trigger = triggers.iter().any(|t| t.is_some());
    for (ci, rc) in rcs.iter().enumerate() {
        probe(&mut j, format!("rc_stop:{}", match &rc.stop { Stop::End => "clean_end".to_string(), Stop::Incomplete { .. } => "incomplete".into(), Stop::Reject { why, .. } => format!("reject:{why}") }));
        if rc.reqs.iter().chain(rc.tail.iter()).any(|r| !r.norm.is_empty()) { probe(&mut j, "rc_defined_recovery_needed".into()); }
        if triggers[ci].is_some() { probe(&mut j, "plan_has_lengthless_trigger".into()); }
    }
    // ids are allotted per client in blocks of ID_SPAN (hidden requests: +500, trailer ids: +700)
    let owner_of = |id: Option<u64>| -> Option<usize> { id.and_then(|i| http.clients.iter().position(|c| c.requests.iter().any(|r| r.id / ID_SPAN == i / ID_SPAN))) };

    // ---------------- backend side: strict reading of every connection
    let mut tainted = vec![false; nclients];
    let mut not_strict = false;
    // per client: backend requests carrying one of its ids, in connection order; bool = complete
    let mut seen: Vec<Vec<(Req, bool)>> = vec![Vec::new(); nclients];
    let mut anon: Vec<Req> = Vec::new();
    let mut conn_digests: Vec<(u64, String)> = Vec::new();
    let recs: Vec<&BackConnRecord> = o.backends.iter().flatten().flatten().collect();
    // a backend that was left with an incomplete request cannot answer: sozu's back_timeout (504) is then the
    // expected outcome of a client that stopped sending, not an answer to malformed input
    let backend_left_waiting = recs.iter().any(|r| matches!(read_stream(&r.raw_in, Mode::Backend).stop, Stop::Incomplete { .. }));
    for rec in &recs {
        if rec.raw_in_total as usize != rec.raw_in.len() { j.v.push(Violation::new("harness", "raw_in_truncated", "backend stream longer than the recorded 1 MiB".to_string())); }
        let rb = read_stream(&rec.raw_in, Mode::Backend);
        let items: Vec<(&Req, bool)> = rb.reqs.iter().map(|r| (r, true)).chain(rb.tail.iter().map(|r| (r, false))).collect();
        let owner = items.iter().find_map(|(r, _)| owner_of(r.id)).or_else(|| owner_of(lenient_id(&rec.raw_in)));
        j.backend_requests += rb.reqs.len();
        let mut d = String::new();
        // (a request that sozu streams while it is still reading it may or may not have started to reach the
        // backend when sozu hits the malformed byte: only complete requests are schedule-independent)
        for (r, complete) in &items { if *complete { d += &format!("[{} {} host={} id={:?} body={}:{:x}]", lossy(&r.method), lossy(&r.target), lossy(&r.host.clone().unwrap_or_default()), r.id, r.body.len(), fnv(&r.body)); } }
        if let Stop::Reject { why, .. } = &rb.stop { d += &format!("reject:{why}"); }
        if !d.is_empty() { conn_digests.push((items.first().and_then(|(r, _)| r.id).unwrap_or(u64::MAX), d)); }
        // first position where the stream stops being "a sequence of requests sozu itself wrote"
        let first_undecorated = items.iter().position(|(r, _)| !decorated(r));
        let (bad_pos, bad_what): (Option<usize>, String) = match (first_undecorated, &rb.stop) {
            (Some(i), _) => (Some(items[i].0.start), "undecorated_request".into()),
            (None, Stop::Reject { why, .. }) => (Some(rb.tail.as_ref().map(|t| t.start).unwrap_or_else(|| rb.reqs.last().map_or(0, |r| r.end))), format!("reject:{why}")),
            // a head sozu had only partly written when it gave up on the request (short write, then 4xx to the
            // client and close): harmless if the client was cut / refused and nothing follows
            (None, Stop::Incomplete { at }) if rb.tail.is_none() && !(rec.eof && {
                let excused = |ci: usize| rcs[ci].stop != Stop::End || refused[ci];
                match owner {
                    Some(ci) => excused(ci),
                    // too short to carry an id: attribute it by its first line
                    None => { let part = &rec.raw_in[*at..]; let first = part.split(|c| *c == b'\r').next().unwrap_or(part); (0..nclients).any(|ci| excused(ci) && !first.is_empty() && streams[ci].windows(first.len()).any(|w| w == first)) }
                }
            } && !rb.reqs.last().map_or(false, |r| r.lengthless())) => (Some(*at), "partial_head".into()),
            _ => (None, String::new()),
        };
        // once a client's requests and the backend's reading have parted, everything further down that
        // client's stream is derived garbage: only the first disagreement is reported
        if owner.map_or(false, |ci| tainted[ci]) { continue; }
        if let Some(pos) = bad_pos {
            // is this the known finding? the bytes at `pos` follow a forwarded length-less request and are
            // the client's own next bytes, verbatim
            let prev = rb.reqs.iter().filter(|r| r.end <= pos).last();
            // were the bytes at `pos` written by sozu at all? If everything behind the header block of the
            // previous (decorated) request, up to and beyond `pos`, is the client's own byte stream verbatim,
            // sozu forwarded bytes it never parsed as a request.
            let mut verbatim: Option<&'static str> = None;
            if let (Some(prev), Some(ci)) = (prev, owner) {
                if decorated(prev) && prev.end == pos {
                    if let Some((he, named)) = prev.id.and_then(|id| head_end_of_element(&http.clients[ci], id)) {
                        let rest = &rec.raw_in[prev.head_end..];
                        let cl = &streams[ci][he.min(streams[ci].len())..];
                        let lcp = rest.iter().zip(cl.iter()).take_while(|(a, b)| a == b).count();
                        let k = pos - prev.head_end;
                        // a request written by sozu starts like the client's own (request line, first lines) but differs
                        // before the blank line (sozu's own lines are added in front of it). Verbatim client bytes run
                        // through a whole header block, or to the end of what the client sent, or (behind a request
                        // forwarded without framing fields) to the end of what the backend received.
                        let next_blank = cl.get(k..).and_then(|x| x.windows(4).position(|w| w == b"\r\n\r\n")).map(|i| k + i + 4);
                        // (d) what stands at `pos` is refused by the strict reader and is not a header block written by
                        // sozu (no Sozu-Id line before its blank line) while it continues the client's bytes
                        let tail = &rec.raw_in[pos..];
                        let block = &tail[..tail.windows(4).position(|w| w == b"\r\n\r\n").unwrap_or(tail.len())];
                        let written_by_sozu = block.to_ascii_lowercase().windows(10).any(|w| w == b"\r\nsozu-id:");
                        let refused_garbage = bad_what.starts_with("reject:") && !written_by_sozu;
                        if lcp > k && (lcp == cl.len() || next_blank.map_or(false, |e| lcp >= e) || (prev.lengthless() && lcp == rest.len()) || refused_garbage) {
                            verbatim = Some(if prev.lengthless() && !named { "known" } else { "other" });
                        }
                    }
                }
            }
            if let Some(kind) = verbatim {
                let ci = owner.unwrap();
                tainted[ci] = true;
                let key = if kind == "known" { j.f3 = true; probe(&mut j, "known_trigger_observed".into()); "trigger=bytes_after_lengthless_request".to_string() } else { not_strict = true; format!("trigger=other|mut={}", if triggers[ci].is_some() { TRIGGER_LABEL.to_string() } else { label_of(p, http, ci, prev.and_then(|r| r.id)) }) };
                j.v.push(Violation::new("forwarded_unparsed_request", key, format!("backend conn {} (mutation {}): behind the header block of the forwarded request id={:?} ({}) the backend received the client's following bytes verbatim, undecorated — sozu never parsed them as a request: {:?}", rec.idx, mut_label(p, ci), prev.and_then(|r| r.id), if prev.map_or(false, |r| r.lengthless()) { "forwarded without Content-Length / Transfer-Encoding" } else { "framing fields forwarded as received" }, show(&rec.raw_in[pos..]))));
                continue;
            }
            not_strict = true;
            if let Some(ci) = owner { tainted[ci] = true; } else { for t in tainted.iter_mut() { *t = true; } }
            let bad_id = items.iter().find(|(r, _)| r.start >= pos).and_then(|(r, _)| r.id).or_else(|| lenient_id(&rec.raw_in[pos.min(rec.raw_in.len())..]));
            let label = owner.map(|ci| if triggers[ci].is_some() { TRIGGER_LABEL.to_string() } else { label_of(p, http, ci, bad_id) }).unwrap_or_else(|| "unknown".into());
            if bad_what == "undecorated_request" {
                j.v.push(Violation::new("forwarded_unparsed_request", format!("trigger=other|mut={label}"), format!("backend conn {} received a request without sozu's own header lines (Sozu-Id / X-Forwarded-*): sozu never parsed it as a request. At offset {pos}: {:?}", rec.idx, show(&rec.raw_in[pos..]))));
            } else {
                let at = match &rb.stop { Stop::Reject { at, .. } => *at, Stop::Incomplete { at } => *at, _ => pos };
                // a partial head that is, to its last byte, the client's own bytes behind the previous forwarded request: the
                // plan-level trigger is the mutation of that previous request (sozu may have passed the bytes through without
                // parsing them - the recorded `forwarded_unparsed_request` family - and was cut when the response completed),
                // not the mutation of the request whose head happens to be cut
                let mut label = label;
                if bad_what == "partial_head" && !triggers.get(owner.unwrap_or(usize::MAX)).map_or(false, |t| t.is_some()) {
                    if let (Some(prev), Some(ci)) = (prev, owner) {
                        if decorated(prev) && prev.end == pos {
                            if let Some((he, _)) = prev.id.and_then(|id| head_end_of_element(&http.clients[ci], id)) {
                                let rest = &rec.raw_in[prev.head_end..];
                                let cl = &streams[ci][he.min(streams[ci].len())..];
                                if rest.len() <= cl.len() && rest == &cl[..rest.len()] { label = label_of(p, http, ci, prev.id); }
                            }
                        }
                    }
                }
                j.v.push(Violation::new("backend_stream_not_strict", format!("{}|mut={label}", bad_what.trim_start_matches("reject:")), format!("backend conn {} (mutation {label}): strict reader stops at offset {at} ({bad_what}); request starts {:?}; at the stop: {:?}", rec.idx, show(&rec.raw_in[pos..]), show(&rec.raw_in[at.min(rec.raw_in.len())..]))));
            }
            continue;
        }
        // leftover partial request (head complete, body not): only if the client itself was cut / rejected
        if let (Stop::Incomplete { .. }, Some(t)) = (&rb.stop, &rb.tail) {
            // ... or sozu itself refused the request it was streaming (it may be stricter than R_c)
            let ok = owner.map_or(false, |ci| rcs[ci].stop != Stop::End || refused[ci]);
            if !ok {
                not_strict = true;
                if let Some(ci) = owner { tainted[ci] = true; }
                j.v.push(Violation::new("backend_stream_not_strict", "leftover_partial_request", format!("backend conn {}: stream ends inside request id={:?} ({} body bytes) although the client's stream is complete and valid", rec.idx, t.id, t.body.len())));
                continue;
            }
        }
        for (r, complete) in items {
            match owner_of(r.id) { Some(ci) => seen[ci].push((r.clone(), complete)), None => anon.push(r.clone()) }
        }
    }
    conn_digests.sort();
    for (_, d) in conn_digests { j.digest.push(format!("B {d}")); }

    // ---------------- client side
    let mut all_200_ids: Vec<u64> = Vec::new();
    for ci in 0..nclients {
        let oc = &o.clients[ci];
        let rc = &rcs[ci];
        // every symptom on a connection that carries the known trigger is keyed by the trigger
        let label = if triggers[ci].is_some() { TRIGGER_LABEL.to_string() } else { mut_label(p, ci) };
        let reject = match &rc.stop { Stop::End => "none".to_string(), Stop::Incomplete { .. } => "incomplete".into(), Stop::Reject { why, .. } => why.clone() };
        // "4xx answer then close" and "close" are the same outcome here: trailing proxy answers are dropped
        let mut seq: Vec<String> = oc.responses.iter().chain(oc.partial.iter()).map(|m| format!("{}:{:?}", m.status(), m.sim_id)).collect();
        while seq.last().map_or(false, |l| l.ends_with(":None") && l.starts_with('4')) { seq.pop(); }
        j.digest.push(format!("C{ci} {}", seq.join(" ")));
        if let Some(e) = &oc.rec.parse_error {
            // (observed: sozu's own 4xx answer started again from its first byte after a short write — a C02 matter)
            let key = if e.contains("HTTP/1.1 4") { "proxy_answer_restarted_mid_write".to_string() } else { format!("client_parse|mut={label}") };
            j.v.push(Violation::new("malformed_response", key, format!("client {ci} (mutation {label}): the response stream is not HTTP: {e}")));
        }
        if oc.rec.gave_up { j.v.push(Violation::new("hang", format!("no_terminal_observation|reject={reject}"), format!("client {ci} (mutation {label}): neither all answers nor a close within {} virtual seconds; got {} responses", http.clients[ci].give_up_ns / SEC, oc.responses.len()))); }
        let ok_ids: Vec<u64> = oc.responses.iter().filter(|m| m.status() == 200 && m.sim_id.is_some() && m.complete).map(|m| m.sim_id.unwrap()).collect();
        all_200_ids.extend(ok_ids.iter().copied());
        // (4) sozu's own answers
        let head_too_big = rc.reqs.iter().chain(rc.tail.iter()).any(|r| (r.head_end - r.start) as u64 + 64 >= http.knobs.buffer_size) || matches!(rc.stop, Stop::Incomplete { .. } | Stop::Reject { .. }) && streams[ci].len() as u64 + 64 >= http.knobs.buffer_size;
        for m in oc.responses.iter().filter(|m| m.sim_id.is_none()) {
            j.proxy_answers += 1;
            let s = m.status();
            probe(&mut j, format!("proxy_answer:{s}"));
            let fine = [400u16, 404, 408, 411, 413, 414, 417, 421, 426, 431, 501, 505].contains(&s) || (s == 507 && head_too_big) || (s == 504 && (matches!(rc.stop, Stop::Incomplete { .. }) || backend_left_waiting));
            if fine || tainted[ci] || not_strict { continue; }
            if s >= 500 && actor_refused { probe(&mut j, "5xx_because_backend_actor_refused".into()); continue; }
            if s >= 500 { j.v.push(Violation::new("malformed_got_5xx", format!("status={s}|reject={reject}"), format!("client {ci} (mutation {label}): sozu answered {s} {:?}", m.start))); }
            else { j.v.push(Violation::new("unexpected_proxy_status", format!("status={s}|reject={reject}"), format!("client {ci} (mutation {label}): sozu answered {:?}", m.start))); }
        }
        if tainted[ci] { continue; }
        // (2) prefix-respecting match of what the backend saw against R_c
        let s = &seen[ci];
        let mut bad = false;
        for (i, (b, complete)) in s.iter().enumerate() {
            if i < rc.reqs.len() {
                let c = &rc.reqs[i];
                if b.id != c.id { j.v.push(Violation::new("boundary_disagreement", format!("field=order|mut={label}"), format!("client {ci}: backend request #{i} has id {:?}, the client's request #{i} is id {:?}", b.id, c.id))); bad = true; break; }
                if !*complete {
                    // sozu streamed a valid request only partly: allowed only if the connection was cut later on
                    if rc.stop == Stop::End && !refused[ci] { j.v.push(Violation::new("boundary_disagreement", format!("field=truncated|mut={label}"), format!("client {ci}: request id {:?} complete at the client, partial at the backend", c.id))); bad = true; break; }
                    if let Some((f, why)) = compare(b, c, true) { j.v.push(Violation::new("boundary_disagreement", format!("field={f}|mut={label}"), format!("client {ci} request id {:?}: {why}", c.id))); bad = true; break; }
                    continue;
                }
                if let Some((f, why)) = compare(b, c, false) { j.v.push(Violation::new("boundary_disagreement", format!("field={f}|mut={label}"), format!("client {ci} request id {:?} ({}): {why}", c.id, p.labels[ci].get(i).cloned().unwrap_or_default()))); bad = true; break; }
                if let Some(l) = foreign_lines(b, c) { j.v.push(Violation::new("foreign_header_line", format!("mut={label}"), format!("client {ci} request id {:?}: backend header line {l:?} is neither one of the client's lines for this request nor proxy-added", c.id))); bad = true; break; }
                if !c.norm.is_empty() { probe(&mut j, format!("forwarded_normalised:{}", c.norm.join("+"))); }
            } else {
                // beyond R_c's valid prefix
                if rc.stop == Stop::End {
                    j.v.push(Violation::new("boundary_disagreement", format!("field=extra_request|mut={label}"), format!("client {ci} sent {} requests (valid, complete stream); the backend saw one more: {} {} id={:?}", rc.reqs.len(), lossy(&b.method), lossy(&b.target), b.id)));
                    bad = true; break;
                }
                // the request in progress at the stop: same head, body a prefix of what was decodable
                if i == rc.reqs.len() {
                    if let Some(t) = &rc.tail {
                        if b.id == t.id {
                            if matches!(rc.stop, Stop::Incomplete { .. }) && *complete {
                                j.v.push(Violation::new("boundary_disagreement", format!("field=completed_cut_request|mut={label}"), format!("client {ci}: the client's last request id {:?} was cut ({} body bytes sent) but the backend received it as complete ({} bytes)", t.id, t.body.len(), b.body.len())));
                                bad = true; break;
                            }
                            if !*complete {
                                if let Some((f, why)) = compare(b, t, true) { j.v.push(Violation::new("boundary_disagreement", format!("field={f}|mut={label}"), format!("client {ci} request id {:?} (in progress at the stop): {why}", t.id))); bad = true; break; }
                                probe(&mut j, "partial_forward_of_request_in_progress".into());
                                continue;
                            }
                        }
                    }
                }
                if !*complete { probe(&mut j, "partial_forward_after_reject_point".into()); continue; }
                // forwarded although at/after the reject point: must be a normalised request that the client got a 200 for
                probe(&mut j, format!("forwarded_after_reject_point:{reject}"));
                let lenient: Vec<(Vec<u8>, Vec<u8>)> = streams[ci].split(|c| *c == b'\n').filter_map(|l| { let l = l.strip_suffix(b"\r").unwrap_or(l); l.iter().position(|c| *c == b':').map(|k| (l[..k].to_ascii_lowercase(), l[k + 1..].to_vec())) }).collect();
                for (n, v) in &b.headers {
                    let ln = n.to_ascii_lowercase();
                    let lns = String::from_utf8_lossy(&ln).to_string();
                    if PROXY_SET.contains(&lns.as_str()) || ["host", "content-length", "transfer-encoding", "cookie"].contains(&lns.as_str()) { continue; }
                    let trimmed = |x: &[u8]| -> Vec<u8> { let mut x = x; while let [b' ' | b'\t', r @ ..] = x { x = r; } while let [r @ .., b' ' | b'\t'] = x { x = r; } x.to_vec() };
                    if !lenient.iter().any(|(cn, cv)| *cn == ln && trimmed(cv) == *v) {
                        j.v.push(Violation::new("foreign_header_line", format!("after_reject|mut={label}"), format!("client {ci}: backend request id {:?} carries {:?}: {:?} which is no line of the client's stream", b.id, lossy(n), lossy(v))));
                        bad = true;
                    }
                }
                if bad { break; }
            }
        }
        if bad { continue; }
        // requests R_c predicted that never reached the backend: sozu was stricter (allowed) — note it
        let forwarded = s.iter().filter(|(_, c)| *c).count();
        if forwarded < rc.reqs.len() {
            let first_missing = &rc.reqs[forwarded];
            let sozu_said = oc.responses.iter().find(|m| m.sim_id.is_none()).map(|m| m.status());
            // element of the plan the first unforwarded valid request starts in
            let mut off = 0;
            let mut el = "?".to_string();
            for (k, r) in http.clients[ci].requests.iter().enumerate() { let n = r.render().len(); if first_missing.start < off + n { el = p.labels.get(ci).and_then(|l| l.get(k)).cloned().unwrap_or_default(); break; } off += n; }
            if !rc.reqs[..forwarded].iter().any(|r| r.last) { probe(&mut j, format!("valid_request_not_forwarded:{}:{}", el.split('/').next().unwrap_or(""), sozu_said.map_or("closed".to_string(), |s| s.to_string()))); }
        }
        // pairing: every complete backend request <-> one 200 with the same id, in order
        let b_ids: Vec<u64> = s.iter().filter(|(_, c)| *c).map(|(r, _)| r.id.unwrap_or(u64::MAX)).collect();
        let c_ids: Vec<u64> = ok_ids.iter().copied().filter(|i| owner_of(Some(*i)) == Some(ci)).collect();
        if b_ids != c_ids && !actor_refused {
            let beyond = b_ids.len() > rc.reqs.len() || matches!(rc.stop, Stop::Reject { .. });
            let (class, key) = if beyond { ("forwarded_after_reject_point", format!("unpaired|reject={reject}")) } else { ("boundary_disagreement", format!("field=pairing|mut={label}")) };
            j.v.push(Violation::new(class, key, format!("client {ci} (mutation {label}): backend saw complete requests with ids {b_ids:?}; the client received 200 answers with ids {c_ids:?}; all responses: {:?}", oc.responses.iter().map(|m| (m.status(), m.sim_id)).collect::<Vec<_>>())));
        }
    }
    // requests without a usable id
    if !tainted.iter().any(|t| *t) {
        let anon_b = anon.len();
        let anon_c = all_200_ids.iter().filter(|i| owner_of(Some(**i)).is_none()).count();
        if anon_b != anon_c && !actor_refused { j.v.push(Violation::new("forwarded_after_reject_point", "unpaired_anonymous", format!("backend saw {anon_b} complete requests without a client id, clients received {anon_c} 200 answers without one; first: {:?}", anon.first().map(|r| (lossy(&r.method), lossy(&r.target)))))); }
        if anon_b > 0 { probe(&mut j, "anonymous_request_forwarded".into()); }
    }
    j
}

pub fn summarize(p: &Plan) -> String {
    let mut s = format!("{} buf={} ", p.http.family, p.http.knobs.buffer_size);
    for (ci, c) in p.http.clients.iter().enumerate() {
        s += &format!("[{} {}{:?} gap{}‰ | alt {:?}: {}] ", c.name, if c.pipeline { "pipelined " } else { "sequential " }, c.pace.wq, c.pace.gap_pm, p.alt_paces.get(ci).map(|a| a.wq.clone()), p.labels.get(ci).map(|l| l.join(" + ")).unwrap_or_default());
    }
    s += &format!("sched(trunc={} perm={} preempt={} short={} eagain={})", p.http.sched.ev_truncate_pm, p.http.sched.ev_permute_pm, p.http.sched.preempt_pm, p.http.sched.short_write_pm, p.http.sched.eagain_pm);
    s
}

fn keep_labels_in_sync(p: &Plan, h: HttpPlan) -> Option<Plan> {
    // `h` was derived from p.http by dropping clients / requests: rebuild labels and alt paces by name / id
    let mut q = p.clone();
    let mut labels = Vec::new();
    let mut alt = Vec::new();
    for c in &h.clients {
        let ci = p.http.clients.iter().position(|x| x.name == c.name)?;
        let mut l = Vec::new();
        for r in &c.requests {
            let ri = p.http.clients[ci].requests.iter().position(|x| x.id == r.id)?;
            l.push(p.labels[ci][ri].clone());
        }
        labels.push(l);
        alt.push(p.alt_paces[ci].clone());
    }
    q.http = h;
    q.labels = labels;
    q.alt_paces = alt;
    Some(q)
}

impl Property for C03 {
    fn id(&self) -> &'static str { "C03" }
    fn runs(&self, tier: Tier) -> u64 { match tier { Tier::Quick => 12000, Tier::Thorough => 250000 } }
    fn gen_plan(&self, seed: u64, tier: Tier) -> Value {
        // one plan in ten: early response / backend loss during an upload whose remaining body bytes spell requests (c03_early.rs)
        // (SIMK_C03_FAMILY=early: development aid, every seed goes to that family)
        if Prng::derive(seed, "c03/family-early").below(10) == 0 || std::env::var("SIMK_C03_FAMILY").map_or(false, |f| f == "early") { return serde_json::to_value(super::c03_early::generate(seed, tier)).unwrap(); }
        // one plan in eight: HTTP/2 request whose content-length disagrees with its DATA frames (c03_h2.rs)
        if Prng::derive(seed, "c03/family").below(8) == 0 { return serde_json::to_value(super::c03_h2::generate(seed, tier)).unwrap(); }
        serde_json::to_value(generate(seed, tier)).unwrap()
    }
    fn run_plan(&self, plan: &Value) -> RunReport {
        if plan.get("early").is_some() {
            return match serde_json::from_value::<super::c03_early::EarlyPlan>(plan.clone()) { Ok(p) => super::c03_early::run(&p, false).0, Err(e) => RunReport { harness_error: Some(format!("bad plan: {e}")), ..Default::default() } };
        }
        if plan.get("mux").is_some() {
            return match serde_json::from_value::<super::c03_h2::H2ClPlan>(plan.clone()) { Ok(p) => super::c03_h2::run(&p, false).0, Err(e) => RunReport { harness_error: Some(format!("bad plan: {e}")), ..Default::default() } };
        }
        let p: Plan = match serde_json::from_value(plan.clone()) { Ok(p) => p, Err(e) => return RunReport { harness_error: Some(format!("bad plan: {e}")), ..Default::default() } };
        if std::env::var("SIMK_C03_DEBUG").is_ok() { eprintln!("{}", self.debug_plan(plan)); }
        let oa = run_http(&p.http, false);
        let ha = alt_http(&p);
        let ob = run_http(&ha, false);
        let ja = judge(&p, &p.http, &oa);
        let jb = judge(&p, &ha, &ob);
        let mut violations = ja.v.clone();
        for v in &jb.v { if !violations.iter().any(|x| x.class == v.class && x.key == v.key) { violations.push(v.clone()); } }
        let mut probes = ja.probes.clone();
        for (k, n) in &jb.probes { *probes.entry(k.clone()).or_insert(0) += n; }
        // (5) metamorphic: same bytes, other segmentation / schedule => same backend requests, same statuses
        let root_caused = violations.iter().any(|v| ["panic", "hang", "backend_stream_not_strict", "forwarded_unparsed_request", "harness"].contains(&v.class.as_str()));
        if !ja.f3 && !jb.f3 && !root_caused && !ja.actor_refused && !jb.actor_refused {
            *probes.entry("metamorphic_pairs_compared".into()).or_insert(0) += 1;
            if ja.digest != jb.digest {
                let what = ja.digest.iter().zip(jb.digest.iter()).find(|(a, b)| a != b).map(|(a, b)| format!("{a}  <>  {b}")).unwrap_or_else(|| format!("{} vs {} lines", ja.digest.len(), jb.digest.len()));
                let side = if what.starts_with('B') || ja.digest.len() != jb.digest.len() { "backend_requests" } else { "client_statuses" };
                // the connection the first differing digest line belongs to
                let differing: Vec<&String> = ja.digest.iter().zip(jb.digest.iter()).find(|(a, b)| a != b).map(|(a, b)| vec![a, b]).unwrap_or_else(|| ja.digest.iter().chain(jb.digest.iter()).collect::<Vec<_>>().into_iter().rev().take(1).collect());
                let line_owner = |l: &str| -> Option<usize> {
                    if let Some(rest) = l.strip_prefix('C') { return rest.split(' ').next().and_then(|n| n.parse().ok()); }
                    let at = l.find("id=Some(")?;
                    let id: u64 = l[at + 8..].chars().take_while(|c| c.is_ascii_digit()).collect::<String>().parse().ok()?;
                    p.http.clients.iter().position(|c| c.requests.iter().any(|r| r.id / ID_SPAN == id / ID_SPAN))
                };
                let label = differing.iter().find_map(|l| line_owner(l)).map(|ci| mut_label(&p, ci)).filter(|l| l != "none").unwrap_or_else(|| (0..p.http.clients.len()).map(|ci| mut_label(&p, ci)).find(|l| l != "none").unwrap_or_else(|| "none".into()));
                // plan-level: a large header block that is not the first thing a pipelining client sends. Whether it
                // still fits sozu's per-connection buffer then depends on how much of the preceding request is
                // still in that buffer — a capacity effect, kept under its own key
                let capacity = p.http.clients.iter().any(|c| c.pipeline && c.requests.iter().skip(1).any(|r| { let b = r.render(); b.windows(4).position(|w| w == b"\r\n\r\n").unwrap_or(b.len()) as u64 * 4 >= p.http.knobs.buffer_size }));
                let label = if ja.has_trigger || jb.has_trigger { TRIGGER_LABEL.to_string() } else if capacity { "capacity:large_head_behind_pipelined_request".to_string() } else { label };
                violations.push(Violation::new("segmentation_dependent", format!("{side}|mut={label}"), format!("the same client byte streams, delivered under two segmentations/schedules, gave different outcomes: {what}")));
            }
        }
        // A plan that carries the known trigger shows the defect through many symptoms (verbatim bytes at the
        // backend, a byte of the swallowed request lost, 400/408/504 for the leftovers, schedule-dependent
        // outcome ...): all are reported under the one class/key of the trigger; the symptom stays in the detail.
        if ja.has_trigger || jb.has_trigger {
            let mut collapsed: Vec<Violation> = Vec::new();
            for v in violations.drain(..) {
                let v = if ["panic", "hang", "harness"].contains(&v.class.as_str()) || v.class == "forwarded_unparsed_request" && v.key == "trigger=bytes_after_lengthless_request" { v } else {
                    Violation::new("forwarded_unparsed_request", "trigger=bytes_after_lengthless_request", format!("[symptom {} / {}] {}", v.class, v.key, v.detail))
                };
                if !collapsed.iter().any(|x| x.class == v.class && x.key == v.key) { collapsed.push(v); }
            }
            violations = collapsed;
        }
        let mut th = TraceHash::new();
        th.mix(oa.trace_hash); th.mix(ob.trace_hash);
        for l in ja.digest.iter().chain(jb.digest.iter()) { th.mix_bytes(l.as_bytes()); }
        for v in &violations { th.mix_bytes(v.class.as_bytes()); th.mix_bytes(v.key.as_bytes()); }
        let mut stats = oa.stats.clone();
        stats.add(&ob.stats);
        let mut rep = RunReport { seed: p.http.seed, family: p.http.family.clone(), violations, trace_hash: th.0, stats, summary: summarize(&p), ..Default::default() };
        rep.nontrivial = ja.backend_requests + ja.proxy_answers > 0 && jb.backend_requests + jb.proxy_answers > 0;
        for l in p.labels.iter().flatten() { *probes.entry(format!("element:{}", l.split('/').next().unwrap_or(l))).or_insert(0) += 1; }
        probes.insert("backend_requests_strictly_read".into(), (ja.backend_requests + jb.backend_requests) as u64);
        rep.probes = probes;
        if let Some(e) = oa.boot_error.or(ob.boot_error) { rep.harness_error = Some(format!("worker boot failed: {e}")); }
        if oa.config_finals.values().any(|n| *n != 1) { rep.harness_error = Some("configuration command without exactly one final answer".into()); }
        rep
    }
    fn shrink(&self, plan: &Value) -> Vec<Value> {
        if plan.get("early").is_some() { return serde_json::from_value::<super::c03_early::EarlyPlan>(plan.clone()).map(|p| super::c03_early::shrink(&p).into_iter().map(|q| serde_json::to_value(q).unwrap()).collect()).unwrap_or_default(); }
        if plan.get("mux").is_some() { return vec![]; }
        let Ok(p) = serde_json::from_value::<Plan>(plan.clone()) else { return vec![] };
        let mut out: Vec<Plan> = Vec::new();
        // drop clients / elements, simplify schedules and pacing (labels kept in sync)
        for h in c01::shrink_http(&p.http) {
            if h.clients.is_empty() { continue; }
            if let Some(q) = keep_labels_in_sync(&p, h) { out.push(q); }
        }
        // second delivery := first delivery with greedy pacing / default schedule
        let mut q = p.clone();
        q.alt_paces = q.alt_paces.iter().map(|_| Pace::greedy()).collect();
        q.alt_backend_pace = Pace::greedy();
        q.alt_sched = SchedCfg::default();
        q.alt_sndbufs = None;
        out.push(q);
        let mut q = p.clone();
        for c in q.http.clients.iter_mut() { c.pace = Pace::greedy(); c.sndbuf = None; c.start_ns = 1000; }
        q.http.sched = SchedCfg::default();
        q.http.sndbufs = None;
        out.push(q);
        // drop one header line / shorten the body text of one element
        for ci in 0..p.http.clients.len() {
            for ri in 0..p.http.clients[ci].requests.len() {
                let Some(raw) = p.http.clients[ci].requests[ri].raw.clone() else { continue };
                let Some(he) = raw.windows(4).position(|w| w == b"\r\n\r\n") else { continue };
                let head = &raw[..he];
                let mut starts = vec![0usize];
                for (i, w) in head.windows(2).enumerate() { if w == b"\r\n" { starts.push(i + 2); } }
                if starts.len() > 40 { continue; }
                for li in 1..starts.len() {
                    let s = starts[li];
                    let e = if li + 1 < starts.len() { starts[li + 1] } else { he + 2 };
                    let line = &raw[s..e.min(raw.len())];
                    let low = line.to_ascii_lowercase();
                    if low.starts_with(b"x-sim-id") { continue; }
                    let mut nr = raw[..s].to_vec();
                    nr.extend_from_slice(&raw[e.min(raw.len())..]);
                    let mut q = p.clone();
                    q.http.clients[ci].requests[ri].raw = Some(nr);
                    out.push(q);
                }
            }
        }
        out.into_iter().map(|q| serde_json::to_value(q).unwrap()).collect()
    }
    fn debug_plan(&self, plan: &Value) -> String {
        if plan.get("early").is_some() { let p: super::c03_early::EarlyPlan = serde_json::from_value(plan.clone()).unwrap(); return super::c03_early::run(&p, true).1; }
        if plan.get("mux").is_some() { let p: super::c03_h2::H2ClPlan = serde_json::from_value(plan.clone()).unwrap(); return super::c03_h2::run(&p, true).1; }
        let p: Plan = serde_json::from_value(plan.clone()).unwrap();
        let mut s = format!("{}\n", summarize(&p));
        for (ci, c) in p.http.clients.iter().enumerate() {
            let st = client_stream(c);
            let rc = read_stream(&st, Mode::Client);
            s += &format!("client {ci} stream ({} bytes): {:?}\n  R_c: {} requests, tail={:?}, stop={:?}\n", st.len(), show(&st), rc.reqs.len(), rc.tail.as_ref().map(|t| t.id), rc.stop);
            for r in &rc.reqs { s += &format!("    {} {} host={:?} id={:?} framing={:?} body={} norm={:?} last={}\n", lossy(&r.method), lossy(&r.target), r.host.as_ref().map(|h| lossy(h)), r.id, r.framing, r.body.len(), r.norm, r.last); }
        }
        for (which, h) in [("A", p.http.clone()), ("B", alt_http(&p))] {
            let o = run_http(&h, std::env::var("SIMK_LOG").is_ok());
            s += &format!("---- delivery {which}\n");
            for l in &o.log { s += l; s.push('\n'); }
            for (i, c) in o.clients.iter().enumerate() {
                s += &format!("client {i}: sent={} recv={} eof={} err={:?} gave_up={}\n", c.rec.sent_bytes, c.rec.recv_bytes, c.rec.eof, c.rec.io_err, c.rec.gave_up);
                for m in c.responses.iter().chain(c.partial.iter()) { s += &format!("  response {:?} id={:?} complete={} body={:?}\n", m.start, m.sim_id, m.complete, String::from_utf8_lossy(&m.body_head[..m.body_head.len().min(60)])); }
            }
            for r in o.backends.iter().flatten().flatten() {
                let rb = read_stream(&r.raw_in, Mode::Backend);
                s += &format!("backend conn {}: {} bytes eof={} closed_by_us={} actor_parse_error={:?}\n  raw: {:?}\n  R_b: {} requests tail={:?} stop={:?}\n", r.idx, r.raw_in.len(), r.eof, r.closed_by_us, r.parse_error, show_long(&r.raw_in), rb.reqs.len(), rb.tail.as_ref().map(|t| t.id), rb.stop);
            }
            let jd = judge(&p, &h, &o);
            for d in &jd.digest { s += &format!("  digest {d}\n"); }
            for v in &jd.v { s += &format!("  VIOLATION {} / {} : {}\n", v.class, v.key, v.detail); }
            s += &format!("panicked={:?} aborted={:?}\n", o.panicked, o.aborted);
        }
        s
    }
    fn descr(&self) -> Descr {
        Descr {
            level: "exploration",
            rule: "seeded plans: 1-2 clients (own connections, shared backend) each send a byte stream of 1-4 elements from a grammar: valid seeds (GET/HEAD/OPTIONS/DELETE/POST/PUT/PATCH, Content-Length and chunked bodies incl. trailers, absolute-form, Expect: 100-continue, cookies, complete requests hidden inside CL / chunked bodies) with, in 6 plans of 8, one element per connection replaced by one of 104 mutation operators (20 Content-Length, 31 Transfer-Encoding variants x 5 body shapes incl. classic CL.TE / TE.CL with a hidden request, 15 chunk-syntax, 16 target/Host, 10 request-line, 9 header-block, 3 connection tricks) or one of the 13 attack strings of e2e h1_security_tests; 1 plan in 8 is all valid; 1 plan in 8 carries the known trigger (bytes sent right behind a request without Content-Length/Transfer-Encoding) and the generator cuts every other stream so that it does not. Every plan is delivered twice with the same bytes: different write quanta (1 byte .. everything), pauses, socket buffer sizes, epoll truncation/permutation, preemption points and injected short writes/EAGAIN, pipelined or sequential, over kept-alive backend connections. One plan in ten is of the family early_response (c03_early.rs): one upload by Content-Length or chunked, HTTP/1.1 or HTTP/2-over-TLS frontend, whose HTTP/1.1 backend answers (any status; keep-alive, announced close, silent close) or dies once it has read the head plus k body bytes, while the body bytes still to come spell one or two complete requests with marker paths; the client sends the rest after the answer, regardless of it, or (HTTP/2) resets the stream, then a genuine follow-up; non-trivial there = the backend acted before the end of the request. Non-trivial = in both deliveries at least one request reached the backend or sozu answered itself; distinct = distinct (trace hashes of both deliveries + outcome digests)",
            assumptions: vec!["AF_UNIX stream sockets stand in for TCP", "release semantics (debug assertions off)", "the reference reader implements RFC 9112 §2-7 / RFC 9110 §5, §8.6 as written; where the RFC defines a recovery for intermediaries (TE over CL, identical repeated CL, absolute-form over Host) the recovered reading is the expected one", "the backend answers every request it frames with its own (lenient) reader; the verdict uses only the strict reader on the recorded raw bytes"],
            real: vec!["sozu_lib::server::Server::run (whole worker: mux H1 front and back, kawa parser and converter, editor, router, answers, timers)", "mio", "Linux epoll + AF_UNIX"],
            stub: vec!["IP network", "clock", "entropy", "clients", "backends", "master process (scripted stub)"],
            not_covered: vec!["HTTP/2 frontends / backends (header lists, pseudo-headers, content-length vs DATA)", "TLS frontends", "sozu's access-log account R_s (the pairing of backend requests with client-visible 200 answers by id is used instead)", "body provenance of requests forwarded after the reject point (only strictness, decoration, header provenance and pairing are checked there)", "responses (backend->client direction) — see C01", "early_response family: h2c backends, H1-over-TLS frontends, Expect: 100-continue uploads, early answers that are themselves cut (C02), interim 1xx before the early answer, several uploads in flight on one HTTP/2 connection"],
        }
    }
}

fn show_long(b: &[u8]) -> String {
    let mut s = String::new();
    for c in b.iter().take(1500) {
        match *c {
            b'\r' => s.push_str("\\r"),
            b'\n' => s.push_str("\\n"),
            0x20..=0x7e => s.push(*c as char),
            x => s.push_str(&format!("\\x{x:02x}")),
        }
    }
    if b.len() > 1500 { s.push_str(&format!("...(+{})", b.len() - 1500)); }
    s
}
